"""C17 (narrow claim): depth and field-count queries of the node classes follow the nested structure - a list node is one level deeper than
its content, option / indexed nodes are exactly as deep; key(position) / keys / haskey of record nodes; form(materialize) of the list, indexed
and option node classes names the node's own kind, index width, size / valid_when / lsb_order and holds the content's own form; the forms of
NumpyArray (inner shape, item size, format, dtype) and RecordArray (names, one form per field in order); type() of the list / indexed / option
nodes without parameters (var * T, size * T, ?T, T).  Type strings, parameters on types, the forms of unions, Form <-> JSON and printing / parsing are not addressed (rapidjson, std::string building, the Lark parser
over _ext types)."""
from . import runner, mnode
from .oracle import summarize

ASSUMPTIONS = [
    'node objects are raw memory at the IR field offsets over an opaque content whose purelist_depth / minmax_depth / branch_depth / numfields answers are arbitrary (symbolic)',
    'form(materialize): the content answers with an opaque Form object; the Form returned is read back from memory (class by vtable, tags, flags, content pointer); replay through Form::tojson of the natively built library',
    'type(): the content\'s form is a test double with a Form vtable whose type() reports an opaque Type; the Type returned is read back from memory (class, inner type pointer, size); replay through Type::tostring natively',
    'outside: types of leaves / records / unions and every use of parameters or type strings on types, forms of UnionArray / EmptyArray / VirtualArray, type strings, Form <-> JSON text, the datashape parser, purelist_isregular (computed on forms), highlevel ak.type',
]


def jobs(tier):
    return mnode.jobs_for('C17', tier)


def main(report, tier):
    return summarize(report, runner.run_tasks(jobs(tier)), 'C17')
