"""C17 (narrow claim): depth and field-count queries of the node classes follow the nested structure - a list node is one level deeper than
its content, option / indexed nodes are exactly as deep.  Types, forms, their JSON and printing / parsing are not addressed (rapidjson, std::string
building, the Lark parser over _ext types)."""
from . import runner, mnode
from .oracle import summarize

ASSUMPTIONS = [
    'node objects are raw memory at the IR field offsets over an opaque content whose purelist_depth / minmax_depth / branch_depth / numfields answers are arbitrary (symbolic)',
    'outside: Form / Type objects, type strings, Form <-> JSON, the datashape parser, purelist_isregular (computed on forms), highlevel ak.type',
]


def jobs(tier):
    return mnode.jobs_for('C17', tier)


def main(report, tier):
    return summarize(report, runner.run_tasks(jobs(tier)), 'C17')
