"""C02: results depend on the logical value, not the layout.  2-safety by self-composition: the same structural
kernel is run on two encodings of the same list structure - (starts, stops) of width W with arbitrary origin, gaps and
overlaps vs. the compact zero-based 64-bit form - and must give equal counts, equal *relative* carries and the same
error outcome.  Plus the contracts of the normalisation kernels every operation relies on."""
import itertools
import z3
from . import kspec, runner
from .oracle import Harness, discharge, guard, summarize
from .hlib import BV, KNONE, decl_lists, decl_offsets, type_max

ASSUMPTIONS = [
    'encoding A: ListArray(starts, stops) of width W obeying the documented rule, any origin/gaps/overlap; encoding B: the compact '
    'zero-based 64-bit form of the same list lengths (what compact_offsets64/toListOffsetArray64(true) produce)',
    'relation assumed: len_A[i] = len_B[i]; asserted: same error outcome, same counts/offsets, carries equal relative to the list start',
    'bounds (quick/thorough): n <= 2/3 lists of length <= 3, |step| <= 2, index arrays of 2 entries, n for combinations 1..3',
    'outside: the C++ methods that decide when to normalise (toListOffsetArray64, project, restriction of content to offsets[0]..offsets[-1]); '
    'NumPy strides are addressed only through contiguous_init/contiguous_next',
]


def ctype_w(w):
    return {'32': 'int32_t', 'U32': 'uint32_t', '64': 'int64_t'}[w]


def two_encodings(h, n, L, w, lens=None):
    """declare encoding A (width w, arbitrary) and B (int64 compact) of the same list lengths"""
    decl_lists(h, n, L, ctype_w(w), starts='A_starts', stops='A_stops', lens=lens)
    if lens is not None:
        offs = [sum(lens[:i]) for i in range(n + 1)]
        h.array('B_starts', 'int64_t', n, const=True, values=offs[:n]); h.array('B_stops', 'int64_t', n, const=True, values=offs[1:])
        return
    h.arr('B_starts', 'int64_t', n, const=True); h.arr('B_stops', 'int64_t', n, const=True)
    prev = BV(0)
    for i in range(n):
        a, b = h.init('B_starts', i), h.init('B_stops', i)
        h.assume(a == prev, b - a == h.init('A_stops', i) - h.init('A_starts', i))
        prev = b


@guard
def r_next_at(w, n, L):
    ca, cb = 'awkward_ListArray%s_getitem_next_at_64' % w, 'awkward_ListArray64_getitem_next_at_64'
    h = Harness([ca, cb], unwind=n + 4)
    h.scalar('lenstarts', 'int64_t', n); h.scalar('at', 'int64_t')
    two_encodings(h, n, L, w)
    h.arr('A_carry', 'int64_t', n); h.arr('B_carry', 'int64_t', n)
    h.kcall(ca, [('buf', 'A_carry'), ('buf', 'A_starts'), ('buf', 'A_stops'), 'lenstarts', 'at'])
    h.kcall(cb, [('buf', 'B_carry'), ('buf', 'B_starts'), ('buf', 'B_stops'), 'lenstarts', 'at'])

    def oracle(io):
        out = [('same success-or-error outcome on both encodings', io.err(0) != io.err(1))]
        for i in range(n):
            out.append(('same element of list %d selected' % i, z3.And(z3.Not(io.err(0)), z3.Not(io.err(1)),
                        io.y('A_carry', i) - io.x('A_starts', i) != io.y('B_carry', i) - io.x('B_starts', i))))
        return out
    return discharge(h, 'encodings agree: getitem_next_at %s vs compact64 n=%d' % (w, n), oracle,
                     [('ok', z3.Not(h.errs[0][2])), ('error', h.errs[0][2])] if n else [], extra=dict(bounds=dict(n=n, L=L)))


@guard
def r_next_range(w, n, L, SB, lens=None):
    ca, cb = 'awkward_ListArray%s_getitem_next_range_64' % w, 'awkward_ListArray64_getitem_next_range_64'
    la, lb = 'awkward_ListArray%s_getitem_next_range_carrylength' % w, 'awkward_ListArray64_getitem_next_range_carrylength'
    h = Harness([ca, cb, la, lb], unwind=n * (L + 1) + L + 4)
    h.scalar('lenstarts', 'int64_t', n)
    for nm in ('start', 'stop', 'step'):
        h.scalar(nm, 'int64_t')
    st = h.scalars['step'][0]
    h.assume(st != 0, st >= -SB, st <= SB)
    two_encodings(h, n, L, w, lens)
    for side, cl, cr in (('A', la, ca), ('B', lb, cb)):
        h.arr(side + '_len', 'int64_t', 1)
        h.kcall(cl, [('buf', side + '_len'), ('buf', side + '_starts'), ('buf', side + '_stops'), 'lenstarts', 'start', 'stop', 'step'])
        h.arr(side + '_offs', ctype_w(w) if side == 'A' else 'int64_t', n + 1)
        h.arr(side + '_carry', 'int64_t', h.out(side + '_len', 0), cap_c=side + '_len[0]')
        h.kcall(cr, [('buf', side + '_offs'), ('buf', side + '_carry'), ('buf', side + '_starts'), ('buf', side + '_stops'), 'lenstarts', 'start', 'stop', 'step'])

    def oracle(io):
        out = [('no error', z3.Or([io.err(k) for k in range(4)])), ('same total count', io.y('A_len', 0) != io.y('B_len', 0))]
        for i in range(n + 1):
            out.append(('same offsets[%d]' % i, io.y('A_offs', i) != io.y('B_offs', i)))
        for i in range(n):
            oa, ob = io.y('A_offs', i), io.y('B_offs', i)
            for p in range(L):
                out.append(('list %d selection %d is the same element' % (i, p),
                            z3.And(oa + p < io.y('A_offs', i + 1), io.y('A_carry', oa + p) - io.x('A_starts', i) != io.y('B_carry', ob + p) - io.x('B_starts', i))))
        return out
    return discharge(h, 'encodings agree: getitem_next_range %s vs compact64 n=%d%s' % (w, n, '' if lens is None else ' lens=%s' % (lens,)), oracle,
                     [('nonempty', h.out('A_len', 0) >= 2)] if n and lens is None else [], extra=dict(bounds=dict(n=n, L=L, step=SB)))


@guard
def r_next_array(w, n, L, M):
    ca, cb = 'awkward_ListArray%s_getitem_next_array_64' % w, 'awkward_ListArray64_getitem_next_array_64'
    h = Harness([ca, cb], unwind=n * M + n + M + 4)
    h.scalar('lenstarts', 'int64_t', n); h.scalar('lenarray', 'int64_t', M); h.scalar('lcA', 'int64_t'); h.scalar('lcB', 'int64_t')
    two_encodings(h, n, L, w)
    # both contents are long enough for their own encoding (documented rule); the contents differ in length
    for i in range(n):
        h.assume(z3.Or(h.init('A_starts', i) == h.init('A_stops', i), h.init('A_stops', i) <= h.scalars['lcA'][0]))
        h.assume(h.init('B_stops', i) <= h.scalars['lcB'][0])
    h.assume(h.scalars['lcA'][0] >= 0, h.scalars['lcB'][0] >= 0)
    h.arr('fromarray', 'int64_t', M, const=True)
    for s in 'AB':
        h.arr(s + '_carry', 'int64_t', n * M); h.arr(s + '_adv', 'int64_t', n * M)
    h.kcall(ca, [('buf', 'A_carry'), ('buf', 'A_adv'), ('buf', 'A_starts'), ('buf', 'A_stops'), ('buf', 'fromarray'), 'lenstarts', 'lenarray', 'lcA'])
    h.kcall(cb, [('buf', 'B_carry'), ('buf', 'B_adv'), ('buf', 'B_starts'), ('buf', 'B_stops'), ('buf', 'fromarray'), 'lenstarts', 'lenarray', 'lcB'])

    def oracle(io):
        out = [('same success-or-error outcome on both encodings', io.err(0) != io.err(1))]
        ok = z3.And(z3.Not(io.err(0)), z3.Not(io.err(1)))
        for i in range(n):
            for j in range(M):
                k = i * M + j
                out.append(('same element (%d,%d)' % (i, j), z3.And(ok, io.y('A_carry', k) - io.x('A_starts', i) != io.y('B_carry', k) - io.x('B_starts', i))))
                out.append(('same advanced (%d,%d)' % (i, j), z3.And(ok, io.y('A_adv', k) != io.y('B_adv', k))))
        return out
    return discharge(h, 'encodings agree: getitem_next_array %s vs compact64 n=%d M=%d' % (w, n, M), oracle,
                     [('ok', z3.Not(h.errs[0][2])), ('error', h.errs[0][2])] if n and M else [], extra=dict(bounds=dict(n=n, L=L, M=M)))


@guard
def r_counts(w, n, L, target, ncomb, repl, lens=None):
    """num, compact_offsets, min_range, rpad_and_clip_length, combinations_length: same numbers from both encodings"""
    K = ['awkward_ListArray%s_num_64', 'awkward_ListArray%s_compact_offsets_64', 'awkward_ListArray%s_min_range',
         'awkward_ListArray%s_rpad_and_clip_length_axis1', 'awkward_ListArray%s_combinations_length_64']
    names = [k % w for k in K] + [k % '64' for k in K]
    h = Harness(names, unwind=n * 4 + 12)
    h.scalar('length', 'int64_t', n); h.scalar('target', 'int64_t', target); h.scalar('ncomb', 'int64_t', ncomb); h.scalar('repl', 'bool', repl)
    two_encodings(h, n, L, w, lens)
    for s, ww in (('A', w), ('B', '64')):
        h.arr(s + '_num', 'int64_t', n); h.arr(s + '_offs', 'int64_t', n + 1); h.arr(s + '_min', 'int64_t', 1); h.arr(s + '_rl', 'int64_t', 1)
        h.arr(s + '_tot', 'int64_t', 1); h.arr(s + '_coffs', 'int64_t', n + 1)
        st, sp = ('buf', s + '_starts'), ('buf', s + '_stops')
        h.kcall(K[0] % ww, [('buf', s + '_num'), st, sp, 'length'])
        h.kcall(K[1] % ww, [('buf', s + '_offs'), st, sp, 'length'])
        if n:
            h.kcall(K[2] % ww, [('buf', s + '_min'), st, sp, 'length'])
        h.kcall(K[3] % ww, [('buf', s + '_rl'), st, sp, 'target', 'length'])
        h.kcall(K[4] % ww, [('buf', s + '_tot'), ('buf', s + '_coffs'), 'ncomb', 'repl', st, sp, 'length'])

    def oracle(io):
        out = [('no error', z3.Or([io.err(k) for k in range(len(h.errs))]))]
        for i in range(n):
            out.append(('same num[%d]' % i, io.y('A_num', i) != io.y('B_num', i)))
        for i in range(n + 1):
            out.append(('same compact offsets[%d]' % i, io.y('A_offs', i) != io.y('B_offs', i)))
            out.append(('same combinations offsets[%d]' % i, io.y('A_coffs', i) != io.y('B_coffs', i)))
        if n:
            out.append(('same shortest list', io.y('A_min', 0) != io.y('B_min', 0)))
        out.append(('same padded total length', io.y('A_rl', 0) != io.y('B_rl', 0)))
        out.append(('same number of combinations', io.y('A_tot', 0) != io.y('B_tot', 0)))
        return out
    return discharge(h, 'encodings agree: counting kernels %s vs compact64 n=%d target=%d comb=%d repl=%d%s' % (w, n, target, ncomb, repl, '' if lens is None else ' lens=%s' % (lens,)),
                     oracle, [], extra=dict(bounds=dict(n=n, L=L)))


# ---------------------------------------------------------------------------------------- normalisation contracts
@guard
def h_compact_offsets(kind, w, n, L):
    if kind == 'ListArray':
        cname = 'awkward_ListArray%s_compact_offsets_64' % w
    elif kind == 'ListOffsetArray':
        cname = 'awkward_ListOffsetArray%s_compact_offsets_64' % w
    else:
        cname = 'awkward_RegularArray_compact_offsets64'
    h = Harness(cname, unwind=n + 4)
    h.scalar('length', 'int64_t', n)
    h.arr('tooffsets', 'int64_t', n + 1)
    if kind == 'ListArray':
        decl_lists(h, n, L, ctype_w(w))
        h.kcall(cname, [('buf', 'tooffsets'), ('buf', 'fromstarts'), ('buf', 'fromstops'), 'length'])
        ln = lambda io, i: io.x('fromstops', i) - io.x('fromstarts', i)
    elif kind == 'ListOffsetArray':
        decl_offsets(h, n, L, ctype_w(w))
        h.kcall(cname, [('buf', 'tooffsets'), ('buf', 'fromoffsets'), 'length'])
        ln = lambda io, i: io.x('fromoffsets', i + 1) - io.x('fromoffsets', i)
    else:
        h.scalar('size', 'int64_t')
        h.assume(h.scalars['size'][0] >= 0, h.scalars['size'][0] <= 2 ** 40)
        h.kcall(cname, [('buf', 'tooffsets'), 'length', 'size'])
        ln = lambda io, i: io.sc('size')

    def oracle(io):
        out = [('no error', io.err()), ('offsets[0] = 0', io.y('tooffsets', 0) != 0)]
        for i in range(n):
            out.append(('offsets[%d] - offsets[%d] = length of list %d' % (i + 1, i, i), io.y('tooffsets', i + 1) - io.y('tooffsets', i) != ln(io, i)))
        return out
    return discharge(h, '%s n=%d' % (cname, n), oracle, [], extra=dict(bounds=dict(n=n, L=L)))


@guard
def h_to_regular(w, n, L):
    cname = 'awkward_ListOffsetArray%s_toRegularArray' % w
    h = Harness(cname, unwind=n + 4)
    h.scalar('offsetslength', 'int64_t', n + 1)
    decl_offsets(h, n, L, ctype_w(w))
    h.arr('size', 'int64_t', 1)
    h.kcall(cname, [('buf', 'size'), ('buf', 'fromoffsets'), 'offsetslength'])

    def oracle(io):
        lens = [io.x('fromoffsets', i + 1) - io.x('fromoffsets', i) for i in range(n)]
        irregular = z3.Or([lens[i] != lens[0] for i in range(1, n)] + [z3.BoolVal(False)])
        out = [('error iff the lists have different lengths', io.err() != irregular)]
        out.append(('size = the common length (0 for no lists)', z3.And(z3.Not(io.err()), io.y('size', 0) != (lens[0] if n else BV(0)))))
        return out
    return discharge(h, '%s n=%d' % (cname, n), oracle, [('ok', z3.Not(h.errs[-1][2]))], extra=dict(bounds=dict(n=n, L=L)))


@guard
def h_contiguous(n, m):
    """strided 2-d buffer -> byte positions of every element in C order (init over rows, next over columns)"""
    c1, c2 = 'awkward_NumpyArray_contiguous_init_64', 'awkward_NumpyArray_contiguous_next_64'
    h = Harness([c1, c2], unwind=n * m + n + m + 4)
    h.scalar('len0', 'int64_t', n); h.scalar('len1', 'int64_t', m); h.scalar('s0', 'int64_t'); h.scalar('s1', 'int64_t')
    for s in ('s0', 's1'):
        h.assume(h.scalars[s][0] >= -(2 ** 30), h.scalars[s][0] <= 2 ** 30)
    h.arr('pos', 'int64_t', n); h.arr('next', 'int64_t', n * m)
    h.kcall(c1, [('buf', 'pos'), 'len0', 's0'])
    h.kcall(c2, [('buf', 'next'), ('buf', 'pos'), 'len0', 'len1', 's1'])

    def oracle(io):
        out = [('no error', z3.Or(io.err(0), io.err(1)))]
        for i in range(n):
            for j in range(m):
                out.append(('byte position of element (%d,%d) = i*stride0 + j*stride1' % (i, j), io.y('next', i * m + j) != i * io.sc('s0') + j * io.sc('s1')))
        return out
    return discharge(h, 'NumpyArray contiguous positions %dx%d' % (n, m), oracle, [], extra=dict(bounds=dict(shape=[n, m])))


def jobs(tier):
    from . import c09
    N, L = (2, 3) if tier == 'quick' else (3, 3)
    js = []
    for w in ('32', 'U32', '64'):
        for n in range(N + 1):
            js.append((r_next_at, (w, n, L), 900))
            if n <= 2:
                js.append((r_next_range, (w, n, L, 2), 1800))
            else:
                for lens in itertools.product(range(L + 1), repeat=n):
                    js.append((r_next_range, (w, n, L, 2, lens), 1800))
            js.append((r_next_array, (w, n, L, 2), 1200))
            for target in (0, 2):
                js.append((r_counts, (w, n, L, target, 1, False), 1200))
                for ncomb, repl in ((2, False), (2, True), (3, False)):
                    for lens in itertools.product(range(L + 1), repeat=n):     # binomials: case-split the list lengths
                        js.append((r_counts, (w, n, L, target, ncomb, repl, lens), 1200))
            js.append((h_compact_offsets, ('ListArray', w, n, L), 600))
            js.append((h_compact_offsets, ('ListOffsetArray', w, n, L), 600))
            js.append((h_to_regular, (w, n, L), 600))
    for n in range(N + 1):
        js.append((h_compact_offsets, ('RegularArray', '64', n, L), 300))
    for n, m in ((0, 2), (1, 1), (2, 2), (3, 2), (2, 3)):
        js.append((h_contiguous, (n, m), 300))
    for n in ([3, 9] if tier == 'quick' else [2, 3, 9, 12]):
        js.append((c09.h_option_encodings, (n,), 1800))
    return js


def main(report, tier):
    from . import mnode
    return summarize(report, runner.run_tasks(jobs(tier) + mnode.jobs_for('C02', tier)), 'C02')
