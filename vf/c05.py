"""C05: num / flatten / local_index kernels obey the list-structure laws."""
import z3
from . import kspec, runner
from .oracle import Harness, discharge, guard, summarize
from .hlib import BV, decl_lists, decl_offsets, type_max

ASSUMPTIONS = [
    'layouts obey the documented ListArray/ListOffsetArray/IndexedOptionArray rules',
    'bounds (quick/thorough): lists n <= 3/4, list length <= 3/4, offsets origins and gaps anywhere in the index type',
    'capacities as the C++ callers allocate them (length, length+1, offsets[-1])',
    'outside: ak.unflatten (NumPy in Python), completely_flatten, axis plumbing in the C++ num/flatten/localindex methods',
]


def ctype_w(w):
    return {'32': 'int32_t', 'U32': 'uint32_t', '64': 'int64_t'}[w]


@guard
def h_num(w, n, L):
    cname = 'awkward_ListArray%s_num_64' % w
    h = Harness(cname, unwind=n + 3)
    h.scalar('length', 'int64_t', n)
    decl_lists(h, n, L, ctype_w(w))
    h.arr('tonum', 'int64_t', n)
    h.kcall(cname, [('buf', 'tonum'), ('buf', 'fromstarts'), ('buf', 'fromstops'), 'length'])

    def oracle(io):
        return [('no error', io.err())] + [('num[%d] = len(list %d)' % (i, i), io.y('tonum', i) != io.x('fromstops', i) - io.x('fromstarts', i)) for i in range(n)]
    return discharge(h, '%s n=%d' % (cname, n), oracle, [], extra=dict(bounds=dict(n=n, L=L)))


@guard
def h_regular_num(n):
    cname = 'awkward_RegularArray_num_64'
    h = Harness(cname, unwind=n + 3)
    h.scalar('size', 'int64_t'); h.scalar('length', 'int64_t', n)
    h.assume(h.scalars['size'][0] >= 0)
    h.arr('tonum', 'int64_t', n)
    h.kcall(cname, [('buf', 'tonum'), 'size', 'length'])

    def oracle(io):
        return [('no error', io.err())] + [('num[%d] = size' % i, io.y('tonum', i) != io.sc('size')) for i in range(n)]
    return discharge(h, '%s n=%d' % (cname, n), oracle, [], extra=dict(bounds=dict(n=n)))


@guard
def h_localindex(w, n, L):
    cname = 'awkward_ListArray%s_localindex_64' % w
    h = Harness(cname, unwind=n * (L + 1) + 4)
    h.scalar('length', 'int64_t', n)
    offs = decl_offsets(h, n, L, ctype_w(w), name='offsets', zero_based=True)   # callers pass compact offsets
    tot = h.init('offsets', n)
    h.arr('toindex', 'int64_t', tot)
    h.kcall(cname, [('buf', 'toindex'), ('buf', 'offsets'), 'length'])

    def oracle(io):
        out = [('no error', io.err())]
        for i in range(n):
            a, b = io.x('offsets', i), io.x('offsets', i + 1)
            for p in range(L):
                out.append(('list %d position %d gets local index %d' % (i, p, p), z3.And(p < b - a, io.y('toindex', a + p) != p)))
        return out
    return discharge(h, '%s n=%d' % (cname, n), oracle, [('some list has 2+', tot >= 2)] if n else [], extra=dict(bounds=dict(n=n, L=L)))


@guard
def h_regular_localindex(n, size):
    cname = 'awkward_RegularArray_localindex_64'
    h = Harness(cname, unwind=n * size + n + size + 4)
    h.scalar('size', 'int64_t', size); h.scalar('length', 'int64_t', n)
    h.arr('toindex', 'int64_t', n * size)
    h.kcall(cname, [('buf', 'toindex'), 'size', 'length'])

    def oracle(io):
        return [('no error', io.err())] + [('toindex[%d*size+%d]' % (i, j), io.y('toindex', i * size + j) != j) for i in range(n) for j in range(size)]
    return discharge(h, '%s n=%d size=%d' % (cname, n, size), oracle, [], extra=dict(bounds=dict(n=n, size=size)))


@guard
def h_localindex0(n):
    cname = 'awkward_localindex_64'
    h = Harness(cname, unwind=n + 3)
    h.scalar('length', 'int64_t', n)
    h.arr('toindex', 'int64_t', n)
    h.kcall(cname, [('buf', 'toindex'), 'length'])

    def oracle(io):
        return [('no error', io.err())] + [('toindex[%d]' % i, io.y('toindex', i) != i) for i in range(n)]
    return discharge(h, '%s n=%d' % (cname, n), oracle, [], extra=dict(bounds=dict(n=n)))


@guard
def h_flatten_offsets(w, n, m, L, degenerate=False):
    """flatten(axis=1) of list-of-lists: new list i spans the concatenation of old inner lists outer[i]..outer[i+1]"""
    cname = 'awkward_ListOffsetArray%s_flatten_offsets_64' % w
    ct = ctype_w(w)
    h = Harness(cname, unwind=n + 4)
    h.scalar('outeroffsetslen', 'int64_t', n + 1); h.scalar('inneroffsetslen', 'int64_t', m + 1)
    outer = decl_offsets(h, n, m, ct, name='outeroffsets')
    inrange = z3.And([z3.And(h.init('outeroffsets', i) >= 0, h.init('outeroffsets', i) <= m) for i in range(n + 1)])
    # the documented rule lets an *empty* list carry any start == stop, even outside the content; that degenerate class
    # is checked separately (known finding) so that everything else stays a hard obligation
    h.assume(z3.Not(inrange) if degenerate else inrange)
    inner = decl_offsets(h, m, L, 'int64_t', name='inneroffsets')
    h.arr('tooffsets', 'int64_t', n + 1)
    h.kcall(cname, [('buf', 'tooffsets'), ('buf', 'outeroffsets'), 'outeroffsetslen', ('buf', 'inneroffsets'), 'inneroffsetslen'])

    def oracle(io):
        out = [('no error', io.err())]

        def inner_at(k):
            v = BV(0)
            for j in range(m + 1):
                v = z3.If(k == j, io.x('inneroffsets', j), v)
            return v
        for i in range(n + 1):
            out.append(('tooffsets[%d] = inner[outer[%d]]' % (i, i), io.y('tooffsets', i) != inner_at(io.x('outeroffsets', i))))
        # concatenation law: length of new list i = sum of the lengths of inner lists outer[i]..outer[i+1]
        for i in range(n):
            tot = BV(0)
            for j in range(m):
                inside = z3.And(io.x('outeroffsets', i) <= j, j < io.x('outeroffsets', i + 1))
                tot = z3.If(inside, tot + (io.x('inneroffsets', j + 1) - io.x('inneroffsets', j)), tot)
            out.append(('len(new list %d) = sum of inner lengths' % i, io.y('tooffsets', i + 1) - io.y('tooffsets', i) != tot))
        return out
    return discharge(h, '%s n=%d m=%d%s' % (cname, n, m, ' degenerate-empty-lists' if degenerate else ''), oracle, [], extra=dict(bounds=dict(n=n, m=m, L=L)))


@guard
def h_flatten_nextcarry(w, n):
    cname = 'awkward_IndexedArray%s_flatten_nextcarry_64' % w
    h = Harness(cname, unwind=n + 4)
    h.scalar('lenindex', 'int64_t', n); h.scalar('lencontent', 'int64_t')
    LC = h.scalars['lencontent'][0]
    h.assume(LC >= 0, LC <= 2 ** 40)
    h.arr('fromindex', ctype_w(w), n, const=True)
    h.arr('tocarry', 'int64_t', n)
    h.kcall(cname, [('buf', 'tocarry'), ('buf', 'fromindex'), 'lenindex', 'lencontent'])

    def oracle(io):
        out, bad = [], []
        k = BV(0)
        for i in range(n):
            x = io.x('fromindex', i)
            bad.append(x >= io.sc('lencontent'))
            out.append(('non-missing entry %d is carried in order' % i, z3.And(z3.Not(io.err()), x >= 0, io.y('tocarry', k) != x)))
            k = z3.If(x >= 0, k + 1, k)
        out.append(('error iff index beyond content', io.err() != z3.Or(bad + [z3.BoolVal(False)])))
        return out
    return discharge(h, '%s n=%d' % (cname, n), oracle, [('ok', z3.Not(h.errs[-1][2]))], extra=dict(bounds=dict(n=n)))


@guard
def h_none2empty(w, n, m, L):
    """a missing list contributes an empty list to the flattened offsets"""
    cname = 'awkward_IndexedArray%s_flatten_none2empty_64' % w
    h = Harness(cname, unwind=n + 4)
    h.scalar('outindexlength', 'int64_t', n); h.scalar('offsetslength', 'int64_t', m + 1)
    h.arr('outindex', ctype_w(w), n, const=True)
    offs = decl_offsets(h, m, L, 'int64_t', name='offsets')
    for i in range(n):
        h.assume(h.init('outindex', i) < m)          # documented IndexedOptionArray rule
    h.arr('outoffsets', 'int64_t', n + 1)
    h.kcall(cname, [('buf', 'outoffsets'), ('buf', 'outindex'), 'outindexlength', ('buf', 'offsets'), 'offsetslength'])

    def oracle(io):
        out = [('no error on a valid option index', io.err()), ('outoffsets[0] = offsets[0]', io.y('outoffsets', 0) != io.x('offsets', 0))]
        for i in range(n):
            x = io.x('outindex', i)
            ln = BV(0)
            for j in range(m):
                ln = z3.If(x == j, io.x('offsets', j + 1) - io.x('offsets', j), ln)
            out.append(('list %d: empty if missing else length of the list it points at' % i,
                        io.y('outoffsets', i + 1) - io.y('outoffsets', i) != z3.If(x < 0, BV(0), ln)))
        return out
    signed = w != 'U32'
    tw = [('a missing list', h.init('outindex', 0) < 0)] if n and signed else []
    return discharge(h, '%s n=%d m=%d' % (cname, n, m), oracle, tw, extra=dict(bounds=dict(n=n, m=m, L=L)))


@guard
def h_num_roundtrip(w, n, L):
    """round-trip law on offsets: compact offsets rebuilt from num equal ListArray_compact_offsets of the input"""
    c1, c2 = 'awkward_ListArray%s_num_64' % w, 'awkward_ListArray%s_compact_offsets_64' % w
    h = Harness([c1, c2], unwind=n + 4)
    h.scalar('length', 'int64_t', n)
    decl_lists(h, n, L, ctype_w(w))
    h.arr('tonum', 'int64_t', n); h.arr('tooffsets', 'int64_t', n + 1)
    h.kcall(c1, [('buf', 'tonum'), ('buf', 'fromstarts'), ('buf', 'fromstops'), 'length'])
    h.kcall(c2, [('buf', 'tooffsets'), ('buf', 'fromstarts'), ('buf', 'fromstops'), 'length'])

    def oracle(io):
        out = [('no error', z3.Or(io.err(0), io.err(1))), ('offsets start at 0', io.y('tooffsets', 0) != 0)]
        acc = BV(0)
        for i in range(n):
            acc = acc + io.y('tonum', i)
            out.append(('offsets[%d] = cumulative num' % (i + 1), io.y('tooffsets', i + 1) != acc))
        return out
    return discharge(h, 'num/compact_offsets round trip %s n=%d' % (w, n), oracle, [], extra=dict(bounds=dict(n=n, L=L)))


def jobs(tier):
    N, L = (3, 3) if tier == 'quick' else (4, 4)
    js = []
    for w in ('64', '32', 'U32'):
        for n in range(N + 1):
            js.append((h_num, (w, n, L), 600))
            js.append((h_localindex, (w, n, L), 900))
            js.append((h_flatten_nextcarry, (w, n), 600))
            js.append((h_num_roundtrip, (w, n, L), 600))
        # kernels whose loops do not depend on the list lengths: lengths up to the width of the index type
        for n in (1, 2):
            js.append((h_num, (w, n, 2 ** 40), 600))
            js.append((h_num_roundtrip, (w, n, 2 ** 40), 600))
            js.append((h_none2empty, (w, n, 2, 2 ** 40), 900))
            js.append((h_flatten_offsets, (w, n, 2, 2 ** 40), 900))
        for n in range(1, N):
            for m in range(0, N):
                js.append((h_flatten_offsets, (w, n, m, L), 900))
                if not (w == 'U32' and m == 0):
                    js.append((h_none2empty, (w, n, m, L), 900))
        js.append((h_flatten_offsets, (w, 1, 1, L, True), 900))
    for n in range(N + 1):
        js.append((h_regular_num, (n,), 300))
        js.append((h_localindex0, (n,), 300))
        for size in range(0, 3):
            js.append((h_regular_localindex, (n, size), 300))
    return js


def all_jobs(tier):
    from . import extra_misc, mnode
    return jobs(tier) + extra_misc.jobs_for('C05', tier) + mnode.jobs_for('C05', tier)


def main(report, tier):
    return summarize(report, runner.run_tasks(all_jobs(tier)), 'C05')
