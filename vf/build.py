"""Lowering /repo sources to LLVM IR and native code, always from the current working tree.

A content-hash cache under /verif/.cache avoids recompiling unchanged inputs; the hash covers the source
text, every header under include/awkward and the flags, so an edited tree always re-lowers.
"""
import hashlib, os, subprocess, glob, functools, tempfile, shutil, time

REPO = os.environ.get('VERIF_REPO', '/repo')
VERIF = os.path.dirname(os.path.dirname(os.path.abspath(__file__)))
CACHE = os.path.join(VERIF, '.cache')
CXX = 'clang++-14'
IRFLAGS = ['-std=c++11', '-O1', '-fno-builtin', '-fno-vectorize', '-fno-slp-vectorize', '-fno-unroll-loops',
           '-fno-discard-value-names', '-S', '-emit-llvm']
DEFS = ['-DVERSION_INFO="verif"']


def _inc():
    inc = ['-I' + os.path.join(REPO, 'include')]
    # rapidjson is an empty submodule directory here: a small stand-in lets Content.cpp / util.cpp / type/Type.cpp be lowered too
    inc.append('-I' + os.path.join(os.path.dirname(os.path.abspath(__file__)), 'standin'))
    # include/awkward/kernels.h is a generated, git-ignored file: scratch worktrees lack it -> fall back to /repo's copy
    if not os.path.exists(os.path.join(REPO, 'include', 'awkward', 'kernels.h')):
        fb = os.path.join(CACHE, 'fallback_inc', 'awkward')
        src = '/repo/include/awkward/kernels.h'
        if os.path.exists(src):
            os.makedirs(fb, exist_ok=True)
            dst = os.path.join(fb, 'kernels.h')
            if not os.path.exists(dst) or open(dst, 'rb').read() != open(src, 'rb').read():
                shutil.copy(src, dst)
            inc.append('-I' + os.path.dirname(fb))
    return inc


@functools.lru_cache(None)
def headers_hash():
    h = hashlib.sha256()
    for p in sorted(glob.glob(os.path.join(REPO, 'include', 'awkward', '**', '*.h'), recursive=True)):
        h.update(p.encode()); h.update(open(p, 'rb').read())
    return h.hexdigest()


def _key(paths, flags):
    h = hashlib.sha256()
    h.update(headers_hash().encode())
    h.update(' '.join(flags).encode())
    for p in paths:
        h.update(p.encode()); h.update(open(p, 'rb').read())
    return h.hexdigest()[:24]


def repo_path(rel):
    return rel if os.path.isabs(rel) else os.path.join(REPO, rel)


def compile_ir(rel, extra=()):
    """-> IR text of one translation unit of /repo (path relative to /repo)"""
    src = repo_path(rel)
    flags = IRFLAGS + list(extra) + DEFS
    os.makedirs(CACHE, exist_ok=True)
    out = os.path.join(CACHE, 'ir_%s_%s.ll' % (os.path.basename(src).replace('.cpp', ''), _key([src], flags)))
    if not os.path.exists(out):
        tmp = out + '.%d.tmp' % os.getpid()
        r = subprocess.run([CXX] + flags + _inc() + [src, '-o', tmp], capture_output=True, text=True)
        if r.returncode != 0:
            raise RuntimeError('IR lowering failed for %s:\n%s' % (rel, r.stderr[-2000:]))
        os.replace(tmp, out)
    with open(out) as f:
        return f.read()


def kernel_sources():
    return sorted(glob.glob(os.path.join(REPO, 'src', 'cpu-kernels', '*.cpp')))


def native_kernels(sanitize=False):
    """build libawkward-cpu-kernels from the working tree -> path of .so"""
    srcs = kernel_sources()
    flags = ['-std=c++11', '-O2', '-fPIC', '-shared'] + (['-fsanitize=address,undefined', '-fno-omit-frame-pointer',
                                                          '-shared-libasan'] if sanitize else []) + DEFS
    os.makedirs(CACHE, exist_ok=True)
    out = os.path.join(CACHE, 'libkernels_%s%s.so' % (_key(srcs, flags), '_asan' if sanitize else ''))
    if os.path.exists(out):
        return out
    objdir = tempfile.mkdtemp(prefix='vfobj', dir=CACHE)
    try:
        from concurrent.futures import ThreadPoolExecutor

        def one(s):
            o = os.path.join(objdir, os.path.basename(s) + '.o')
            r = subprocess.run([CXX] + [f for f in flags if f != '-shared'] + _inc() + ['-c', s, '-o', o],
                               capture_output=True, text=True)
            if r.returncode != 0:
                raise RuntimeError('native build failed for %s:\n%s' % (s, r.stderr[-2000:]))
            return o
        with ThreadPoolExecutor(16) as ex:
            objs = list(ex.map(one, srcs))
        tmp = out + '.%d.tmp' % os.getpid()
        r = subprocess.run([CXX] + flags + objs + ['-o', tmp], capture_output=True, text=True)
        if r.returncode != 0:
            raise RuntimeError('link failed:\n' + r.stderr[-2000:])
        os.replace(tmp, out)
    finally:
        shutil.rmtree(objdir, ignore_errors=True)
    return out


def compile_driver(driver_cpp_text, repo_sources, sanitize=True, opt='-O1'):
    """compile a generated C++ driver together with /repo sources -> executable path (cached)"""
    srcs = [repo_path(s) for s in repo_sources]
    flags = ['-std=c++11', opt, '-g'] + (['-fsanitize=address,undefined', '-fno-omit-frame-pointer',
                                          '-fno-sanitize-recover=undefined', '-fno-sanitize=nonnull-attribute', '-fno-sanitize=vptr'] if sanitize else []) + DEFS
    h = hashlib.sha256(driver_cpp_text.encode()).hexdigest()[:16]
    os.makedirs(CACHE, exist_ok=True)
    out = os.path.join(CACHE, 'drv_%s_%s' % (h, _key(srcs, flags)))
    if os.path.exists(out):
        return out
    d = tempfile.mkdtemp(prefix='vfdrv', dir=CACHE)
    try:
        dp = os.path.join(d, 'driver.cpp')
        with open(dp, 'w') as f:
            f.write(driver_cpp_text)
        tmp = out + '.%d.tmp' % os.getpid()
        r = subprocess.run([CXX] + flags + _inc() + [dp] + srcs + ['-o', tmp], capture_output=True, text=True)
        if r.returncode != 0:
            raise RuntimeError('driver build failed:\n' + r.stderr[-3000:])
        os.replace(tmp, out)
    finally:
        shutil.rmtree(d, ignore_errors=True)
    return out


def clean_cache(max_mb=8000, keep_s=6 * 3600):
    """drop the oldest cache files beyond a size budget; files used in the last hours are never dropped (another check may be linking them
    right now - cache users refresh the time stamp of what they reuse)"""
    if not os.path.isdir(CACHE):
        return
    ents = []
    now = time.time()
    for n in os.listdir(CACHE):
        p = os.path.join(CACHE, n)
        if os.path.isfile(p):
            st = os.stat(p)
            if now - st.st_mtime < keep_s:
                continue
            ents.append((st.st_mtime, st.st_size, p))
    ents.sort(reverse=True)
    tot = 0
    for mt, sz, p in ents:
        tot += sz
        if tot > max_mb * 1e6:
            try:
                os.remove(p)
            except OSError:
                pass


def compile_objs_driver(driver_cpp_text, repo_sources, sanitize=True, opt='-O1'):
    """like compile_driver, but every /repo source is compiled to its own (cached) object and symbols that none of the
    linked objects defines are resolved to trapping weak stubs - for classes whose translation unit references parts of
    libawkward that cannot be built here (never executed on the replayed path; executing one traps)."""
    srcs = [repo_path(s) for s in repo_sources]
    alloc = repo_path('src/cpu-kernels/allocators.cpp')      # awkward_malloc / awkward_free are real code, never stubs
    if alloc not in srcs:
        srcs.append(alloc)
    flags = ['-std=c++11', opt, '-g'] + (['-fsanitize=address,undefined', '-fno-omit-frame-pointer',
                                          '-fno-sanitize-recover=undefined', '-fno-sanitize=nonnull-attribute', '-fno-sanitize=vptr'] if sanitize else []) + DEFS
    os.makedirs(CACHE, exist_ok=True)
    h = hashlib.sha256(driver_cpp_text.encode()).hexdigest()[:16]
    out = os.path.join(CACHE, 'drvo_%s_%s' % (h, _key(srcs, flags)))
    if os.path.exists(out):
        return out
    objs = []
    from concurrent.futures import ThreadPoolExecutor

    def one(sp):
        o = os.path.join(CACHE, 'obj_%s_%s.o' % (os.path.basename(sp).replace('.cpp', ''), _key([sp], flags)))
        if not os.path.exists(o):
            tmp = o + '.%d.tmp' % os.getpid()
            r = subprocess.run([CXX] + flags + _inc() + ['-c', sp, '-o', tmp], capture_output=True, text=True)
            if r.returncode != 0:
                raise RuntimeError('object build failed for %s:\n%s' % (sp, r.stderr[-2000:]))
            os.replace(tmp, o)
        return o
    with ThreadPoolExecutor(8) as ex:
        objs = list(ex.map(one, srcs))
    d = tempfile.mkdtemp(prefix='vfdrvo', dir=CACHE)
    try:
        dp = os.path.join(d, 'driver.cpp')
        with open(dp, 'w') as f:
            f.write(driver_cpp_text)
        dobj = os.path.join(d, 'driver.o')
        r = subprocess.run([CXX] + flags + _inc() + ['-c', dp, '-o', dobj], capture_output=True, text=True)
        if r.returncode != 0:
            raise RuntimeError('driver build failed:\n' + r.stderr[-3000:])
        allobjs = objs + [dobj]
        und = subprocess.run(['nm', '-u'] + allobjs, capture_output=True, text=True).stdout
        dfn = subprocess.run(['nm', '--defined-only'] + allobjs, capture_output=True, text=True).stdout
        undef = set(l.split()[-1] for l in und.splitlines() if ' U ' in l)
        defined = set(l.split()[-1] for l in dfn.splitlines() if len(l.split()) == 3)
        need = sorted(x for x in undef - defined if 'awkward' in x)
        sp = os.path.join(d, 'stubs.s')
        with open(sp, 'w') as f:
            f.write('.section .note.GNU-stack,"",@progbits\n.text\n')
            for x in need:
                f.write('.weak %s\n%s:\n  ud2\n' % (x, x))
        tmp = out + '.%d.tmp' % os.getpid()
        r = subprocess.run([CXX] + [f for f in flags if f.startswith('-fsanitize') or f.startswith('-fno-omit')] + allobjs + [sp, '-o', tmp],
                           capture_output=True, text=True)
        if r.returncode != 0:
            raise RuntimeError('link failed:\n' + r.stderr[-3000:])
        os.replace(tmp, out)
    finally:
        shutil.rmtree(d, ignore_errors=True)
    return out


def compile_ir_text(text, tag, dep_rels=()):
    """lower a small generated translation unit (which #includes /repo sources by absolute path) to IR"""
    deps = [repo_path(r) for r in dep_rels]
    flags = IRFLAGS + DEFS
    os.makedirs(CACHE, exist_ok=True)
    h = hashlib.sha256(text.encode()).hexdigest()[:12]
    out = os.path.join(CACHE, 'irt_%s_%s_%s.ll' % (tag, h, _key(deps, flags)))
    if not os.path.exists(out):
        src = out[:-3] + '.%d.cpp' % os.getpid()
        with open(src, 'w') as f:
            f.write(text)
        tmp = out + '.%d.tmp' % os.getpid()
        r = subprocess.run([CXX] + flags + _inc() + [src, '-o', tmp], capture_output=True, text=True)
        try:
            os.remove(src)
        except OSError:
            pass
        if r.returncode != 0:
            raise RuntimeError('IR lowering failed for generated unit %s:\n%s' % (tag, r.stderr[-2000:]))
        os.replace(tmp, out)
    with open(out) as f:
        return f.read()
