"""C10 (narrow claim): RecordArray at the node-method level - positional operations treat every field alike, so projecting a field (by
position) commutes with positional selection; field names / string keys, zip / unzip / with_field (Python over _ext) are not addressed."""
from . import runner, mnode
from .oracle import summarize

ASSUMPTIONS = [
    'RecordArray objects are built as raw memory at the IR field offsets with 0..3 opaque field contents (each at least as long as the record count, own atom space), '
    'no field names (recordlookup null: a tuple), empty parameters, null identities, no caches',
    'carry indexes are in range and not the contiguous 0..n-1 (that case is getitem_range_nowrap, covered separately)',
    'outside: key (string) based access (util::fieldindex: std::string compare, std::stoi, catch blocks), getitem_fields, zip/unzip/with_field and to_list order (Python), Record scalars',
]


def jobs(tier):
    return mnode.jobs_for('C10', tier)


def main(report, tier):
    return summarize(report, runner.run_tasks(jobs(tier)), 'C10')
