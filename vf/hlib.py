"""Shared building blocks for property harnesses: documented-valid symbolic layouts and reference semantics."""
import z3
from . import kspec
from .pre import list_rule
from .kharness import widen

KNONE = 2 ** 63 - 1


def BV(x):
    return z3.BitVecVal(x, 64)


def type_max(ctype):
    kind, bits, signed = kspec.CT[ctype]
    return (1 << (bits - 1)) - 1 if signed else (1 << bits) - 1


def decl_lists(h, n, L, ctype, starts='fromstarts', stops='fromstops', lencontent=None, maxstop=None, const=True, lens=None):
    """n lists given by (starts[i], stops[i]) of C type ctype obeying the documented ListArray rule, each of
    length <= L.  lencontent: optional z3 term bounding stops.  Returns list of (start, stop, length) wide terms."""
    h.arr(starts, ctype, n, const=const)
    if lens is not None:
        # size case-split: stops are *defined* as starts + the concrete length, so stop - start folds to a constant
        bits = kspec.CT[ctype][1]
        sarr = h.arrays[starts].init
        e = z3.Array(stops + '!rest', z3.BitVecSort(64), z3.BitVecSort(bits))
        for i in range(n):
            e = z3.Store(e, z3.BitVecVal(i, 64), z3.Select(sarr, z3.BitVecVal(i, 64)) + z3.BitVecVal(lens[i], bits))
        h.arr(stops, ctype, n, const=const, expr=e)
    else:
        h.arr(stops, ctype, n, const=const)
    out = []
    for i in range(n):
        a, b = h.init(starts, i), h.init(stops, i)
        h.assume(list_rule(a, b, lencontent), b - a <= L, b - a >= 0)
        if lens is not None:
            h.assume(b - a == lens[i])       # size case-split (DESIGN 2.1 iv): lengths concrete, origins symbolic
        if maxstop is not None:
            h.assume(b <= maxstop)
        out.append((a, b, b - a))
    return out


def decl_offsets(h, n, L, ctype, name='fromoffsets', lencontent=None, const=True, zero_based=False, lens=None):
    """offsets array of n+1 entries obeying the documented ListOffsetArray rule, list lengths <= L"""
    if lens is not None:
        bits = kspec.CT[ctype][1]
        first = z3.BitVec(name + '!first', bits)
        e = z3.Array(name + '!rest', z3.BitVecSort(64), z3.BitVecSort(bits))
        acc = first
        e = z3.Store(e, z3.BitVecVal(0, 64), acc)
        for i in range(n):
            acc = acc + z3.BitVecVal(lens[i], bits)
            e = z3.Store(e, z3.BitVecVal(i + 1, 64), acc)
        h.arr(name, ctype, n + 1, const=const, expr=e)
    else:
        h.arr(name, ctype, n + 1, const=const)
    out = []
    if zero_based:
        h.assume(h.init(name, 0) == 0)
    for i in range(n):
        a, b = h.init(name, i), h.init(name, i + 1)
        h.assume(list_rule(a, b, lencontent), b - a <= L, b - a >= 0)
        if lens is not None:
            h.assume(b - a == lens[i])
        out.append((a, b, b - a))
    if n == 0:
        h.assume(h.init(name, 0) >= 0)
    return out


def py_slice_indices(start, stop, step_pos, length):
    """CPython PySlice_AdjustIndices (start/stop == KNONE mean None). step_pos: z3 Bool. -> (start', stop')"""
    def adj(v, dflt_pos, dflt_neg):
        w = z3.If(v < 0,
                  z3.If(v + length < 0, z3.If(step_pos, BV(0), BV(-1)), v + length),
                  z3.If(v >= length, z3.If(step_pos, length, length - 1), v))
        return z3.If(v == BV(KNONE), z3.If(step_pos, dflt_pos, dflt_neg), w)
    return adj(start, BV(0), length - 1), adj(stop, length, BV(-1))


def selected(start, stop, step, length, maxcount):
    """positions selected by slice(start, stop, step) on a list of `length` (<= maxcount elements selected):
    list of (is_selected Bool, position term) for p = 0..maxcount-1, plus the count term"""
    pos = step > 0
    st, sp = py_slice_indices(start, stop, pos, length)
    out = []
    cnt = BV(0)
    for p in range(maxcount):
        j = st + p * step
        inr = z3.If(pos, j < sp, j > sp)
        # positions are consecutive: once out of range, stays out of range
        out.append((inr, j))
        cnt = z3.If(inr, cnt + 1, cnt)
    return out, cnt


def wrap_index(at, length):
    """python integer index: -> (regular position, in-range Bool)"""
    r = z3.If(at < 0, at + length, at)
    return r, z3.And(r >= 0, r < length)
