"""Running the real kernels natively: ctypes on the freshly built library (fast, for translator validation)
and a generated ASan/UBSan C++ driver with exact-size heap buffers (for counterexample replay)."""
import ctypes, math, os, subprocess, json, struct
from . import build, kspec

CTY = {'int8_t': ctypes.c_int8, 'uint8_t': ctypes.c_uint8, 'int16_t': ctypes.c_int16, 'uint16_t': ctypes.c_uint16,
       'int32_t': ctypes.c_int32, 'uint32_t': ctypes.c_uint32, 'int64_t': ctypes.c_int64, 'uint64_t': ctypes.c_uint64,
       'bool': ctypes.c_bool, 'float': ctypes.c_float, 'double': ctypes.c_double}


class CError(ctypes.Structure):
    _fields_ = [('str', ctypes.c_char_p), ('filename', ctypes.c_char_p), ('identity', ctypes.c_int64),
                ('attempt', ctypes.c_int64), ('pass_through', ctypes.c_bool)]


_lib = None


def lib():
    global _lib
    if _lib is None:
        _lib = ctypes.CDLL(build.native_kernels())
    return _lib


def run_ctypes(spec, scalars, arrays):
    """scalars: name -> python value; arrays: name -> list of python values (buffer = exactly these)
    -> (error message or None, {array name: list after the call})"""
    fn = getattr(lib(), spec.name)
    fn.restype = CError
    args, bufs = [], {}
    for a in spec.args:
        ct = CTY[a.ctype]
        if a.depth == 0:
            args.append(ct(scalars[a.name]))
        elif a.depth == 1:
            vals = arrays[a.name]
            buf = (ct * max(1, len(vals)))(*vals)
            bufs[a.name] = (buf, len(vals))
            args.append(buf)
        else:
            inner = [(ct * max(1, len(v)))(*v) for v in arrays[a.name]]
            bufs[a.name] = (inner, None)
            arr = (ctypes.POINTER(ct) * max(1, len(inner)))(*[ctypes.cast(x, ctypes.POINTER(ct)) for x in inner])
            args.append(arr)
    err = fn(*args)
    outs = {}
    for a in spec.args:
        if a.depth == 1:
            buf, n = bufs[a.name]
            outs[a.name] = [bool(x) if a.ctype == 'bool' else x for x in buf[:n]]
        elif a.depth == 2:
            outs[a.name] = [list(x) for x in bufs[a.name][0]]
    return (err.str.decode('latin1') if err.str else None), outs


# ----------------------------------------------------------------------------------------------- ASan driver
def _lit(ctype, v):
    if ctype in ('float', 'double'):
        if v != v:
            return 'NAN'
        if v in (float('inf'), float('-inf')):
            return '-INFINITY' if v < 0 else 'INFINITY'
        s = repr(float(v))
        return s + ('f' if ctype == 'float' else '')
    if ctype == 'bool':
        return 'true' if v else 'false'
    if ctype == 'int64_t':
        return '(int64_t)(%dULL)' % (v & (2 ** 64 - 1))
    if ctype == 'uint64_t':
        return '%dULL' % (v & (2 ** 64 - 1))
    return '(%s)(%d)' % (ctype, v)


def driver_source(calls, bufs):
    """calls: [dict(cname, args=[('buf', name) | ('lit', ctype, value) | ('expr', c_expression) | ('ptrs', ctype, [names])])]
    bufs: ordered {name: dict(ctype, cap=int | c expression string, values=[...])}; a buffer is malloc'ed (exact size)
    just before the first call that uses it, so capacities may refer to outputs of earlier calls.
    Prints one JSON line per call: error fields and the contents of every buffer allocated so far."""
    out = ['#include <cstdio>', '#include <cstdlib>', '#include <cstring>', '#include <cmath>', '#include <cinttypes>',
           '#include "awkward/kernels.h"', '#include "awkward/kernel-utils.h"']
    out.append('template <typename T> void dump(const char* name, T* p, long n) { printf("\\"%s\\": [", name); '
               'for (long i = 0; i < n; i++) { double d = (double)p[i]; '
               'if (std::isnan(d)) printf("%s\\"nan\\"", i ? "," : ""); else if (std::isinf(d)) printf("%s\\"%sinf\\"", i ? "," : "", d < 0 ? "-" : ""); '
               'else if ((T)0.5 != (T)0) printf("%s%.17g", i ? "," : "", d); else printf("%s%lld", i ? "," : "", (long long)p[i]); } printf("]"); }')
    out.append('int main() {')
    declared = []

    def declare(name):
        if name in declared:
            return
        b = bufs[name]
        ct = b['ctype']
        cap = b['cap']
        capc = str(max(0, cap)) if isinstance(cap, int) else '(%s)' % cap
        out.append('  long cap_%s = %s; if (cap_%s < 0) cap_%s = 0; if (cap_%s > 100000) { printf("{\\"skip\\": \\"capacity\\"}\\n"); return 0; }' % (name, capc, name, name, name))
        out.append('  %s* %s = (%s*)malloc(cap_%s * sizeof(%s));' % (ct, name, ct, name, ct))
        vals = b.get('values', [])
        fill = b.get('fill', 0)
        out.append('  for (long i = 0; i < cap_%s; i++) %s[i] = %s;' % (name, name, _lit(ct, fill)))
        for i, v in enumerate(vals):
            out.append('  if (%d < cap_%s) %s[%d] = %s;' % (i, name, name, i, _lit(ct, v)))
        for i, v in sorted((b.get('sparse') or {}).items()):
            out.append('  if (%d < cap_%s) %s[%d] = %s;' % (int(i), name, name, int(i), _lit(ct, v)))
        declared.append(name)

    for ci, c in enumerate(calls):
        argv = []
        for a in c['args']:
            if a[0] == 'buf':
                declare(a[1]); argv.append(a[1])
            elif a[0] == 'lit':
                argv.append(_lit(a[1], a[2]))
            elif a[0] == 'expr':
                argv.append(a[1])
            elif a[0] == 'ptrs':
                for n in a[2]:
                    declare(n)
                pn = 'pp%d_%d' % (ci, len(argv))
                out.append('  %s** %s = (%s**)malloc(%d * sizeof(%s*));' % (a[1], pn, a[1], max(1, len(a[2])), a[1]))
                for j, n in enumerate(a[2]):
                    out.append('  %s[%d] = %s;' % (pn, j, n))
                argv.append(pn)
            else:
                raise ValueError(a)
        if c.get('void'):
            out.append('  { struct Error e = success(); %s(%s);' % (c['cname'], ', '.join(argv)))
        else:
            out.append('  { struct Error e = %s(%s);' % (c['cname'], ', '.join(argv)))
        out.append('    printf("{\\"call\\": %d, \\"err\\": %%s%%s%%s, \\"identity\\": %%lld, \\"attempt\\": %%lld", e.str ? "\\"" : "", e.str ? e.str : "null", e.str ? "\\"" : "", (long long)e.identity, (long long)e.attempt);' % ci)
        out.append('    fflush(stdout); }')
        out.append('  printf(", \\"bufs\\": {");')
        for k, bn in enumerate(declared):
            out.append('  %sdump("%s", %s, cap_%s);' % ('' if k == 0 else 'printf(", "); ', bn, bn, bn))
        out.append('  printf("}}\\n"); fflush(stdout);')
    out.append('  return 0; }')
    return '\n'.join(out)


def run_calls(calls, bufs, timeout=20):
    """-> dict(status=ok|sanitizer|timeout|crash, results=[per-call json], log=str)"""
    srcs = []
    for c in calls:
        rel = kspec.source_of(c['cname'])
        if rel not in srcs:
            srcs.append(rel)
    ku = 'src/cpu-kernels/kernel-utils.cpp'
    if ku not in srcs:
        srcs.append(ku)
    exe = build.compile_driver(driver_source(calls, bufs), srcs, sanitize=True)
    env = dict(os.environ, ASAN_OPTIONS='detect_leaks=0:abort_on_error=0:exitcode=86:allocator_may_return_null=1',
               UBSAN_OPTIONS='print_stacktrace=1:halt_on_error=1:exitcode=87')
    try:
        r = subprocess.run([exe], capture_output=True, text=True, timeout=timeout, env=env, errors='replace')
    except subprocess.TimeoutExpired:
        return dict(status='timeout', results=[], log='timeout after %ss' % timeout)
    results = []
    for ln in r.stdout.splitlines():
        try:
            results.append(json.loads(ln))
        except ValueError:
            pass
    if r.returncode == 0:
        status = 'ok'
    elif r.returncode in (86, 87) or 'Sanitizer' in r.stderr or 'runtime error' in r.stderr:
        status = 'sanitizer'
    else:
        status = 'crash'
    return dict(status=status, results=results, log=r.stderr[-3000:], returncode=r.returncode)


def run_driver(calls, timeout=20):
    """compatibility wrapper (C13): calls = [dict(spec, scalars, arrays={name: dict(cap, values)})]"""
    ncalls, bufs = [], {}
    for ci, c in enumerate(calls):
        args = []
        for a in c['spec'].args:
            if a.depth == 0:
                args.append(('lit', a.ctype, c['scalars'][a.name]))
            elif a.depth == 1:
                bn = 'c%d_%s' % (ci, a.name)
                info = c['arrays'][a.name]
                bufs[bn] = dict(ctype=a.ctype, cap=int(info['cap']), values=info.get('values', []), sparse=info.get('sparse'), fill=info.get('fill', 0))
                args.append(('buf', bn))
            else:
                raise ValueError('nested list argument')
        ncalls.append(dict(cname=c['spec'].name, args=args))
    return run_calls(ncalls, bufs, timeout)
