"""C19 (interpreter core): AwkwardForth input-buffer primitives and one instruction of ForthMachineOf<T,I>::internal_run from
an arbitrary well-formed machine state, against the documented word semantics (floored division and modulo, wrap-around at
the machine width, documented errors instead of faults).  Counterexamples are replayed through the real compiler and
interpreter (a native driver that compiles and runs the corresponding Forth program)."""
import os, re, subprocess, json
import z3
from . import build, runner
from .mharness import MCtx, mdischarge, module_of
from .oracle import guard, summarize
from .llbmc import Ptr, NULL, ptr_cases, bv64, Unsupported

ASSUMPTIONS = [
    'machine state well-formed: 0 <= stack_depth_ <= stack_max_depth_ = capacity(stack_buffer_) (max depth 4 in the harness), one bytecode '
    'segment holding the instruction under test, recursion depth 1, no active do-loop, current_error_ = none',
    'struct layout of ForthMachineOf taken from the IR type table, member order from include/awkward/forth/ForthMachine.h; bytecode '
    'numbers parsed from the CODE_* table in ForthMachine.cpp',
    'signed overflow in + - * negate 1+ 1- is modelled as wrap-around (the documented behaviour); nsw-based UB is not reported',
    'shift words are specified for 0 <= amount < width only (C++ UB otherwise; listed as advisory)',
    'program level (c19prog): the program text of each template is concrete and is compiled by the repository compiler run natively; the machine state after '
    'begin() is built from that bytecode; step() / resume() are the real methods (std::chrono::now stubbed to an arbitrary value), called in a harness loop until '
    'the program is done or an error is set; each case guard fixes trip counts (<= 3-4) and branch outcomes, all other cell / input byte values are symbolic; '
    'loop bounds within +-1000 so that the loop index does not wrap; bool reads assume 0/1 bytes',
    'outside: tokenizer/compiler/decompiler as such (exercised only on the concrete templates), float reads, nbit/varint/textual reads at program level, '
    'output writes at program level, recursion-limit faults',
]

FM = 'src/libawkward/forth/ForthMachine.cpp'
FIB = 'src/libawkward/forth/ForthInputBuffer.cpp'
FOB = 'src/libawkward/forth/ForthOutputBuffer.cpp'
MAXD = 4


def codes():
    txt = open(os.path.join(build.REPO, FM)).read()
    return {m.group(1): int(m.group(2)) for m in re.finditer(r'#define CODE_(\w+) (\d+)', txt)}


def errors():
    txt = open(os.path.join(build.REPO, 'include/awkward/util.h')).read()
    body = txt[txt.index('enum class ForthError'):]
    body = body[body.index('{') + 1:body.index('}')]
    names = [x.strip() for x in re.sub(r'//.*', '', body).split(',') if x.strip()]
    return {n: i for i, n in enumerate(names)}


def members():
    txt = open(os.path.join(build.REPO, 'include/awkward/forth/ForthMachine.h')).read()
    txt = txt[txt.rindex('private:'):]
    out = []
    for ln in txt.splitlines():
        ln = ln.strip()
        m = re.match(r'^[\w:<>,\s\*&]+?\s+\**(\w+_);$', ln)
        if m and '(' not in ln and not ln.startswith(('return', '//')):
            out.append(m.group(1))
    return out


def layout(T):
    mod = module_of(FM)
    want = 'i32*' if T == 32 else 'i64*'
    for nm, body in mod.types.named.items():
        if nm.startswith('%"class.awkward::ForthMachineOf'):
            offs, size, al, fields = mod.types.struct_layout(nm)
            if fields[3].strip() == want:
                names = members()
                if len(names) != len(fields):
                    raise Unsupported('ForthMachineOf: %d members in the header, %d fields in the IR type' % (len(names), len(fields)))
                return dict(zip(names, offs)), nm
    raise Unsupported('ForthMachineOf IR type not found')


WORDS = {  # name -> (CODE name, Forth spelling)
    'dup': 'DUP', 'drop': 'DROP', 'swap': 'SWAP', 'over': 'OVER', 'rot': 'ROT', 'nip': 'NIP', 'tuck': 'TUCK',
    '+': 'ADD', '-': 'SUB', '*': 'MUL', '/': 'DIV', 'mod': 'MOD', '/mod': 'DIVMOD', 'negate': 'NEGATE', '1+': 'ADD1', '1-': 'SUB1',
    'abs': 'ABS', 'min': 'MIN', 'max': 'MAX', '=': 'EQ', '<>': 'NE', '>': 'GT', '>=': 'GE', '<': 'LT', '<=': 'LE', '0=': 'EQ0',
    'invert': 'INVERT', 'and': 'AND', 'or': 'OR', 'xor': 'XOR', 'lshift': 'LSHIFT', 'rshift': 'RSHIFT', 'false': 'FALSE', 'true': 'TRUE',
}


def semantics(word, a, b, c, W):
    """documented stack effect: a = third from top, b = second, c = top (z3 BV W).  -> (needed depth, pops, pushes, div?)"""
    t = lambda cond: z3.If(cond, z3.BitVecVal(-1, W), z3.BitVecVal(0, W))
    zero = z3.BitVecVal(0, W)

    def floordiv(x, y):
        # floor(x / y) from the truncating quotient and remainder: one less when inexact and the signs of remainder and divisor differ
        q = x / y
        r = z3.SRem(x, y)
        return z3.If(z3.And(r != 0, (r < 0) != (y < 0)), q - 1, q)

    def floormod(x, y):
        r = z3.SRem(x, y)
        return z3.If(z3.And(r != 0, (r < 0) != (y < 0)), r + y, r)
    S = {
        'dup': (1, 0, [c]), 'drop': (1, 1, []), 'swap': (2, 2, [c, b]), 'over': (2, 0, [b]), 'rot': (3, 3, [b, c, a]),
        'nip': (2, 2, [c]), 'tuck': (2, 2, [c, b, c]),
        '+': (2, 2, [b + c]), '-': (2, 2, [b - c]), '*': (2, 2, [b * c]),
        '/': (2, 2, [floordiv(b, c)]), 'mod': (2, 2, [floormod(b, c)]), '/mod': (2, 2, [floormod(b, c), floordiv(b, c)]),
        'negate': (1, 1, [-c]), '1+': (1, 1, [c + 1]), '1-': (1, 1, [c - 1]), 'abs': (1, 1, [z3.If(c < 0, -c, c)]),
        'min': (2, 2, [z3.If(b < c, b, c)]), 'max': (2, 2, [z3.If(b > c, b, c)]),
        '=': (2, 2, [t(b == c)]), '<>': (2, 2, [t(b != c)]), '>': (2, 2, [t(b > c)]), '>=': (2, 2, [t(b >= c)]),
        '<': (2, 2, [t(b < c)]), '<=': (2, 2, [t(b <= c)]), '0=': (1, 1, [t(c == 0)]), 'invert': (1, 1, [~c]),
        'and': (2, 2, [b & c]), 'or': (2, 2, [b | c]), 'xor': (2, 2, [b ^ c]),
        'lshift': (2, 2, [b << c]), 'rshift': (2, 2, [b >> c]),
        'false': (0, 0, [zero]), 'true': (0, 0, [z3.BitVecVal(-1, W)]),
    }
    return S[word]


DRIVER = r'''
#include <cstdio>
#include <cstdlib>
#include <map>
#include <string>
#include <cinttypes>
#include "awkward/forth/ForthMachine.h"
using namespace awkward;
template <typename T> int go(const char* src, int64_t maxdepth) {
  ForthMachineOf<T, int32_t> vm(std::string(src), maxdepth, 16, 16, 1.5);
  std::map<std::string, std::shared_ptr<ForthInputBuffer>> inputs;
  util::ForthError err = vm.run(inputs);
  printf("{\"err\": %d, \"stack\": [", (int)err);
  bool first = true;
  for (auto x : vm.stack()) { printf("%s%lld", first ? "" : ", ", (long long)x); first = false; }
  printf("]}\n");
  return 0;
}
int main(int argc, char** argv) {
  if (atoi(argv[1]) == 32) return go<int32_t>(argv[2], atoll(argv[3]));
  return go<int64_t>(argv[2], atoll(argv[3]));
}
'''


def run_program(T, src, maxdepth=MAXD):
    exe = build.compile_objs_driver(DRIVER, [FM, FIB, FOB])
    env = dict(os.environ, ASAN_OPTIONS='detect_leaks=0:exitcode=86', UBSAN_OPTIONS='halt_on_error=1:exitcode=87:print_stacktrace=0')
    try:
        r = subprocess.run([exe, str(T), src, str(maxdepth)], capture_output=True, text=True, timeout=20, env=env, errors='replace')
    except subprocess.TimeoutExpired:
        return 'timeout', None, ''
    if r.returncode != 0:
        lines = [l for l in r.stderr.splitlines() if 'runtime error' in l or 'ERROR' in l or 'SUMMARY' in l]
        return 'crash(%d)' % r.returncode, None, ' | '.join(lines[:2]) or r.stderr[-200:]
    try:
        return 'ok', json.loads(r.stdout.strip().splitlines()[-1]), ''
    except ValueError:
        return 'garbled', None, r.stdout[-200:]


@guard
def h_step(word, T):
    C, E = codes(), errors()
    off, tyname = layout(T)
    m = MCtx([FM, FIB, FOB], unwind=6, max_instrs=200000)
    depth = m.bv('depth')
    m.assume(depth >= 0, depth <= MAXD)
    stack = m.array('stack', ('i', T), MAXD)
    bc = m.array('bytecodes', ('i', 32), 1, arr=z3.Store(z3.K(z3.BitVecSort(64), z3.BitVecVal(0, 32)), z3.BitVecVal(0, 64), z3.BitVecVal(C[WORDS[word]], 32)), const=True)
    offs = m.array('bcoffsets', ('i', 64), 2, arr=z3.Store(z3.K(z3.BitVecSort(64), z3.BitVecVal(0, 64)), z3.BitVecVal(1, 64), z3.BitVecVal(1, 64)), const=True)
    which = m.array('which', ('i', 64), 2, arr=z3.K(z3.BitVecSort(64), z3.BitVecVal(0, 64)))
    where = m.array('where', ('i', 64), 2, arr=z3.K(z3.BitVecSort(64), z3.BitVecVal(0, 64)))
    i64 = lambda v: (z3.BitVecVal(v, 64), 8)
    cells = {
        off['stack_buffer_']: (stack, 8), off['stack_depth_']: (depth, 8), off['stack_max_depth_']: i64(MAXD),
        off['bytecodes_offsets_']: (offs, 8), off['bytecodes_offsets_'] + 8: (Ptr('bcoffsets', z3.BitVecVal(2, 64)), 8),
        off['bytecodes_']: (bc, 8), off['bytecodes_'] + 8: (Ptr('bytecodes', z3.BitVecVal(1, 64)), 8),
        off['is_ready_']: (z3.BitVecVal(1, 8), 1), off['current_which_']: (which, 8), off['current_where_']: (where, 8),
        off['recursion_current_depth_']: i64(1), off['recursion_max_depth_']: i64(2), off['do_current_depth_']: i64(0),
        off['current_error_']: (z3.BitVecVal(0, 32), 4), off['count_instructions_']: i64(0), off['count_reads_']: i64(0),
        off['count_writes_']: i64(0), off['count_nanoseconds_']: i64(0),
    }
    this = m.record('vm', cells)
    fname = '_ZN7awkward14ForthMachineOfI%siE12internal_runEbl' % ('i' if T == 32 else 'l')
    m.call(fname, [this, z3.BitVecVal(1, 1), z3.BitVecVal(0, 64)])
    err = m.cell('vm', off['current_error_'])
    d1 = m.cell('vm', off['stack_depth_'])
    st0 = z3.Array('stack', z3.BitVecSort(64), z3.BitVecSort(T))
    st1 = m.mem.o['stack'].arr
    at0 = lambda k: z3.Select(st0, k)
    a, b, c = at0(depth - 3), at0(depth - 2), at0(depth - 1)
    need, pops, pushes = semantics(word, a, b, c, T)
    under = depth < need
    newdepth = depth - pops + len(pushes)
    over = z3.And(z3.Not(under), newdepth > MAXD)
    divz = z3.And(z3.Not(under), c == 0) if word in ('/', 'mod', '/mod') else z3.BoolVal(False)
    okc = z3.And(z3.Not(under), z3.Not(over), z3.Not(divz))
    if word in ('lshift', 'rshift'):
        okv = z3.And(okc, c >= 0, c < T)
    else:
        okv = okc
    obls = [('stack underflow reported exactly when the stack is too shallow', (err == E['stack_underflow']) != under),
            ('stack overflow reported exactly when the result does not fit', (err == E['stack_overflow']) != over),
            ('division by zero reported exactly for a zero divisor', (err == E['division_by_zero']) != divz),
            ('no other error', z3.And(okc, err != E['none'])),
            ('stack depth after the word', z3.And(okc, d1 != newdepth))]
    for k, v in enumerate(pushes):
        obls.append(('result cell %d of "%s" has the documented value' % (k, word), z3.And(okv, z3.Select(st1, depth - pops + k) != v)))
    j = z3.BitVec('j', 64)
    obls.append(('cells below the consumed operands are untouched', z3.And(okc, j >= 0, j < depth - pops, z3.Select(st1, j) != z3.Select(st0, j))))
    obls.append(('stack underflow/overflow leave the stack depth unchanged', z3.And(z3.Or(under, over), d1 != depth)))
    e32 = lambda n: z3.BitVecVal(E[n], 32)
    expected = dict(err=z3.If(under, e32('stack_underflow'), z3.If(over, e32('stack_overflow'), z3.If(divz, e32('division_by_zero'), e32('none')))),
                    depth=newdepth, pushes=pushes)

    def replay(model, ent):
        ev = lambda e: model.eval(e, model_completion=True)
        d = ev(depth).as_long()
        vals = [ev(z3.Select(st0, z3.BitVecVal(k, 64))).as_signed_long() for k in range(d)]
        big = any(not (-2 ** 31 <= v < 2 ** 31) for v in vals)
        maxd = MAXD
        if big:
            # literals are stored in 32-bit bytecode cells: wider cells are built arithmetically (needs 3 spare stack slots)
            if z3.is_true(ev(over)):
                return False, 'counterexample needs 64-bit cells and a full stack: not expressible as a Forth program', dict(cells=vals)
            maxd = MAXD + 3

            def push(v):
                if -2 ** 31 <= v < 2 ** 31:
                    return str(v)
                hi, mid, lo = v >> 32, (v >> 16) & 0xFFFF, v & 0xFFFF
                return '%d 65536 * 65536 * %d 65536 * + %d +' % (hi, mid, lo)
            src = ' '.join(push(v) for v in vals) + ' ' + word
        else:
            src = ' '.join(str(v) for v in vals) + ' ' + word
        status, out, log = run_program(T, src, maxd)
        exp_err = ev(expected['err']).as_long()
        payload = dict(program=src, machine_bits=T, native=out, status=status, log=log)
        if status != 'ok':
            return True, 'native interpreter %s on program "%s": %s' % (status, src, log), payload
        if out['err'] != exp_err:
            return True, 'program "%s": error code %d, documented %d' % (src, out['err'], exp_err), payload
        if exp_err == E['none']:
            nd = ev(expected['depth']).as_signed_long()
            want = vals[:d - pops] + [ev(v).as_signed_long() for v in pushes]
            inrange = True
            if word in ('lshift', 'rshift') and d >= 1 and not (0 <= vals[-1] < T):
                inrange = False
            if inrange and out['stack'] != want:
                return True, 'program "%s": stack %s, documented %s' % (src, out['stack'], want), payload
        return False, 'native interpreter agrees with the documented semantics on "%s"' % src, payload
    # shift amounts outside [0, width) are undefined behaviour in C++ without an observable fault on the supported targets: advisory only
    m.eng.obl = [o for o in m.eng.obl if o.kind != 'shift']
    res = mdischarge(m, 'ForthMachine%d one step: %s' % (T, word), obls,
                     [('word executes', okc), ('underflow reachable', under)] if need else [('word executes', okc)],
                     timeout_ms=60000, replay=replay, extra=dict(bounds='stack depth 0..%d, all %d-bit cell values' % (MAXD, T)))
    # shift-amount and nsw obligations are UB-only advisories for the shift words (specified for 0 <= amount < width)
    return res


@guard
def h_inputbuffer(method):
    """ForthInputBuffer::read/seek/skip from any state 0 <= pos_ <= length_, any 64-bit argument"""
    E = errors()
    m = MCtx([FIB], unwind=4)
    offset, length, pos, arg = m.bv('offset'), m.bv('length'), m.bv('pos'), m.bv('arg')
    m.assume(offset >= 0, offset <= 2 ** 40, length >= 0, length <= 2 ** 40, pos >= 0, pos <= length)
    buf = m.array('inbuf', ('i', 8), offset + length, const=True)
    this = m.record('ib', {0: (buf, 8), 8: (NULL, 8), 16: (offset, 8), 24: (length, 8), 32: (pos, 8)})
    m.record('err', {0: (z3.BitVecVal(0, 32), 4)})
    fn = {'read': '_ZN7awkward16ForthInputBuffer4readElRNS_4util10ForthErrorE', 'seek': '_ZN7awkward16ForthInputBuffer4seekElRNS_4util10ForthErrorE',
          'skip': '_ZN7awkward16ForthInputBuffer4skipElRNS_4util10ForthErrorE'}[method]
    out = m.call(fn, [this, arg, Ptr('err', 0)])
    err = m.cell('err', 0)
    pos1 = m.cell('ib', 32)
    obls = [('position stays inside [0, length]', z3.Or(pos1 < 0, pos1 > length)),
            ('an error leaves the position unchanged', z3.And(err != 0, pos1 != pos))]
    if method == 'read':
        ret = out.ret
        okr = err == 0
        cases = ptr_cases(ret)
        bad = []
        for g, p in cases:
            if p.obj is None:
                bad.append(z3.And(g, okr))
            else:
                o = bv64(p.off)
                bad.append(z3.And(g, okr, z3.Or(p.obj != 'inbuf', o != offset + pos)))
        obls.append(('on success the returned pointer is ptr + offset + old position', z3.Or(bad)))
        obls.append(('on success the bytes [pos, pos + n) lie inside the buffer', z3.And(okr, z3.Or(arg < 0, pos + arg > length))))
        obls.append(('on success the position advances by n', z3.And(okr, pos1 != pos + arg)))
        obls.append(('error exactly when the read would pass the end (or n is negative)', (err != 0) != z3.Or(arg < 0, arg > length - pos)))
        obls.append(('the error is read_beyond', z3.And(err != 0, err != E['read_beyond'])))
    elif method == 'seek':
        obls.append(('error exactly when the target is outside [0, length]', (err != 0) != z3.Or(arg < 0, arg > length)))
        obls.append(('on success the position is the target', z3.And(err == 0, pos1 != arg)))
    else:
        tgt_bad = z3.Or(arg < -pos, arg > length - pos)
        obls.append(('error exactly when the target is outside [0, length]', (err != 0) != tgt_bad))
        obls.append(('on success the position moves by n', z3.And(err == 0, pos1 != pos + arg)))

    def replay(model, ent):
        ev = lambda e: model.eval(e, model_completion=True).as_signed_long()
        vals = dict(length=min(ev(length), 64), pos=ev(pos), arg=ev(arg), method=method)
        if ev(length) > 64:
            vals['pos'] = min(vals['pos'], 64)
        drv = r'''
#include <cstdio>
#include <cstdlib>
#include <cstring>
#include <memory>
#include "awkward/forth/ForthInputBuffer.h"
using namespace awkward;
int main(int argc, char** argv) {
  int64_t length = atoll(argv[1]), pos = atoll(argv[2]), arg = atoll(argv[3]); const char* m = argv[4];
  std::shared_ptr<void> p(malloc(length ? length : 1), free);
  ForthInputBuffer b(p, 0, length);
  util::ForthError e = util::ForthError::none;
  b.seek(pos, e);
  e = util::ForthError::none;
  void* r = nullptr;
  if (!strcmp(m, "read")) r = b.read(arg, e); else if (!strcmp(m, "seek")) b.seek(arg, e); else b.skip(arg, e);
  int bad = 0;
  if (b.pos() < 0 || b.pos() > length) bad |= 1;
  if (e != util::ForthError::none && b.pos() != pos) bad |= 2;
  if (!strcmp(m, "read") && e == util::ForthError::none && (arg < 0 || pos + arg > length)) bad |= 4;
  printf("bad=%d err=%d pos=%lld\n", bad, (int)e, (long long)b.pos());
  return bad ? 1 : 0;
}
'''
        exe = build.compile_driver(drv, [FIB], sanitize=True)
        r = subprocess.run([exe, str(vals['length']), str(vals['pos']), str(vals['arg']), method], capture_output=True, text=True, timeout=20,
                           env=dict(os.environ, ASAN_OPTIONS='detect_leaks=0', UBSAN_OPTIONS='halt_on_error=1:exitcode=87'), errors='replace')
        if r.returncode != 0:
            return True, 'ForthInputBuffer::%s(%d) from pos=%d, length=%d: %s %s' % (method, vals['arg'], vals['pos'], vals['length'], r.stdout.strip(),
                                                                                   ' | '.join(l for l in r.stderr.splitlines() if 'runtime error' in l)[:200]), vals
        # exact documented outcome, evaluated independently on the replayed values
        L, P0, A = vals['length'], vals['pos'], vals['arg']
        if method == 'read':
            fail, newpos = (A < 0 or A > L - P0), P0 + A
        elif method == 'seek':
            fail, newpos = (A < 0 or A > L), A
        else:
            fail, newpos = (P0 + A < 0 or P0 + A > L), P0 + A
        mm = re.search(r'err=(-?\d+) pos=(-?\d+)', r.stdout)
        gerr, gpos = int(mm.group(1)), int(mm.group(2))
        if fail != (gerr != 0) or (not fail and gpos != newpos) or (fail and gpos != P0):
            return True, 'ForthInputBuffer::%s(%d) from pos=%d, length=%d: native run gives %s; documented: %s' % (
                method, A, P0, L, r.stdout.strip(), 'error, position unchanged' if fail else 'no error, position %d' % newpos), vals
        return False, 'native run agrees with the documented outcome: ' + r.stdout.strip(), vals
    return mdischarge(m, 'ForthInputBuffer::%s' % method, obls, [('success reachable', err == 0), ('error reachable', err != 0)],
                      timeout_ms=60000, replay=replay, prefer=[length <= 64, arg >= -200, arg <= 200], extra=dict(bounds='all int64 arguments, length <= 2^40'))


def jobs(tier):
    js = [(h_inputbuffer, (mth,), 600) for mth in ('read', 'seek', 'skip')]
    js += [(h_outbuf_write, (t, 2), 600) for t in WRITE_TYPES]
    js += [(h_outbuf_add, (o, w), 900) for o in (('int64', 'float64', 'float32', 'uint8') if tier == 'quick' else sorted(ADD_OUT)) for w in (32, 64)]
    js.append((h_outbuf_rewind, (), 900))
    # h_outbuf_write_one is not scheduled: the FP growth loop of maybe_resize costs ~15 min of branch-feasibility queries and stays inconclusive
    for T in (32, 64):
        for w in WORDS:
            js.append((h_step, (w, T), 900))
    from . import c19prog
    js += c19prog.jobs(tier)
    return js


def main(report, tier):
    return summarize(report, runner.run_tasks(jobs(tier)), 'C19')


# ------------------------------------------------------------------------------------------------ output buffer
def _stub_new_sized(eng, fr, ins, st, name, argv):
    """operator new / new[]: small constant sizes are control blocks (record objects); anything else is a buffer of int64 cells"""
    n = z3.simplify(argv[0])
    if z3.is_bv_value(n) and n.as_long() <= 64:
        return eng.new_record(st.mem, eng.fresh_name('ctrl'), n.as_long(), tag='heap')
    nm = eng.fresh_name('heap')
    eng.allocs.append((nm, n, st.pc))
    return eng.new_array(st.mem, nm, ('i', 64), z3.simplify(z3.UDiv(n, z3.BitVecVal(8, 64))), tag='heap')


@guard
def h_outbuf_write_one(min_reserved=1):
    """ForthOutputBufferOf<int64_t>::write_one_int64 from an arbitrary state 0 <= length_ <= reserved_ = capacity: the value lands at
    the old length, earlier cells are preserved across a reallocation, length_ <= reserved_ afterwards, the growth loop terminates"""
    from .mharness import stub_noop
    m = MCtx([FOB], unwind=6, stubs={'_Znam': _stub_new_sized, '_Znwm': _stub_new_sized, 'awkward_free': stub_noop,
                                     '__clang_call_terminate': stub_noop})
    length, reserved, value = m.bv('length'), m.bv('reserved'), m.bv('value')
    resize = m.fp('resize')
    m.assume(length >= 0, length <= reserved, reserved >= min_reserved, reserved <= 2 ** 40,
             z3.fpGEQ(resize, z3.FPVal(1.5, z3.Float64())), z3.fpLEQ(resize, z3.FPVal(16.0, z3.Float64())))
    buf = m.array('obuf', ('i', 64), reserved)
    m.mem.o['G@__libc_single_threaded'] = __import__('vf.llbmc', fromlist=['RecObj']).RecObj({0: (z3.BitVecVal(1, 8), 1)}, 1, True, 'global')
    this = m.record('ob', {0: (NULL, 8), 8: (length, 8), 16: (reserved, 8), 24: (resize, 8), 32: (buf, 8), 40: (NULL, 8)})
    m.call('_ZN7awkward19ForthOutputBufferOfIlE15write_one_int64Elb', [this, value, z3.BitVecVal(0, 1)])
    L1, R1 = m.cell('ob', 8), m.cell('ob', 16)
    newptr = m.cell('ob', 32)
    old0 = z3.Array('obuf', z3.BitVecSort(64), z3.BitVecSort(64))
    j = z3.BitVec('j', 64)
    pres, stored, capok = [], [], []
    for g, p in ptr_cases(newptr):
        if p.obj is None:
            capok.append(g); continue
        o = m.mem.o[p.obj]
        pres.append(z3.And(g, j >= 0, j < length, z3.Select(o.arr, bv64(p.off) + j) != z3.Select(old0, j)))
        stored.append(z3.And(g, z3.Select(o.arr, bv64(p.off) + length) != value))
        capok.append(z3.And(g, o.cap != R1))
    obls = [('length_ grows by one', L1 != length + 1), ('length_ <= reserved_ afterwards', L1 > R1),
            ('earlier output cells are preserved', z3.Or(pres + [z3.BoolVal(False)])),
            ('the value is written at the old length', z3.Or(stored + [z3.BoolVal(False)])),
            ('reserved_ is the capacity of the current buffer', z3.Or(capok + [z3.BoolVal(False)]))]

    def replay(model, ent):
        from .kharness import fp_to_py
        ev = lambda e: model.eval(e, model_completion=True)
        vals = dict(length=ev(length).as_signed_long(), reserved=ev(reserved).as_signed_long(), resize=fp_to_py(ev(resize)), value=ev(value).as_signed_long())
        if vals['reserved'] > 10 ** 6:
            return False, 'model too large to replay', vals
        drv = r"""
#include <cstdio>
#include <cstdlib>
#include "awkward/forth/ForthOutputBuffer.h"
using namespace awkward;
int main(int argc, char** argv) {
  int64_t length = atoll(argv[1]), reserved = atoll(argv[2]); double resize = atof(argv[3]); int64_t value = atoll(argv[4]);
  ForthOutputBufferOf<int64_t> b(reserved, resize);
  for (int64_t i = 0; i < length; i++) b.write_one_int64(1000 + i, false);
  b.write_one_int64(value, false);
  int bad = 0;
  if (b.len() != length + 1) bad |= 1;
  int64_t* p = reinterpret_cast<int64_t*>(b.ptr().get());
  for (int64_t i = 0; i < length; i++) if (p[i] != 1000 + i) bad |= 2;
  if (p[length] != value) bad |= 4;
  printf("bad=%d len=%lld\n", bad, (long long)b.len());
  return bad ? 1 : 0;
}
"""
        exe = build.compile_objs_driver(drv, [FOB])
        try:
            r = subprocess.run([exe, str(vals['length']), str(vals['reserved']), repr(vals['resize']), str(vals['value'])], capture_output=True, text=True,
                               timeout=20, env=dict(os.environ, ASAN_OPTIONS='detect_leaks=0', UBSAN_OPTIONS='halt_on_error=1:exitcode=87'), errors='replace')
        except subprocess.TimeoutExpired:
            return True, 'native ForthOutputBufferOf<int64_t>(initial=%d, resize=%r): write does not return within 20 s (growth loop never ends)' % (vals['reserved'], vals['resize']), vals
        if r.returncode != 0:
            return True, 'native run fails: %s %s' % (r.stdout.strip(), [l for l in r.stderr.splitlines() if 'ERROR' in l or 'runtime error' in l][:1]), vals
        return False, 'native run satisfies the postconditions: ' + r.stdout.strip(), vals
    tw = [('reallocation path', length == reserved)]
    return mdischarge(m, 'ForthOutputBufferOf<int64_t>::write_one_int64%s' % (' reserved_=0 twin' if min_reserved == 0 else ''), obls, tw,
                      timeout_ms=120000, replay=replay, extra=dict(bounds='reserved_ in [%d, 2^40], resize in [1.5, 16]' % min_reserved))


WRITE_TYPES = {'int16': ('s', 16, True), 'uint16': ('t', 16, False), 'int32': ('i', 32, True), 'uint32': ('j', 32, False),
               'int64': ('l', 64, True), 'uint64': ('m', 64, False)}


@guard
def h_outbuf_write(typ, n):
    """typed output write of n items (ForthOutputBufferOf<int64_t>::write_<typ>) when the buffer has room: each item lands, converted to
    the output type and byte-swapped iff requested, at old length + i; the *input* items are unchanged afterwards; length grows by n"""
    from .mharness import stub_noop
    code, bits, signed = WRITE_TYPES[typ]
    m = MCtx([FOB], unwind=n + 4, stubs={'awkward_free': stub_noop})
    length, bswap = m.bv('length'), m.bv('byteswap', 1)
    m.assume(length >= 0, length <= 2 ** 40)
    reserved = length + n + 2
    buf = m.array('obuf', ('i', 64), reserved)
    vals = m.array('values', ('i', bits), n)
    this = m.record('ob', {0: (NULL, 8), 8: (length, 8), 16: (reserved, 8), 24: (z3.FPVal(1.5, z3.Float64()), 8), 32: (buf, 8), 40: (NULL, 8)})
    fn = '_ZN7awkward19ForthOutputBufferOfIlE%d%sElP%sb' % (len('write_' + typ), 'write_' + typ, code)
    m.call(fn, [this, z3.BitVecVal(n, 64), vals, bswap])
    L1 = m.cell('ob', 8)
    v0 = z3.Array('values', z3.BitVecSort(64), z3.BitVecSort(bits))
    v1 = m.mem.o['values'].arr
    out1 = m.mem.o['obuf'].arr

    def swap(x):
        nb = bits // 8
        return z3.Concat(*[z3.Extract(8 * i + 7, 8 * i, x) for i in range(nb)])
    obls = [('length grows by the number of items', L1 != length + n)]
    for i in range(n):
        x = z3.Select(v0, z3.BitVecVal(i, 64))
        y = z3.If(bswap == 1, swap(x), x)
        wide = y if bits == 64 else (z3.SignExt(64 - bits, y) if signed else z3.ZeroExt(64 - bits, y))
        obls.append(('item %d is written (byte-swapped iff requested) at old length + %d' % (i, i), z3.Select(out1, length + i) != wide))
        obls.append(('input item %d is unchanged after the write' % i, z3.Select(v1, z3.BitVecVal(i, 64)) != x))

    def replay(model, ent):
        ev = lambda e: model.eval(e, model_completion=True)
        items = [ev(z3.Select(v0, z3.BitVecVal(i, 64))).as_long() for i in range(n)]
        bs = ev(bswap).as_long()
        L = min(ev(length).as_signed_long(), 8)
        ct = ('' if signed else 'u') + 'int%d_t' % bits
        drv = r"""
#include <cstdio>
#include <cstdlib>
#include <cstring>
#include "awkward/forth/ForthOutputBuffer.h"
using namespace awkward;
int main(int argc, char** argv) {
  int n = atoi(argv[1]); bool bs = atoi(argv[2]); int L = atoi(argv[3]);
  %s in[16], orig[16];
  for (int i = 0; i < n; i++) { unsigned long long raw = strtoull(argv[4 + i], nullptr, 10); in[i] = (%s)raw; orig[i] = in[i]; }
  ForthOutputBufferOf<int64_t> b(L + n + 2, 1.5);
  for (int i = 0; i < L; i++) b.write_one_int64(7, false);
  b.write_%s(n, in, bs);
  int bad = 0;
  if (b.len() != L + n) bad |= 1;
  int64_t* p = reinterpret_cast<int64_t*>(b.ptr().get());
  for (int i = 0; i < n; i++) {
    %s x = orig[i];
    if (bs) { unsigned char* c = (unsigned char*)&x; for (size_t k = 0; k < sizeof(x) / 2; k++) { unsigned char t = c[k]; c[k] = c[sizeof(x) - 1 - k]; c[sizeof(x) - 1 - k] = t; } }
    if (p[L + i] != (int64_t)x) bad |= 2;
    if (in[i] != orig[i]) bad |= 4;
  }
  printf("bad=%%d\n", bad);
  return bad ? 1 : 0;
}
""" % (ct, ct, typ, ct)
        exe = build.compile_objs_driver(drv, [FOB])
        r = subprocess.run([exe, str(n), str(bs), str(L)] + [str(v) for v in items], capture_output=True, text=True, timeout=20,
                           env=dict(os.environ, ASAN_OPTIONS='detect_leaks=0', UBSAN_OPTIONS='halt_on_error=1:exitcode=87'), errors='replace')
        payload = dict(items=items, byteswap=bs, length=L, type=typ)
        if r.returncode != 0:
            return True, 'native write_%s of %s (byteswap=%d): %s (2 = wrong output, 4 = input modified) %s' % (
                typ, items, bs, r.stdout.strip(), [l for l in r.stderr.splitlines() if 'runtime error' in l or 'ERROR' in l][:1]), payload
        return False, 'native run satisfies the postconditions', payload
    return mdischarge(m, 'ForthOutputBufferOf<int64_t>::write_%s n=%d' % (typ, n), obls, [('byteswap requested', bswap == 1)], timeout_ms=60000, replay=replay,
                      extra=dict(bounds='n=%d items, all values, buffer with room (no growth)' % n))


ADD_OUT = {'int64': ('l', ('i', 64), 'int64_t'), 'int32': ('i', ('i', 32), 'int32_t'), 'uint8': ('h', ('i', 8), 'uint8_t'), 'uint64': ('m', ('i', 64), 'uint64_t'),
           'float64': ('d', ('f', 64), 'double'), 'float32': ('f', ('f', 32), 'float')}


@guard
def h_outbuf_add(out, width):
    """ForthOutputBufferOf<OUT>::write_add_int32 / write_add_int64 (the `out +<- stack` word) from an arbitrary buffer state with room: the new
    item is the previous last item (0 for an empty buffer) plus the value, the sum taken in the output type - exactly, so a fractional
    previous item of a floating-point output keeps its fraction - earlier items are unchanged, length grows by one"""
    from .mharness import stub_noop
    code, kind, ct = ADD_OUT[out]
    m = MCtx([FOB], unwind=6, stubs={'awkward_free': stub_noop})
    length = m.bv('length')
    value = m.bv('value', width)
    m.assume(length >= 0, length <= 2 ** 40)
    reserved = length + 3
    buf = m.array('obuf', kind, reserved)
    this = m.record('ob', {0: (NULL, 8), 8: (length, 8), 16: (reserved, 8), 24: (z3.FPVal(1.5, z3.Float64()), 8), 32: (buf, 8), 40: (NULL, 8)})
    fn = '_ZN7awkward19ForthOutputBufferOfI%sE15write_add_int%dE%s' % (code, width, 'i' if width == 32 else 'l')
    old = m.mem.o['obuf'].arr
    m.call(fn, [this, value])
    new = m.mem.o['obuf'].arr
    L1 = m.cell('ob', 8)
    prev_at = z3.Select(old, length - 1)
    if kind[0] == 'i':
        bits = kind[1]
        v = value if bits == width else (z3.Extract(bits - 1, 0, value) if bits < width else z3.SignExt(bits - width, value))
        prev = z3.If(length == 0, z3.BitVecVal(0, bits), prev_at)
        want = prev + v
        wrong = z3.Select(new, length) != want
    else:
        srt = z3.Float64() if kind[1] == 64 else z3.Float32()
        prev = z3.If(length == 0, z3.FPVal(0.0, srt), prev_at)
        want = z3.fpAdd(z3.RNE(), prev, z3.fpSignedToFP(z3.RNE(), value, srt))
        got = z3.Select(new, length)
        wrong = z3.Not(z3.Or(z3.fpToIEEEBV(got) == z3.fpToIEEEBV(want), z3.And(z3.fpIsNaN(got), z3.fpIsNaN(want))))
    j = z3.BitVec('j', 64)
    obls = [('length grows by one', L1 != length + 1),
            ('the new item is the previous item plus the value, summed in the output type', wrong),
            ('earlier items are unchanged', z3.And(j >= 0, j < length, z3.Select(new, j) != z3.Select(old, j)) if kind[0] == 'i' else
             z3.And(j >= 0, j < length, z3.fpToIEEEBV(z3.Select(new, j)) != z3.fpToIEEEBV(z3.Select(old, j)), z3.Not(z3.fpIsNaN(z3.Select(old, j)))))]

    def replay(model, ent):
        ev = lambda e: model.eval(e, model_completion=True)
        L = ev(length).as_signed_long()
        val = ev(value).as_signed_long()
        if kind[0] == 'i':
            pbits = ev(prev_at).as_long() if L > 0 else 0
        else:
            pbits = ev(z3.fpToIEEEBV(prev_at)).as_long() if L > 0 else 0
        Lr = min(L, 3)
        nb = kind[1] // 8
        drv = r"""
#include <cstdio>
#include <cstdlib>
#include <cstring>
#include <cmath>
#include "awkward/forth/ForthOutputBuffer.h"
using namespace awkward;
typedef %(ct)s OUT;
int main(int argc, char** argv) {
  int L = atoi(argv[1]); unsigned long long pbits = strtoull(argv[2], nullptr, 10); long long val = atoll(argv[3]);
  OUT prev = 0; memcpy(&prev, &pbits, sizeof(OUT));
  ForthOutputBufferOf<OUT> b(L + 3, 1.5);
  // the buffer is filled through its own typed writers, so the previous item has exactly the requested bit pattern
  for (int i = 0; i < L; i++) { OUT x = (i == L - 1) ? prev : (OUT)7; b.write_one_%(one)s(x, false); }
  b.write_add_int%(w)d((int%(w)d_t)val);
  OUT* p = reinterpret_cast<OUT*>(b.ptr().get());
  OUT base = (L == 0) ? (OUT)0 : prev;
  volatile OUT want = base + (OUT)(int%(w)d_t)val;
  OUT w2 = want;
  int bad = 0;
  if (b.len() != L + 1) bad |= 1;
  if (memcmp(&p[L], &w2, sizeof(OUT)) != 0 && !(p[L] != p[L] && w2 != w2)) bad |= 2;
  for (int i = 0; i + 1 < L; i++) if (p[i] != (OUT)7) bad |= 4;
  printf("bad=%%d got=%%.17g want=%%.17g\n", bad, (double)p[L], (double)w2);
  return bad ? 1 : 0;
}
""" % dict(ct=ct, w=width, one={'int64': 'int64', 'int32': 'int32', 'uint8': 'uint8', 'uint64': 'uint64', 'float64': 'float64', 'float32': 'float32'}[out])
        exe = build.compile_objs_driver(drv, [FOB])
        r = subprocess.run([exe, str(Lr), str(pbits), str(val)], capture_output=True, text=True, timeout=20,
                           env=dict(os.environ, ASAN_OPTIONS='detect_leaks=0', UBSAN_OPTIONS='halt_on_error=1:exitcode=87'), errors='replace')
        payload = dict(out=out, width=width, length=Lr, previous_bits=pbits, value=val, native=r.stdout.strip())
        if r.returncode != 0:
            return True, 'native ForthOutputBufferOf<%s>::write_add_int%d(%d) after an item with bits %#x: %s (2 = wrong sum) %s' % (
                ct, width, val, pbits, r.stdout.strip(), [l for l in r.stderr.splitlines() if 'runtime error' in l or 'ERROR' in l][:1]), payload
        return False, 'native run satisfies the postconditions: ' + r.stdout.strip(), payload
    tw = [('non-empty buffer', length > 0)]
    if kind[0] == 'f':
        srt = z3.Float64() if kind[1] == 64 else z3.Float32()
        tw.append(('fractional previous item', z3.And(length > 0, prev_at == z3.FPVal(2.5, srt))))
    return mdischarge(m, 'ForthOutputBufferOf<%s>::write_add_int%d' % (ct, width), obls, tw, timeout_ms=120000, replay=replay,
                      extra=dict(bounds='any previous item (any bit pattern), any value, 0 <= length_ <= 2^40, buffer with room (no growth)'))


@guard
def h_outbuf_rewind():
    """ForthOutputBuffer::rewind(n) (the `n out rewind` word) from any buffer state: n items are dropped from the end - never more than there
    are, and never a negative number (which would *extend* the output over memory that was never written): otherwise `rewind beyond`"""
    from .mharness import stub_noop
    m = MCtx([FOB], unwind=6, stubs={'awkward_free': stub_noop})
    length, n = m.bv('length'), m.bv('num_items')
    m.assume(length >= 0, length <= 2 ** 40)
    buf = m.array('obuf', ('i', 64), length + 1)
    this = m.record('ob', {0: (NULL, 8), 8: (length, 8), 16: (length + 1, 8), 24: (z3.FPVal(1.5, z3.Float64()), 8), 32: (buf, 8), 40: (NULL, 8)})
    m.record('err', {0: (z3.BitVecVal(0, 32), 4)})
    m.call('_ZN7awkward17ForthOutputBuffer6rewindElRNS_4util10ForthErrorE', [this, n, Ptr('err', 0)])
    L1, e1 = m.cell('ob', 8), m.cell('err', 0)
    ok = z3.And(n >= 0, n <= length)
    REWIND_BEYOND = 10
    obls = [('a count the buffer holds is dropped from the end', z3.And(ok, z3.Or(L1 != length - n, e1 != 0))),
            ('any other count is refused (rewind beyond) and nothing changes', z3.And(z3.Not(ok), z3.Or(e1 != REWIND_BEYOND, L1 != length))),
            ('the output never grows by rewinding', L1 > length)]

    def replay(model, ent):
        import subprocess, os
        ev = lambda e: model.eval(e, model_completion=True).as_signed_long()
        L, k = min(ev(length), 3), ev(n)
        if abs(k) > 1000:
            k = -3 if k < 0 else 1000
        drv = r"""
#include <cstdio>
#include <cstdlib>
#include "awkward/forth/ForthOutputBuffer.h"
#include "awkward/util.h"
using namespace awkward;
int main(int argc, char** argv) {
  long L = atol(argv[1]), k = atol(argv[2]);
  ForthOutputBufferOf<int64_t> out(8, 1.5);
  util::ForthError err = util::ForthError::none;
  for (long i = 0; i < L; i++) out.write_one_int64(100 + i, false);
  out.rewind(k, err);
  printf("len=%ld err=%d\n", (long)out.len(), (int)err);
  bool ok = (k >= 0 && k <= L) ? (err == util::ForthError::none && out.len() == L - k) : (err == util::ForthError::rewind_beyond && out.len() == L);
  return ok ? 0 : 1;
}
"""
        try:
            from . import fullnative
            exe = fullnative.link_driver(drv, 'forthrewind')
        except Exception as e:      # noqa
            return False, 'replay driver did not build: %s' % str(e)[-400:], {}
        r = subprocess.run([exe, str(L), str(k)], capture_output=True, text=True, timeout=30, env=dict(os.environ, ASAN_OPTIONS='detect_leaks=0'), errors='replace')
        payload = dict(length=L, num_items=k, native=r.stdout.strip())
        if r.returncode != 0:
            return True, 'output of %d items, rewind(%d): native %s' % (L, k, r.stdout.strip() or r.stderr[-200:]), payload
        return False, 'native agrees (%s)' % r.stdout.strip(), payload
    return mdischarge(m, 'ForthOutputBuffer::rewind', obls, [('accepted', ok), ('refused', z3.Not(ok))], replay=replay, prefer=[length <= 3, n >= -5, n <= 5],
                      extra=dict(bounds='any length up to 2^40, any 64-bit count'))
