"""C09: pad / mask / option-encoding kernels touch exactly the None positions; encodings are interchangeable."""
import itertools
import z3
from . import kspec, runner
from .oracle import Harness, discharge, guard, summarize
from .hlib import BV, decl_lists, decl_offsets

ASSUMPTIONS = [
    'layouts obey the documented ListArray/ListOffsetArray/RegularArray/option-node rules',
    'pipelines are wired as ListArrayOf<T>::rpad, ListOffsetArrayOf<T>::rpad and rpad_and_clip wire them: the length kernel '
    'sizes the index buffer of the fill kernel (capacity expression = the length kernel\'s output)',
    'bounds (quick/thorough): n <= 2/3 lists, list length <= 3, target in 0..4; bit masks of 1..2 bytes, all 2^16 bit patterns symbolic',
    'outside: ak.fill_none/is_none/mask/firsts/singletons Python wrappers, fillna merge step, simplify_optiontype',
]


def ctype_w(w):
    return {'32': 'int32_t', 'U32': 'uint32_t', '64': 'int64_t'}[w]


def zmax(a, b):
    return z3.If(a > b, a, b)


def zmin(a, b):
    return z3.If(a < b, a, b)


@guard
def h_listarray_rpad(w, n, L, target, lens=None):
    """min_range -> (target >= min) -> rpad_and_clip_length -> rpad_axis1, n >= 1"""
    ct = ctype_w(w)
    c1, c2, c3 = ('awkward_ListArray%s_min_range' % w, 'awkward_ListArray%s_rpad_and_clip_length_axis1' % w,
                  'awkward_ListArray%s_rpad_axis1_64' % w)
    h = Harness([c1, c2, c3], unwind=n * (L + target + 2) + 6)
    h.scalar('lenstarts', 'int64_t', n); h.scalar('target', 'int64_t', target)
    decl_lists(h, n, L, ct, lens=lens)
    h.arr('tomin', 'int64_t', 1); h.arr('tolength', 'int64_t', 1)
    h.kcall(c1, [('buf', 'tomin'), ('buf', 'fromstarts'), ('buf', 'fromstops'), 'lenstarts'])
    mn = h.out('tomin', 0)
    h.continue_if(z3.Not(BV(target) < mn))        # otherwise rpad returns a shallow copy
    h.kcall(c2, [('buf', 'tolength'), ('buf', 'fromstarts'), ('buf', 'fromstops'), 'target', 'lenstarts'])
    tl = h.out('tolength', 0)
    h.arr('toindex', 'int64_t', tl, cap_c='tolength[0]')
    h.arr('tostarts', ct, n); h.arr('tostops', ct, n)
    h.kcall(c3, [('buf', 'toindex'), ('buf', 'fromstarts'), ('buf', 'fromstops'), ('buf', 'tostarts'), ('buf', 'tostops'), 'target', 'lenstarts'])

    def oracle(io):
        out = [('no error', z3.Or(io.err(0), io.err(1), io.err(2)))]
        tot = BV(0)
        mnv = None
        for i in range(n):
            a, b = io.x('fromstarts', i), io.x('fromstops', i)
            ln = b - a
            mnv = ln if mnv is None else zmin(mnv, ln)
            newlen = zmax(ln, BV(target))
            s2, e2 = io.y('tostarts', i), io.y('tostops', i)
            out.append(('list %d: new length = max(len, target)' % i, e2 - s2 != newlen))
            out.append(('list %d: lists stay in order and do not overlap' % i, s2 != tot))
            for p in range(max(L, target)):
                exp = z3.If(p < ln, a + p, BV(-1))
                out.append(('list %d position %d: original element or None' % (i, p), z3.And(p < newlen, io.y('toindex', s2 + p) != exp)))
            tot = tot + newlen
        out.append(('index length = sum of padded lengths', io.y('tolength', 0) != tot))
        out.append(('min_range = shortest list', io.y('tomin', 0) != mnv))
        return out
    tw = [('padding happens', BV(target) > mn)] if lens is None and target > 0 else []
    return discharge(h, 'ListArray%s::rpad pipeline n=%d target=%d%s' % (w, n, target, '' if lens is None else ' lens=%s' % (lens,)), oracle, tw,
                     extra=dict(bounds=dict(n=n, L=L, target=target)))


@guard
def h_listoffset_rpad(w, n, L, target, clip, lens=None):
    ct = ctype_w(w)
    if clip:
        c2 = 'awkward_ListOffsetArray%s_rpad_and_clip_axis1_64' % w
        h = Harness(c2, unwind=n * (L + target + 2) + 6)
    else:
        c1, c2 = 'awkward_ListOffsetArray%s_rpad_length_axis1' % w, 'awkward_ListOffsetArray%s_rpad_axis1_64' % w
        h = Harness([c1, c2], unwind=n * (L + target + 2) + 6)
    h.scalar('length', 'int64_t', n); h.scalar('target', 'int64_t', target)
    decl_offsets(h, n, L, ct, lens=lens)
    if clip:
        h.arr('toindex', 'int64_t', n * target)          # Index64 index(length * target)
        h.kcall(c2, [('buf', 'toindex'), ('buf', 'fromoffsets'), 'length', 'target'])
    else:
        h.arr('tooffsets', ct, n + 1); h.arr('tolength', 'int64_t', 1)
        h.kcall(c1, [('buf', 'tooffsets'), ('buf', 'fromoffsets'), 'length', 'target', ('buf', 'tolength')])
        tl = h.out('tolength', 0)
        h.arr('toindex', 'int64_t', tl, cap_c='tolength[0]')
        h.kcall(c2, [('buf', 'toindex'), ('buf', 'fromoffsets'), 'length', 'target'])

    def oracle(io):
        out = [('no error', z3.Or([io.err(k) for k in range(len(h.errs))]))]
        k = BV(0)
        for i in range(n):
            a, b = io.x('fromoffsets', i), io.x('fromoffsets', i + 1)
            ln = b - a
            newlen = BV(target) if clip else zmax(ln, BV(target))
            for p in range(max(L, target)):
                exp = z3.If(p < ln, a + p, BV(-1))
                out.append(('list %d position %d: original element or None' % (i, p), z3.And(p < newlen, io.y('toindex', k + p) != exp)))
            k = k + newlen
            if not clip:
                out.append(('new offsets[%d]' % (i + 1), io.y('tooffsets', i + 1) != k))
        if not clip:
            out.append(('tooffsets[0] = 0', io.y('tooffsets', 0) != 0))
            out.append(('index length = sum of padded lengths', io.y('tolength', 0) != k))
        return out
    return discharge(h, 'ListOffsetArray%s::rpad%s pipeline n=%d target=%d%s' % (w, '_and_clip' if clip else '', n, target, '' if lens is None else ' lens=%s' % (lens,)),
                     oracle, [], extra=dict(bounds=dict(n=n, L=L, target=target)))


@guard
def h_regular_rpad_clip(n, size, target):
    cname = 'awkward_RegularArray_rpad_and_clip_axis1_64'
    h = Harness(cname, unwind=n * (target + size + 2) + 6)
    h.scalar('target', 'int64_t', target); h.scalar('size', 'int64_t', size); h.scalar('length', 'int64_t', n)
    h.arr('toindex', 'int64_t', n * target)
    h.kcall(cname, [('buf', 'toindex'), 'target', 'size', 'length'])

    def oracle(io):
        out = [('no error', io.err())]
        for i in range(n):
            for p in range(target):
                out.append(('row %d position %d' % (i, p), io.y('toindex', i * target + p) != (i * size + p if p < size else -1)))
        return out
    return discharge(h, '%s n=%d size=%d target=%d' % (cname, n, size, target), oracle, [], extra=dict(bounds=dict(n=n, size=size, target=target)))


@guard
def h_index_rpad_axis0(n, target):
    cname = 'awkward_index_rpad_and_clip_axis0_64'
    h = Harness(cname, unwind=n + target + 4)
    h.scalar('target', 'int64_t', target); h.scalar('length', 'int64_t', n)
    h.arr('toindex', 'int64_t', target)
    h.kcall(cname, [('buf', 'toindex'), 'target', 'length'])

    def oracle(io):
        return [('no error', io.err())] + [('position %d' % p, io.y('toindex', p) != (p if p < n else -1)) for p in range(target)]
    return discharge(h, '%s n=%d target=%d' % (cname, n, target), oracle, [], extra=dict(bounds=dict(n=n, target=target)))


@guard
def h_index_rpad_axis1(n):
    cname = 'awkward_index_rpad_and_clip_axis1_64'
    h = Harness(cname, unwind=n + 4)
    h.scalar('target', 'int64_t'); h.scalar('length', 'int64_t', n)
    T = h.scalars['target'][0]
    h.assume(T >= 0, T <= 2 ** 40)
    h.arr('tostarts', 'int64_t', n); h.arr('tostops', 'int64_t', n)
    h.kcall(cname, [('buf', 'tostarts'), ('buf', 'tostops'), 'target', 'length'])

    def oracle(io):
        out = [('no error', io.err())]
        for i in range(n):
            out.append(('starts[%d]' % i, io.y('tostarts', i) != i * io.sc('target')))
            out.append(('stops[%d]' % i, io.y('tostops', i) != (i + 1) * io.sc('target')))
        return out
    return discharge(h, '%s n=%d' % (cname, n), oracle, [], extra=dict(bounds=dict(n=n)))


# ------------------------------------------------------------------------------------------- option encodings
def valid_index(io, name, i):
    return io.x(name, i) >= 0


@guard
def h_option_encodings(n):
    """five encodings of the same validity vector agree: IndexedOption (index<0), byte mask (either polarity),
    bit mask (either order, either polarity) -> numnull / mask / toIndexedOptionArray / to_ByteMaskedArray"""
    nb = (n + 7) // 8
    names = ['awkward_IndexedArray64_numnull', 'awkward_IndexedArray64_mask8', 'awkward_ByteMaskedArray_numnull',
             'awkward_ByteMaskedArray_mask8', 'awkward_ByteMaskedArray_toIndexedOptionArray64',
             'awkward_BitMaskedArray_to_ByteMaskedArray', 'awkward_BitMaskedArray_to_IndexedOptionArray64',
             'awkward_ByteMaskedArray_overlay_mask8', 'awkward_IndexedArray64_overlay_mask8_to64',
             'awkward_IndexedOptionArray_rpad_and_clip_mask_axis1_64']
    h = Harness(names, unwind=n + 8 * nb + 6)
    h.scalar('length', 'int64_t', n); h.scalar('nbytes', 'int64_t', nb)
    h.scalar('vw_byte', 'bool'); h.scalar('vw_bit', 'bool'); h.scalar('lsb', 'bool')
    h.arr('index', 'int64_t', n, const=True)
    h.arr('bytemask', 'int8_t', n, const=True)
    h.arr('bitmask', 'uint8_t', nb, const=True)
    lsb = h.scalars['lsb'][0] == 1
    vwB = h.scalars['vw_byte'][0] == 1
    vwb = h.scalars['vw_bit'][0] == 1
    # the three inputs encode the same validity vector (the abstraction function of the documented encodings)
    for i in range(n):
        valid = h.init('index', i) >= 0
        h.assume(((h.init('bytemask', i) != 0) == vwB) == valid)
        byte = h.init('bitmask', i // 8)
        bit = z3.If(lsb, z3.Extract(i % 8, i % 8, byte), z3.Extract(7 - i % 8, 7 - i % 8, byte)) == 1
        h.assume((bit == vwb) == valid)
    for nm, ct, cap in (('nn_idx', 'int64_t', 1), ('nn_byte', 'int64_t', 1), ('m_idx', 'int8_t', n), ('m_byte', 'int8_t', n),
                        ('i_byte', 'int64_t', n), ('b_bit', 'int8_t', 8 * nb), ('i_bit', 'int64_t', 8 * nb), ('ov_byte', 'int8_t', n),
                        ('ov_idx', 'int64_t', n), ('their', 'int8_t', n), ('rp', 'int64_t', n)):
        h.arr(nm, ct, cap)
    for i in range(n):
        h.assume(z3.ULE(z3.Select(h.arrays['their'].init, BV(i)), 1))
    h.kcall(names[0], [('buf', 'nn_idx'), ('buf', 'index'), 'length'])
    h.kcall(names[1], [('buf', 'm_idx'), ('buf', 'index'), 'length'])
    h.kcall(names[2], [('buf', 'nn_byte'), ('buf', 'bytemask'), 'length', 'vw_byte'])
    h.kcall(names[3], [('buf', 'm_byte'), ('buf', 'bytemask'), 'length', 'vw_byte'])
    h.kcall(names[4], [('buf', 'i_byte'), ('buf', 'bytemask'), 'length', 'vw_byte'])
    h.kcall(names[5], [('buf', 'b_bit'), ('buf', 'bitmask'), 'nbytes', 'vw_bit', 'lsb'])
    h.kcall(names[6], [('buf', 'i_bit'), ('buf', 'bitmask'), 'nbytes', 'vw_bit', 'lsb'])
    h.kcall(names[7], [('buf', 'ov_byte'), ('buf', 'their'), ('buf', 'bytemask'), 'length', 'vw_byte'])
    h.kcall(names[8], [('buf', 'ov_idx'), ('buf', 'their'), ('buf', 'index'), 'length'])
    h.kcall(names[9], [('buf', 'rp'), ('buf', 'm_idx'), 'length'])

    def oracle(io):
        out = [('no error', z3.Or([io.err(k) for k in range(len(names))]))]
        cnt = BV(0)
        k = BV(0)
        for i in range(n):
            valid = io.x('index', i) >= 0
            miss = z3.Not(valid)
            cnt = z3.If(miss, cnt + 1, cnt)
            out.append(('is_none[%d] from index' % i, (io.y('m_idx', i) != 0) != miss))
            out.append(('is_none[%d] from byte mask' % i, (io.y('m_byte', i) != 0) != miss))
            out.append(('byte mask -> option index [%d]' % i, io.y('i_byte', i) != z3.If(valid, BV(i), BV(-1))))
            out.append(('bit mask -> byte mask [%d]' % i, (io.y('b_bit', i) != 0) != miss))
            out.append(('bit mask -> option index [%d]' % i, io.y('i_bit', i) != z3.If(valid, BV(i), BV(-1))))
            th = io.x('their', i) != 0
            out.append(('overlay (byte) [%d] = their mask OR mine' % i, (io.y('ov_byte', i) != 0) != z3.Or(th, miss)))
            out.append(('overlay (index) [%d]' % i, io.y('ov_idx', i) != z3.If(th, BV(-1), io.x('index', i))))
            out.append(('project mask -> compact option index [%d]' % i, io.y('rp', i) != z3.If(valid, k, BV(-1))))
            k = z3.If(valid, k + 1, k)
        out.append(('numnull from index = number of missing', io.y('nn_idx', 0) != cnt))
        out.append(('numnull from byte mask = number of missing', io.y('nn_byte', 0) != cnt))
        return out
    tw = [('some missing some valid', z3.And(h.init('index', 0) < 0, h.init('index', n - 1) >= 0))] if n >= 2 else []
    return discharge(h, 'option encodings agree n=%d' % n, oracle, tw, extra=dict(bounds=dict(n=n, bitmask_bytes=nb)))


@guard
def h_fillna_index(w, n):
    cname = 'awkward_UnionArray_fillna_from%s_to64' % w
    h = Harness(cname, unwind=n + 4)
    h.scalar('length', 'int64_t', n)
    h.arr('fromindex', ctype_w(w), n, const=True); h.arr('toindex', 'int64_t', n)
    h.kcall(cname, [('buf', 'toindex'), ('buf', 'fromindex'), 'length'])

    def oracle(io):
        return [('no error', io.err())] + [('entry %d: valid index kept, missing -> 0' % i,
                                           io.y('toindex', i) != z3.If(io.x('fromindex', i) >= 0, io.x('fromindex', i), BV(0))) for i in range(n)]
    return discharge(h, '%s n=%d' % (cname, n), oracle, [], extra=dict(bounds=dict(n=n)))


def jobs(tier):
    N, L, T = (2, 3, 4) if tier == 'quick' else (3, 3, 4)
    js = []
    widths = ('64', '32', 'U32')
    for w in widths:
        for n in range(1, N + 1):
            for target in range(T + 1):
                if n <= 2:
                    js.append((h_listarray_rpad, (w, n, L, target), 900))
                else:
                    for lens in itertools.product(range(L + 1), repeat=n):
                        js.append((h_listarray_rpad, (w, n, L, target, lens), 900))
        for n in range(0, N + 1):
            for target in range(T + 1):
                for clip in (False, True):
                    if n <= 2:
                        js.append((h_listoffset_rpad, (w, n, L, target, clip), 900))
                    elif w == '64' or tier == 'thorough':
                        for lens in itertools.product(range(L + 1), repeat=n):
                            js.append((h_listoffset_rpad, (w, n, L, target, clip, lens), 900))
            js.append((h_fillna_index, (w, n + 1), 300))
    for n in range(N + 1):
        for size in range(0, 4):
            for target in range(T + 1):
                js.append((h_regular_rpad_clip, (n, size, target), 300))
        for target in range(T + 1):
            js.append((h_index_rpad_axis0, (n, target), 300))
        js.append((h_index_rpad_axis1, (n,), 300))
    for n in ([1, 3, 9] if tier == 'quick' else [1, 2, 3, 7, 9, 12]):
        js.append((h_option_encodings, (n,), 1800))
    return js


def all_jobs(tier):
    from . import extra_misc, mnode
    return jobs(tier) + extra_misc.jobs_for('C09', tier) + mnode.jobs_for('C09', tier)


def main(report, tier):
    return summarize(report, runner.run_tasks(all_jobs(tier)), 'C09')
