"""C04 (narrow claim): the list re-alignment kernels behind broadcasting - equal-length lists align
element for element, lists of different lengths at the same position raise, length-1 regular dimensions repeat."""
import z3
from . import kspec, runner
from .oracle import Harness, discharge, guard, summarize
from .hlib import BV, decl_lists, decl_offsets, type_max

ASSUMPTIONS = [
    'kernel level only: broadcast_and_apply / array_ufunc (Python over _ext) are outside the claim',
    'target offsets are the compact offsets of the other operand: offsets[0] = 0 and non-decreasing (what compact_offsets64 returns and what '
    'broadcast_tooffsets64 requires); the non-monotone case is examined under C12',
    'bounds (quick/thorough): n <= 3/4 lists of length <= 3/4',
]


def ctype_w(w):
    return {'32': 'int32_t', 'U32': 'uint32_t', '64': 'int64_t'}[w]


@guard
def h_list_broadcast(w, n, L, lens=None):
    cname = 'awkward_ListArray%s_broadcast_tooffsets_64' % w
    ct = ctype_w(w)
    h = Harness(cname, unwind=n * (L + 1) + 4)
    h.scalar('offsetslength', 'int64_t', n + 1); h.scalar('lencontent', 'int64_t')
    LC = h.scalars['lencontent'][0]
    h.assume(LC >= 0, LC <= 2 ** 40)
    h.arr('fromoffsets', 'int64_t', n + 1, const=True)      # the *target* offsets: compact offsets of the other operand
    h.assume(h.init('fromoffsets', 0) == 0)
    for i in range(n):
        h.assume(h.init('fromoffsets', i + 1) >= h.init('fromoffsets', i))
    decl_lists(h, n, L, ct, lens=lens)                                  # documented rule except the content bound (checked by kernel)
    tot = BV(0)
    for i in range(n):
        tot = tot + (h.init('fromstops', i) - h.init('fromstarts', i))
    # ListArray::broadcast_tooffsets64 allocates carrylen = offsets[-1] - offsets[0]
    carrylen = h.init('fromoffsets', n)
    h.assume(carrylen >= 0, carrylen <= n * L + 4)
    h.arr('tocarry', 'int64_t', carrylen)
    h.kcall(cname, [('buf', 'tocarry'), ('buf', 'fromoffsets'), 'offsetslength', ('buf', 'fromstarts'), ('buf', 'fromstops'), 'lencontent'])

    def oracle(io):
        bad = []
        out = []
        k = BV(0)
        ok_prefix = z3.BoolVal(True)
        for i in range(n):
            a, b = io.x('fromstarts', i), io.x('fromstops', i)
            cnt = io.x('fromoffsets', i + 1) - io.x('fromoffsets', i)
            bad_i = z3.Or(z3.And(a != b, b > io.sc('lencontent')), b - a != cnt)
            bad.append(bad_i)
            for p in range(L):
                out.append(('element %d of list %d aligns with itself' % (p, i), z3.And(z3.Not(io.err()), p < b - a, io.y('tocarry', k + p) != a + p)))
            k = k + (b - a)
        out.append(('error iff some list length differs from the target (or a stop lies beyond the content)',
                    io.err() != z3.Or(bad + [z3.BoolVal(False)])))
        return out
    tw = [('ok with nonempty lists', z3.And(z3.Not(h.errs[-1][2]), tot >= 2)), ('unequal lengths raise', h.errs[-1][2])] if n else []
    if lens is not None:
        tw = []
    return discharge(h, '%s n=%d%s' % (cname, n, '' if lens is None else ' lens=%s' % (lens,)), oracle, tw, extra=dict(bounds=dict(n=n, L=L)))


@guard
def h_regular_broadcast(n, L):
    cname = 'awkward_RegularArray_broadcast_tooffsets_64'
    h = Harness(cname, unwind=n + 4)
    h.scalar('offsetslength', 'int64_t', n + 1); h.scalar('size', 'int64_t')
    h.assume(h.scalars['size'][0] >= 0)
    h.arr('fromoffsets', 'int64_t', n + 1, const=True)
    h.kcall(cname, [('buf', 'fromoffsets'), 'offsetslength', 'size'])

    def oracle(io):
        bad = [io.x('fromoffsets', i + 1) - io.x('fromoffsets', i) != io.sc('size') for i in range(n)]
        return [('ok iff every target count equals the regular size', io.err() != z3.Or(bad + [z3.BoolVal(False)]))]
    return discharge(h, '%s n=%d' % (cname, n), oracle, [('ok', z3.Not(h.errs[-1][2])), ('error', h.errs[-1][2])] if n else [], extra=dict(bounds=dict(n=n)))


@guard
def h_regular_size1(n, L):
    cname = 'awkward_RegularArray_broadcast_tooffsets_size1_64'
    h = Harness(cname, unwind=n * (L + 1) + 4)
    h.scalar('offsetslength', 'int64_t', n + 1)
    h.arr('fromoffsets', 'int64_t', n + 1, const=True)
    cnts = [h.init('fromoffsets', i + 1) - h.init('fromoffsets', i) for i in range(n)]
    h.assume(h.init('fromoffsets', 0) == 0)
    for c in cnts:
        h.assume(c <= L, c >= 0)
    # RegularArray::broadcast_tooffsets64 allocates carrylen = offsets[-1]
    carrylen = h.init('fromoffsets', n)
    h.arr('tocarry', 'int64_t', carrylen)
    h.kcall(cname, [('buf', 'tocarry'), ('buf', 'fromoffsets'), 'offsetslength'])

    def oracle(io):
        out = []
        bad = []
        k = BV(0)
        for i in range(n):
            c = io.x('fromoffsets', i + 1) - io.x('fromoffsets', i)
            bad.append(c < 0)
            for p in range(L):
                out.append(('length-1 element %d repeats at position %d' % (i, p), z3.And(z3.Not(io.err()), p < c, io.y('tocarry', k + p) != i)))
            k = k + c
        out.append(('no error for monotone target offsets', io.err()))
        return out
    return discharge(h, '%s n=%d' % (cname, n), oracle, [('ok', z3.Not(h.errs[-1][2]))], extra=dict(bounds=dict(n=n, L=L)))


def jobs(tier):
    N, L = (3, 3) if tier == 'quick' else (4, 4)
    js = []
    import itertools
    for n in range(N + 1):
        for w in ('64', '32', 'U32'):
            if n <= 2:
                js.append((h_list_broadcast, (w, n, L), 900))
            elif tier == 'thorough' or w == '64':
                for lens in itertools.product(range(min(L, 3) + 1), repeat=n):      # size case-split
                    js.append((h_list_broadcast, (w, n, L, lens), 900))
        js.append((h_regular_broadcast, (n, L), 300))
        js.append((h_regular_size1, (n, L), 600))
    return js


def main(report, tier):
    from . import mnode
    return summarize(report, runner.run_tasks(jobs(tier) + mnode.jobs_for('C04', tier)), 'C04')
