"""C06: sort/argsort kernels order every segment without moving data between segments.
The libstdc++ std::sort / std::stable_sort instantiations are part of the kernel's IR module and are executed symbolically
(for segments of <= 4 elements only their insertion-sort arms are feasible)."""
import itertools
import z3
from . import kspec, runner
from .oracle import Harness, discharge, guard, summarize
from .hlib import BV
from .mharness import BASE_STUBS
from .llbmc import NULL

ASSUMPTIONS = [
    'segments given by concrete offsets (case-split over segment lengths <= 3/4, <= 2 segments), element values symbolic in the full C type',
    'oracle: each output segment is a permutation of its input segment (multiset equality), ordered by the comparator the property states '
    '(non-decreasing / non-increasing, NaN first in both directions); argsort positions are segment-local, realise that order, and for '
    'stable=True equal keys keep their input order',
    'operator new is stubbed with a fresh byte buffer of the requested size (never NULL)',
    'outside: option re-insertion and axis plumbing in the C++ sort_next methods, string sorting kernels',
]


def stub_new(eng, fr, ins, st, name, argv):
    return eng.new_array(st.mem, eng.fresh_name('heap'), ('i', 8), argv[0], tag='heap')


def add_stubs(h):
    h.eng.stubs.update(BASE_STUBS)
    h.eng.stubs.update({'_Znwm': stub_new, '_ZnwmRKSt9nothrow_t': stub_new, '_Znam': stub_new})


def before(a, x, y, ascending):
    """strictly-before relation of the documented order: NaN first, then ascending/descending"""
    if a.kind == 'f':
        nx, ny = z3.fpIsNaN(x), z3.fpIsNaN(y)
        lt = z3.fpLT(x, y) if ascending else z3.fpGT(x, y)
        return z3.And(z3.Not(ny), z3.Or(nx, lt))
    if a.kind == 'b':
        return (x < y) if ascending else (x > y)
    return (x < y) if ascending else (x > y)


def same(a, x, y):
    return x == y


@guard
def h_sort(cname, lens, ascending, stable, arg):
    sp = kspec.spec_by_name()[cname]
    a = [x for x in sp.args if x.name == 'fromptr'][0]
    n = sum(lens)
    h = Harness(cname, unwind=60, max_instrs=3000000)
    add_stubs(h)
    offs = [0]
    for l in lens:
        offs.append(offs[-1] + l)
    h.scalar('length', 'int64_t', n); h.scalar('offsetslength', 'int64_t', len(offs))
    h.scalar('ascending', 'bool', ascending); h.scalar('stable', 'bool', stable)
    h.arr('fromptr', a.ctype, n, const=True)
    if a.kind == 'b':
        for i in range(n):
            h.assume(z3.ULE(h.raw_init('fromptr', i), 1))
    h.array('offsets', 'int64_t', len(offs), const=True, values=offs)
    if arg:
        h.arr('toptr', 'int64_t', n)
        h.kcall(cname, [('buf', 'toptr'), ('buf', 'fromptr'), 'length', ('buf', 'offsets'), 'offsetslength', 'ascending', 'stable'])
    else:
        h.scalar('parentslength', 'int64_t', n)
        h.arr('toptr', a.ctype, n)
        h.kcall(cname, [('buf', 'toptr'), ('buf', 'fromptr'), 'length', ('buf', 'offsets'), 'offsetslength', 'parentslength', 'ascending', 'stable'])

    def oracle(io):
        out = [('no error', io.err())]
        for s, l in enumerate(lens):
            base = offs[s]
            xs = [io.x('fromptr', base + k) for k in range(l)]
            if arg:
                ps = [io.y('toptr', base + k) for k in range(l)]
                for k in range(l):
                    out.append(('segment %d: position %d is segment-local' % (s, k), z3.Or(ps[k] < 0, ps[k] >= l)))
                for k1 in range(l):
                    for k2 in range(k1 + 1, l):
                        out.append(('segment %d: positions %d and %d are distinct' % (s, k1, k2), ps[k1] == ps[k2]))

                def val(p):
                    v = xs[0]
                    for k in range(1, l):
                        v = z3.If(p == k, xs[k], v)
                    return v
                ys = [val(p) for p in ps]
                for k in range(l - 1):
                    out.append(('segment %d: positions realise the order at %d' % (s, k), before(a, ys[k + 1], ys[k], ascending)))
                    if stable:
                        eq = z3.And(z3.Not(before(a, ys[k], ys[k + 1], ascending)), z3.Not(before(a, ys[k + 1], ys[k], ascending)))
                        out.append(('segment %d: equal keys keep their input order at %d' % (s, k), z3.And(eq, ps[k] > ps[k + 1])))
            else:
                ys = [io.y('toptr', base + k) for k in range(l)]
                for k in range(l - 1):
                    out.append(('segment %d: ordered at %d (NaN first)' % (s, k), before(a, ys[k + 1], ys[k], ascending)))
                for k in range(l):
                    cin = sum([z3.If(same(a, xs[j], xs[k]), 1, 0) for j in range(l)])
                    cout = sum([z3.If(same(a, ys[j], xs[k]), 1, 0) for j in range(l)])
                    out.append(('segment %d: element %d occurs as often in the output segment as in the input segment' % (s, k), cin != cout))
        return out
    return discharge(h, '%s lens=%s asc=%d stable=%d' % (cname, lens, ascending, stable), oracle, [], timeout_ms=30000,
                     extra=dict(bounds=dict(lens=list(lens))))


@guard
def h_quick_sort(cname, lens, ascending, nan=False):
    sp = kspec.spec_by_name()[cname]
    a = [x for x in sp.args if x.name == 'tmpptr'][0]
    n = sum(lens)
    h = Harness(cname, unwind=80, max_instrs=3000000)
    add_stubs(h)
    starts, stops = [], []
    o = 0
    for l in lens:
        starts.append(o); stops.append(o + l); o += l
    ML = 8
    h.scalar('ascending', 'bool', ascending); h.scalar('length', 'int64_t', len(lens)); h.scalar('maxlevels', 'int64_t', ML)
    h.arr('tmpptr', a.ctype, n)
    if a.kind == 'b':
        for i in range(n):
            h.assume(z3.ULE(h.raw_init('tmpptr', i), 1))
    if a.kind == 'f':
        # the unstable sort (quick_sort) does not implement the NaN-first convention: that input class is examined
        # separately (known finding) so that everything else stays a hard obligation
        nans = [z3.fpIsNaN(h.init('tmpptr', i)) for i in range(n)]
        h.assume(z3.Or(nans) if nan else z3.Not(z3.Or(nans + [z3.BoolVal(False)])))
    h.arr('tmpbeg', 'int64_t', ML); h.arr('tmpend', 'int64_t', ML)
    h.array('fromstarts', 'int64_t', len(lens), const=True, values=starts)
    h.array('fromstops', 'int64_t', len(lens), const=True, values=stops)
    h.kcall(cname, [('buf', 'tmpptr'), ('buf', 'tmpbeg'), ('buf', 'tmpend'), ('buf', 'fromstarts'), ('buf', 'fromstops'), 'ascending', 'length', 'maxlevels'])

    def oracle(io):
        out = [('no error for segments this small', io.err())]
        for s, l in enumerate(lens):
            base = starts[s]
            xs = [io.x('tmpptr', base + k) for k in range(l)]
            ys = [io.y('tmpptr', base + k) for k in range(l)]
            for k in range(l - 1):
                out.append(('segment %d: ordered at %d' % (s, k), before(a, ys[k + 1], ys[k], ascending)))
            for k in range(l):
                cin = sum([z3.If(same(a, xs[j], xs[k]), 1, 0) for j in range(l)])
                cout = sum([z3.If(same(a, ys[j], xs[k]), 1, 0) for j in range(l)])
                out.append(('segment %d: element %d keeps its multiplicity inside the segment' % (s, k), cin != cout))
        return out
    return discharge(h, '%s lens=%s asc=%d%s' % (cname, lens, ascending, ' with-NaN' if nan else ''), oracle, [], timeout_ms=30000, extra=dict(bounds=dict(lens=list(lens))))


CMP = {'sort': ('src/cpu-kernels/awkward_sort.cpp', 'sort_order'), 'argsort': ('src/cpu-kernels/awkward_argsort.cpp', 'argsort_order')}
CT2C = {'double': 'double', 'float': 'float', 'int64_t': 'int64_t', 'uint32_t': 'uint32_t', 'int8_t': 'int8_t'}


def shim_text(which, ctype):
    from .build import repo_path
    rel, base = CMP[which]
    return ('#include "%s"\nextern "C" bool vf_cmp_asc(%s l, %s r) { return %s_ascending<%s>(l, r); }\n'
            'extern "C" bool vf_cmp_desc(%s l, %s r) { return %s_descending<%s>(l, r); }\n') % (repo_path(rel), ctype, ctype, base, ctype, ctype, ctype, base, ctype)


@guard
def h_comparator(which, ctype, direction):
    """the comparator std::sort / std::stable_sort are instantiated with must be a strict weak ordering for every value, NaN included -
    otherwise the standard algorithms have undefined behaviour (std::sort's unguarded partition runs off the segment or never stops).
    The comparator templates are lowered from the repo source through a two-line shim that only names the instantiation."""
    import os, subprocess
    from . import build
    from .irparse import Module
    from .llbmc import Engine, Mem
    from .mharness import mdischarge
    rel = CMP[which][0]
    mod = Module(build.compile_ir_text(shim_text(which, ctype), 'cmp_%s_%s' % (which, ctype.replace(' ', '')), [rel]))
    from . import kspec as _k
    kind, bits, signed = _k.CT[ctype]
    fn = 'vf_cmp_' + direction

    class M:
        pass
    m = M()
    m.s = z3.Solver()
    m.eng = Engine([mod], m.s, unwind=4)
    m.eng.stubs.update(BASE_STUBS)
    m.sym = {}
    srt = (z3.Float64() if bits == 64 else z3.Float32()) if kind == 'f' else z3.BitVecSort(bits)
    x, y, z = [z3.Const(n, srt) for n in 'xyz']

    def C(a, b):
        out = m.eng.call(fn, [a, b], Mem(), z3.BoolVal(True))
        r = out.ret
        return r == 1 if r.size() == 1 else z3.Extract(0, 0, r) == 1

    def solve(cond, timeout_ms=30000):
        s = z3.Solver(); s.set('timeout', timeout_ms); s.add(cond)
        r = s.check()
        return r, (s.model() if r == z3.sat else None)
    m.solve = solve
    E = lambda a, b: z3.And(z3.Not(C(a, b)), z3.Not(C(b, a)))
    obls = [('irreflexive: comp(x, x) is false', C(x, x)),
            ('asymmetric: comp(x, y) implies not comp(y, x)', z3.And(C(x, y), C(y, x))),
            ('transitive', z3.And(C(x, y), C(y, z), z3.Not(C(x, z)))),
            ('incomparability is transitive', z3.And(E(x, y), E(y, z), z3.Not(E(x, z))))]
    if kind == 'f':
        nanfirst = z3.And(z3.fpIsNaN(x), z3.Not(z3.fpIsNaN(y)), z3.Not(C(x, y)))
        obls.append(('NaN orders before every number', nanfirst))

    def replay(model, ent):
        drv = shim_text(which, ctype) + ('''
#include <cstdio>
#include <cstdlib>
#include <cstring>
int main(int argc, char** argv) {
  %s v[3]; unsigned long long raw;
  for (int i = 0; i < 3; i++) { raw = strtoull(argv[1 + i], nullptr, 10); memcpy(&v[i], &raw, sizeof(v[i])); }
  bool (*c)(%s, %s) = !strcmp(argv[4], "asc") ? vf_cmp_asc : vf_cmp_desc;
  printf("%%d %%d %%d %%d %%d %%d %%d\\n", c(v[0], v[0]), c(v[0], v[1]), c(v[1], v[0]), c(v[1], v[2]), c(v[2], v[1]), c(v[0], v[2]), c(v[2], v[0]));
  return 0;
}
''' % (ctype, ctype, ctype))
        exe = build.compile_driver(drv, [], sanitize=False)
        raws = []
        for v in (x, y, z):
            mv = model.eval(v, model_completion=True)
            raws.append(z3.simplify(z3.fpToIEEEBV(mv)).as_long() if kind == 'f' and not mv.isNaN() else
                        ((0x7ff8000000000000 if bits == 64 else 0x7fc00000) if kind == 'f' else mv.as_long()))
        r = subprocess.run([exe] + [str(v) for v in raws] + [direction], capture_output=True, text=True, timeout=20)
        xx, xy, yx, yz, zy, xz, zx = [int(t) for t in r.stdout.split()]
        bad = []
        if xx: bad.append('comp(x,x) is true')
        if xy and yx: bad.append('comp(x,y) and comp(y,x)')
        if xy and yz and not xz: bad.append('not transitive')
        if (not xy and not yx) and (not yz and not zy) and (xz or zx): bad.append('incomparability not transitive')
        if ent['name'].startswith('NaN') and not xy: bad.append('NaN does not order before a number')
        return (bool(bad), 'native comparator on raw values %s: %s' % (raws, ', '.join(bad) or 'strict weak ordering holds'), dict(raw=raws))
    return mdischarge(m, 'comparator %s_%s<%s> is a strict weak ordering' % (CMP[which][1], 'ascending' if direction == 'asc' else 'descending', ctype),
                      obls, [], timeout_ms=30000, replay=replay, extra=dict(bounds='all values of the type, NaN and infinities included'))


@guard
def h_stable_long(cname, n, ascending):
    """stability beyond libstdc++'s insertion-sort threshold (16): a segment of n equal keys (one symbolic value, NaN included for floats)
    sorted with stable=True must come back as the identity permutation - std::sort instead of std::stable_sort would not guarantee it"""
    sp = kspec.spec_by_name()[cname]
    a = [x for x in sp.args if x.name == 'fromptr'][0]
    h = Harness(cname, unwind=400, max_instrs=6000000)
    add_stubs(h)
    h.scalar('length', 'int64_t', n); h.scalar('offsetslength', 'int64_t', 2)
    h.scalar('ascending', 'bool', ascending); h.scalar('stable', 'bool', True)
    from .kharness import elem_sort
    srt = elem_sort(('f', a.bits) if a.kind == 'f' else ('i', a.bits))
    v = z3.Const('key', srt)
    if a.kind == 'b':
        h.assume(z3.ULE(v, 1))
    h.arr('fromptr', a.ctype, n, const=True, expr=z3.K(z3.BitVecSort(64), v))
    h.array('offsets', 'int64_t', 2, const=True, values=[0, n])
    h.arr('toptr', 'int64_t', n)
    h.kcall(cname, [('buf', 'toptr'), ('buf', 'fromptr'), 'length', ('buf', 'offsets'), 'offsetslength', 'ascending', 'stable'])

    def oracle(io):
        return [('no error', io.err())] + [('equal keys keep their input order: position %d' % k, io.y('toptr', k) != k) for k in range(n)]
    return discharge(h, '%s stable sort of %d equal keys asc=%d' % (cname, n, ascending), oracle, [], timeout_ms=30000, extra=dict(bounds=dict(n=n)))


MAX_STRLEN = 4


def stub_strncmp(eng, fr, ins, st, name, argv):
    """strncmp / memcmp over symbolic bytes (unsigned comparison; strncmp also stops after a NUL); a symbolic count is split over 0..MAX_STRLEN"""
    from . import nodeh
    n = z3.simplify(argv[2])

    def bytes_of(p, cnt):
        cs = [(g, q) for g, q in nodeh.ptr_cases(p) if q.obj is not None]
        if len(cs) != 1:
            raise nodeh.Unsupported('%s on a merged pointer' % name)
        o, off = st.mem.o[cs[0][1].obj], cs[0][1].off
        return [z3.Select(o.arr, z3.simplify(off + j)) for j in range(cnt)]

    def upto(cnt):
        a, b = bytes_of(argv[0], cnt), bytes_of(argv[1], cnt)
        r = z3.BitVecVal(0, 32)
        for x, y in reversed(list(zip(a, b))):
            tail = r if name != 'strncmp' else z3.If(x == 0, z3.BitVecVal(0, 32), r)
            r = z3.If(x == y, tail, z3.If(z3.ULT(x, y), z3.BitVecVal(-1, 32), z3.BitVecVal(1, 32)))
        return r
    if z3.is_bv_value(n):
        return z3.simplify(upto(n.as_long()))
    eng.add_obl('contract', st, z3.UGT(n, MAX_STRLEN), '%s count beyond the string lengths of this harness' % name, eng.where(fr, ins))
    r = upto(MAX_STRLEN)
    for c in reversed(range(MAX_STRLEN)):
        r = z3.If(n == c, upto(c), r)
    return z3.simplify(r)


@guard
def h_argsort_strings(groups, slens, ascending, stable):
    """awkward_ListOffsetArray_argsort_strings: inside every group of strings the positions handed back are a permutation of the group's
    positions that puts the strings in byte-wise lexicographic order (a proper prefix first; any byte value, NUL included, takes part),
    reversed for descending, and equal strings keep their input order in both directions when stable"""
    cname = 'awkward_ListOffsetArray_argsort_strings'
    n = len(slens)
    assert sum(groups) == n
    h = Harness(cname, unwind=60, max_instrs=3000000)
    add_stubs(h)
    h.eng.stubs.update({'strncmp': stub_strncmp, 'memcmp': stub_strncmp, 'bcmp': stub_strncmp})
    starts = [sum(slens[:i]) for i in range(n)]
    stops = [starts[i] + slens[i] for i in range(n)]
    parents = [g for g, l in enumerate(groups) for _ in range(l)]
    total = max(1, sum(slens))
    h.scalar('length', 'int64_t', n)
    h.scalar('is_stable', 'bool', stable); h.scalar('is_ascending', 'bool', ascending); h.scalar('is_local', 'bool', True)
    h.arr('stringdata', 'uint8_t', total, const=True)
    h.array('fromparents', 'int64_t', max(1, n), const=True, values=parents or [0])
    h.array('stringstarts', 'int64_t', max(1, n), const=True, values=starts or [0])
    h.array('stringstops', 'int64_t', max(1, n), const=True, values=stops or [0])
    h.arr('tocarry', 'int64_t', max(1, n))
    h.kcall(cname, [('buf', 'tocarry'), ('buf', 'fromparents'), 'length', ('buf', 'stringdata'), ('buf', 'stringstarts'), ('buf', 'stringstops'), 'is_stable', 'is_ascending', 'is_local'])

    def oracle(io):
        out = [('no error', io.err())]
        ch = lambda i, j: io.x('stringdata', starts[i] + j)

        def lt(i, j):          # string i strictly before string j, ascending
            m = min(slens[i], slens[j])
            r = z3.BoolVal(slens[i] < slens[j])
            for k in reversed(range(m)):
                r = z3.If(ch(i, k) == ch(j, k), r, ch(i, k) < ch(j, k))
            return r
        base = 0
        for g, l in enumerate(groups):
            members = list(range(base, base + l))
            ps = [io.y('tocarry', base + k) for k in range(l)]
            for k in range(l):
                out.append(('group %d: position %d is group-local' % (g, k), z3.Or(ps[k] < 0, ps[k] >= l)))
            for k1 in range(l):
                for k2 in range(k1 + 1, l):
                    out.append(('group %d: positions %d and %d are distinct' % (g, k1, k2), ps[k1] == ps[k2]))

            def rel(p, q, f):
                return z3.Or([z3.And(p == a_, q == b_, f(members[a_], members[b_])) for a_ in range(l) for b_ in range(l)] + [z3.BoolVal(False)])
            first = (lambda i, j: lt(i, j)) if ascending else (lambda i, j: lt(j, i))
            for k in range(l - 1):
                out.append(('group %d: positions realise the order at %d' % (g, k), rel(ps[k + 1], ps[k], first)))
                if stable:
                    eq = z3.And(z3.Not(rel(ps[k], ps[k + 1], first)), z3.Not(rel(ps[k + 1], ps[k], first)))
                    out.append(('group %d: equal strings keep their input order at %d' % (g, k), z3.And(eq, ps[k] > ps[k + 1])))
            base += l
        return out
    return discharge(h, '%s groups=%s string lengths=%s asc=%d stable=%d' % (cname, list(groups), list(slens), ascending, stable), oracle, [], timeout_ms=30000,
                     extra=dict(bounds=dict(groups=list(groups), string_lengths=list(slens))))


def jobs_strings(tier):
    shapes = [((2,), (1, 1)), ((3,), (1, 1, 1)), ((2,), (2, 1)), ((2, 1), (1, 1, 2)), ((2,), (2, 2)), ((0,), ())]
    if tier != 'quick':
        shapes += [((3,), (2, 1, 2)), ((1, 2), (0, 1, 1)), ((2,), (0, 0)), ((3,), (0, 1, 0)), ((2, 2), (1, 1, 1, 1)), ((2,), (3, 2))]
    return [(h_argsort_strings, (g, sl, asc, stb), 900) for g, sl in shapes for asc in (True, False) for stb in (True, False)]


def jobs(tier):
    K = kspec.by_name()
    js = []
    for which in ('sort', 'argsort'):
        for ct in ('double', 'float', 'int64_t', 'uint32_t', 'int8_t'):
            for d in ('asc', 'desc'):
                js.append((h_comparator, (which, ct, d), 300))
    for t in ('int64', 'float64'):
        for asc in (True, False):
            js.append((h_stable_long, ('awkward_argsort_' + t, 17, asc), 240))
    types_q = ('int64', 'float64', 'int8', 'uint32', 'bool', 'float32')
    # thorough: every one- and two-segment shape up to length 3; segments of 4 (where the inlined std::sort of 64-bit keys can keep z3 busy for
    # most of an hour) only for the widest and the narrowest integer type
    int_lens = [(0,), (1,), (2,), (3,), (2, 1)] if tier == 'quick' else [l for r in (1, 2) for l in itertools.product(range(4), repeat=r)]
    long_lens = [] if tier == 'quick' else [(4,), (4, 1)]
    flt_lens = [(0,), (1,), (2,), (1, 2)] if tier == 'quick' else [(0,), (1,), (2,), (3,), (1, 2), (2, 2)]
    for kn, arg in (('awkward_sort', False), ('awkward_argsort', True)):
        for s in K[kn].specs:
            if tier == 'quick' and not any(s.name.endswith('_' + t) for t in types_q):
                continue
            isf = 'float' in s.name
            for lens in (flt_lens if isf else int_lens + (long_lens if s.name.endswith(('_int64', '_uint8')) else [])):
                for asc in (True, False):
                    for stable in (True, False):
                        js.append((h_sort, (s.name, lens, asc, stable, arg), 600 if tier == 'quick' else 1200))
    for s in K['awkward_quick_sort'].specs:
        if tier == 'quick' and not any(s.name.endswith('_' + t) for t in ('int64', 'float64', 'uint8')):
            continue
        isf = 'float' in s.name
        for lens in [(0,), (1,), (2,), (3,), (2, 2)] + ([(4,), (3, 3)] if tier == 'thorough' and not isf else []):
            if isf and max(lens) > 2 and tier == 'quick':
                continue
            for asc in (True, False):
                js.append((h_quick_sort, (s.name, lens, asc), 600 if tier == 'quick' else 1800))
        if isf:
            for asc in (True, False):
                js.append((h_quick_sort, (s.name, (2,), asc, True), 600))
    return js


def all_jobs(tier):
    from . import extra_misc, mnode
    return jobs(tier) + jobs_strings(tier) + extra_misc.jobs_for('C06', tier) + mnode.jobs_for('C06', tier)


def main(report, tier):
    return summarize(report, runner.run_tasks(all_jobs(tier)), 'C06')
