"""C06: sort/argsort kernels order every segment without moving data between segments.
The libstdc++ std::sort / std::stable_sort instantiations are part of the kernel's IR module and are executed symbolically
(for segments of <= 4 elements only their insertion-sort arms are feasible)."""
import itertools
import z3
from . import kspec, runner
from .oracle import Harness, discharge, guard, summarize
from .hlib import BV
from .mharness import BASE_STUBS
from .llbmc import NULL

ASSUMPTIONS = [
    'segments given by concrete offsets (case-split over segment lengths <= 3/4, <= 2 segments), element values symbolic in the full C type',
    'oracle: each output segment is a permutation of its input segment (multiset equality), ordered by the comparator the property states '
    '(non-decreasing / non-increasing, NaN first in both directions); argsort positions are segment-local, realise that order, and for '
    'stable=True equal keys keep their input order',
    'operator new is stubbed with a fresh byte buffer of the requested size (never NULL)',
    'outside: option re-insertion and axis plumbing in the C++ sort_next methods, string sorting kernels',
]


def stub_new(eng, fr, ins, st, name, argv):
    return eng.new_array(st.mem, eng.fresh_name('heap'), ('i', 8), argv[0], tag='heap')


def add_stubs(h):
    h.eng.stubs.update(BASE_STUBS)
    h.eng.stubs.update({'_Znwm': stub_new, '_ZnwmRKSt9nothrow_t': stub_new, '_Znam': stub_new})


def before(a, x, y, ascending):
    """strictly-before relation of the documented order: NaN first, then ascending/descending"""
    if a.kind == 'f':
        nx, ny = z3.fpIsNaN(x), z3.fpIsNaN(y)
        lt = z3.fpLT(x, y) if ascending else z3.fpGT(x, y)
        return z3.And(z3.Not(ny), z3.Or(nx, lt))
    if a.kind == 'b':
        return (x < y) if ascending else (x > y)
    return (x < y) if ascending else (x > y)


def same(a, x, y):
    return x == y


@guard
def h_sort(cname, lens, ascending, stable, arg):
    sp = kspec.spec_by_name()[cname]
    a = [x for x in sp.args if x.name == 'fromptr'][0]
    n = sum(lens)
    h = Harness(cname, unwind=60, max_instrs=3000000)
    add_stubs(h)
    offs = [0]
    for l in lens:
        offs.append(offs[-1] + l)
    h.scalar('length', 'int64_t', n); h.scalar('offsetslength', 'int64_t', len(offs))
    h.scalar('ascending', 'bool', ascending); h.scalar('stable', 'bool', stable)
    h.arr('fromptr', a.ctype, n, const=True)
    if a.kind == 'b':
        for i in range(n):
            h.assume(z3.ULE(h.raw_init('fromptr', i), 1))
    h.array('offsets', 'int64_t', len(offs), const=True, values=offs)
    if arg:
        h.arr('toptr', 'int64_t', n)
        h.kcall(cname, [('buf', 'toptr'), ('buf', 'fromptr'), 'length', ('buf', 'offsets'), 'offsetslength', 'ascending', 'stable'])
    else:
        h.scalar('parentslength', 'int64_t', n)
        h.arr('toptr', a.ctype, n)
        h.kcall(cname, [('buf', 'toptr'), ('buf', 'fromptr'), 'length', ('buf', 'offsets'), 'offsetslength', 'parentslength', 'ascending', 'stable'])

    def oracle(io):
        out = [('no error', io.err())]
        for s, l in enumerate(lens):
            base = offs[s]
            xs = [io.x('fromptr', base + k) for k in range(l)]
            if arg:
                ps = [io.y('toptr', base + k) for k in range(l)]
                for k in range(l):
                    out.append(('segment %d: position %d is segment-local' % (s, k), z3.Or(ps[k] < 0, ps[k] >= l)))
                for k1 in range(l):
                    for k2 in range(k1 + 1, l):
                        out.append(('segment %d: positions %d and %d are distinct' % (s, k1, k2), ps[k1] == ps[k2]))

                def val(p):
                    v = xs[0]
                    for k in range(1, l):
                        v = z3.If(p == k, xs[k], v)
                    return v
                ys = [val(p) for p in ps]
                for k in range(l - 1):
                    out.append(('segment %d: positions realise the order at %d' % (s, k), before(a, ys[k + 1], ys[k], ascending)))
                    if stable:
                        eq = z3.And(z3.Not(before(a, ys[k], ys[k + 1], ascending)), z3.Not(before(a, ys[k + 1], ys[k], ascending)))
                        out.append(('segment %d: equal keys keep their input order at %d' % (s, k), z3.And(eq, ps[k] > ps[k + 1])))
            else:
                ys = [io.y('toptr', base + k) for k in range(l)]
                for k in range(l - 1):
                    out.append(('segment %d: ordered at %d (NaN first)' % (s, k), before(a, ys[k + 1], ys[k], ascending)))
                for k in range(l):
                    cin = sum([z3.If(same(a, xs[j], xs[k]), 1, 0) for j in range(l)])
                    cout = sum([z3.If(same(a, ys[j], xs[k]), 1, 0) for j in range(l)])
                    out.append(('segment %d: element %d occurs as often in the output segment as in the input segment' % (s, k), cin != cout))
        return out
    return discharge(h, '%s lens=%s asc=%d stable=%d' % (cname, lens, ascending, stable), oracle, [], timeout_ms=30000,
                     extra=dict(bounds=dict(lens=list(lens))))


@guard
def h_quick_sort(cname, lens, ascending, nan=False):
    sp = kspec.spec_by_name()[cname]
    a = [x for x in sp.args if x.name == 'tmpptr'][0]
    n = sum(lens)
    h = Harness(cname, unwind=80, max_instrs=3000000)
    add_stubs(h)
    starts, stops = [], []
    o = 0
    for l in lens:
        starts.append(o); stops.append(o + l); o += l
    ML = 8
    h.scalar('ascending', 'bool', ascending); h.scalar('length', 'int64_t', len(lens)); h.scalar('maxlevels', 'int64_t', ML)
    h.arr('tmpptr', a.ctype, n)
    if a.kind == 'b':
        for i in range(n):
            h.assume(z3.ULE(h.raw_init('tmpptr', i), 1))
    if a.kind == 'f':
        # the unstable sort (quick_sort) does not implement the NaN-first convention: that input class is examined
        # separately (known finding) so that everything else stays a hard obligation
        nans = [z3.fpIsNaN(h.init('tmpptr', i)) for i in range(n)]
        h.assume(z3.Or(nans) if nan else z3.Not(z3.Or(nans + [z3.BoolVal(False)])))
    h.arr('tmpbeg', 'int64_t', ML); h.arr('tmpend', 'int64_t', ML)
    h.array('fromstarts', 'int64_t', len(lens), const=True, values=starts)
    h.array('fromstops', 'int64_t', len(lens), const=True, values=stops)
    h.kcall(cname, [('buf', 'tmpptr'), ('buf', 'tmpbeg'), ('buf', 'tmpend'), ('buf', 'fromstarts'), ('buf', 'fromstops'), 'ascending', 'length', 'maxlevels'])

    def oracle(io):
        out = [('no error for segments this small', io.err())]
        for s, l in enumerate(lens):
            base = starts[s]
            xs = [io.x('tmpptr', base + k) for k in range(l)]
            ys = [io.y('tmpptr', base + k) for k in range(l)]
            for k in range(l - 1):
                out.append(('segment %d: ordered at %d' % (s, k), before(a, ys[k + 1], ys[k], ascending)))
            for k in range(l):
                cin = sum([z3.If(same(a, xs[j], xs[k]), 1, 0) for j in range(l)])
                cout = sum([z3.If(same(a, ys[j], xs[k]), 1, 0) for j in range(l)])
                out.append(('segment %d: element %d keeps its multiplicity inside the segment' % (s, k), cin != cout))
        return out
    return discharge(h, '%s lens=%s asc=%d%s' % (cname, lens, ascending, ' with-NaN' if nan else ''), oracle, [], timeout_ms=30000, extra=dict(bounds=dict(lens=list(lens))))


def jobs(tier):
    K = kspec.by_name()
    js = []
    types_q = ('int64', 'float64', 'int8', 'uint32', 'bool', 'float32')
    int_lens = [(0,), (1,), (2,), (3,), (2, 1)] if tier == 'quick' else \
        [l for r in (1, 2) for l in itertools.product(range(5), repeat=r) if sum(l) <= 6]
    flt_lens = [(0,), (1,), (2,), (1, 2)] if tier == 'quick' else [(0,), (1,), (2,), (3,), (1, 2), (2, 2)]
    for kn, arg in (('awkward_sort', False), ('awkward_argsort', True)):
        for s in K[kn].specs:
            if tier == 'quick' and not any(s.name.endswith('_' + t) for t in types_q):
                continue
            isf = 'float' in s.name
            for lens in (flt_lens if isf else int_lens):
                for asc in (True, False):
                    for stable in (True, False):
                        js.append((h_sort, (s.name, lens, asc, stable, arg), 600 if tier == 'quick' else 1800))
    for s in K['awkward_quick_sort'].specs:
        if tier == 'quick' and not any(s.name.endswith('_' + t) for t in ('int64', 'float64', 'uint8')):
            continue
        isf = 'float' in s.name
        for lens in [(0,), (1,), (2,), (3,), (2, 2)] + ([(4,), (3, 3)] if tier == 'thorough' and not isf else []):
            if isf and max(lens) > 2 and tier == 'quick':
                continue
            for asc in (True, False):
                js.append((h_quick_sort, (s.name, lens, asc), 600 if tier == 'quick' else 1800))
        if isf:
            for asc in (True, False):
                js.append((h_quick_sort, (s.name, (2,), asc, True), 600))
    return js


def main(report, tier):
    return summarize(report, runner.run_tasks(jobs(tier)), 'C06')
