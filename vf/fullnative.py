"""Whole-library native replay: libawkward (every translation unit except io/json.cpp, whose rapidjson dependency is absent and is
replaced by vf/standin) + cpu-kernels, compiled from the tree under check and linked with the generic driver akrun.cpp, so that a
counterexample found at the C++ method level can be replayed through the public entry point on real node objects.
Objects are cached per translation unit by content hash (source + every header + flags)."""
import os, glob, subprocess, hashlib, tempfile, json
from concurrent.futures import ThreadPoolExecutor
from . import build

STANDIN = os.path.join(os.path.dirname(os.path.abspath(__file__)), 'standin')
DRIVER = os.path.join(os.path.dirname(os.path.abspath(__file__)), 'native_src', 'akrun.cpp')
FLAGS = ['-std=c++11', '-O1', '-g0', '-w']
SAN = ['-fsanitize=address,undefined', '-fno-omit-frame-pointer', '-fno-sanitize-recover=undefined', '-fno-sanitize=vptr', '-fno-sanitize=nonnull-attribute']


def lib_sources():
    srcs = sorted(glob.glob(os.path.join(build.REPO, 'src', 'cpu-kernels', '*.cpp')))
    for p in sorted(glob.glob(os.path.join(build.REPO, 'src', 'libawkward', '**', '*.cpp'), recursive=True)):
        if not p.endswith(os.path.join('io', 'json.cpp')):
            srcs.append(p)
    srcs.append(os.path.join(STANDIN, 'json_standin.cpp'))
    return srcs


def _obj(sp, flags):
    inc = build._inc() + ['-I' + STANDIN]
    o = os.path.join(build.CACHE, 'fobj_%s_%s.o' % (os.path.basename(sp).replace('.cpp', ''), build._key([sp], flags)))
    if os.path.exists(o):
        try:
            os.utime(o, None)          # in use: keep it away from the cache clean-up
        except OSError:
            pass
    if not os.path.exists(o):
        tmp = o + '.%d.tmp' % os.getpid()
        r = subprocess.run([build.CXX] + flags + build.DEFS + inc + ['-c', sp, '-o', tmp], capture_output=True, text=True)
        if r.returncode != 0:
            raise RuntimeError('object build failed for %s:\n%s' % (sp, r.stderr[-2000:]))
        os.replace(tmp, o)
    return o


def akrun_exe(sanitize=True):
    """-> path of the akrun executable for the current tree (built on demand, cached)"""
    os.makedirs(build.CACHE, exist_ok=True)
    flags = FLAGS + (SAN if sanitize else [])
    srcs = lib_sources() + [DRIVER]
    key = build._key(srcs, flags)
    exe = os.path.join(build.CACHE, 'akrun_%s' % key)
    if os.path.exists(exe):
        return exe
    lock = exe + '.lock'
    import fcntl
    with open(lock, 'w') as lf:
        fcntl.flock(lf, fcntl.LOCK_EX)
        if os.path.exists(exe):
            return exe
        with ThreadPoolExecutor(16) as ex:
            objs = list(ex.map(lambda s: _obj(s, flags), srcs))
        tmp = exe + '.%d.tmp' % os.getpid()
        r = subprocess.run([build.CXX] + [f for f in flags if f.startswith('-fsanitize') or f.startswith('-fno-omit')] + objs + ['-o', tmp, '-lpthread'], capture_output=True, text=True)
        if r.returncode != 0:
            raise RuntimeError('akrun link failed:\n' + r.stderr[-3000:])
        os.replace(tmp, exe)
    return exe


def link_driver(driver_text, tag, sanitize=True):
    """compile a C++ driver and link it with the whole natively built library (objects shared with akrun) -> executable path (cached)"""
    os.makedirs(build.CACHE, exist_ok=True)
    flags = FLAGS + (SAN if sanitize else [])
    srcs = lib_sources()
    h = hashlib.sha256(driver_text.encode()).hexdigest()[:12]
    exe = os.path.join(build.CACHE, 'drvf_%s_%s_%s' % (tag, h, build._key(srcs, flags)))
    if os.path.exists(exe):
        return exe
    with ThreadPoolExecutor(16) as ex:
        objs = list(ex.map(lambda s: _obj(s, flags), srcs))
    d = tempfile.mkdtemp(prefix='vfdrvf', dir=build.CACHE)
    try:
        dp = os.path.join(d, 'driver.cpp')
        with open(dp, 'w') as f:
            f.write(driver_text)
        tmp = exe + '.%d.tmp' % os.getpid()
        r = subprocess.run([build.CXX] + flags + build.DEFS + build._inc() + ['-I' + STANDIN, dp] + objs + ['-o', tmp, '-lpthread'], capture_output=True, text=True)
        if r.returncode != 0:
            raise RuntimeError('driver link failed:\n' + r.stderr[-3000:])
        os.replace(tmp, exe)
    finally:
        import shutil
        shutil.rmtree(d, ignore_errors=True)
    return exe


def akrun(program, timeout=60, sanitize=True):
    """run a stack program -> (kind, payload): ('OK', python value) | ('ERR', message) | ('INVALID', text) | ('CRASH', log) | ('TIMEOUT', '')"""
    exe = akrun_exe(sanitize)
    with tempfile.NamedTemporaryFile('w', suffix='.ak', dir=build.CACHE, delete=False) as f:
        f.write(program)
        path = f.name
    try:
        env = dict(os.environ, ASAN_OPTIONS='detect_leaks=0:exitcode=86:allocator_may_return_null=1', UBSAN_OPTIONS='halt_on_error=1:exitcode=87:print_stacktrace=1')
        try:
            r = subprocess.run([exe, path], capture_output=True, text=True, timeout=timeout, env=env, errors='replace')
        except subprocess.TimeoutExpired:
            return 'TIMEOUT', ''
    finally:
        os.remove(path)
    out = r.stdout.strip().splitlines()
    if r.returncode != 0 or not out:
        return 'CRASH', 'exit %d: %s' % (r.returncode, r.stderr[-1500:])
    line = out[-1]
    kind, _, rest = line.partition(' ')
    if kind == 'OK':
        try:
            return 'OK', json.loads(rest.replace('NaN', '"nan"').replace('-Infinity', '"-inf"').replace('Infinity', '"inf"'))
        except ValueError:
            return 'OK', rest
    return kind, rest


# ------------------------------------------------------------------------------------------------ program builders (Python side)
def ints(xs):
    return '%d %s' % (len(xs), ' '.join(str(int(x)) for x in xs))
