"""C19 at the program level: whole AwkwardForth programs (control words, loops, user words, variables, typed reads) executed
symbolically through the real ForthMachineOf<T,I>::resume() / step() from the IR.  The program text is concrete (a template) and is
compiled by the repository's own compiler run natively; the data it works on - initial stack cells, input bytes - is symbolic.
Decided: (i) the final state equals the documented semantics stated independently per template; (ii) step independence: one
resume() to completion, repeated step() calls, and the same program with `pause` words resumed until done reach the same final state."""
import os, re, subprocess, json, itertools
import z3
from . import build, runner
from .mharness import MCtx, mdischarge, module_of, stub_noop
from .oracle import guard, summarize
from .llbmc import Ptr, NULL, ptr_cases, bv64, Unsupported, State
from .c19 import FM, FIB, FOB, codes, errors, layout

NATIVE = r'''
#include <cstdio>
#include <cstdlib>
#include <cstring>
#include <map>
#include <set>
#include <stack>
#include <string>
#include <vector>
#include <memory>
#include <cinttypes>
#include <chrono>
#include <stdexcept>
#include <sstream>
#include <iostream>
#include <complex>
#include <mutex>
#include <functional>
#include <algorithm>
#include <typeinfo>
#define private public
#define protected public
#include "awkward/forth/ForthMachine.h"
#undef private
#undef protected
using namespace awkward;
template <typename V> static void pv(const char* name, const V& v) {
  printf("\"%s\": [", name); bool f = true; for (auto x : v) { printf("%s%lld", f ? "" : ", ", (long long)x); f = false; } printf("]");
}
template <typename T> int go(int argc, char** argv) {
  const char* mode = argv[2]; const char* src = argv[3]; int64_t maxdepth = atoll(argv[4]); int64_t recdepth = atoll(argv[5]);
  const char* hexin = argc > 6 ? argv[6] : "";
  try {
    ForthMachineOf<T, int32_t> vm(std::string(src), maxdepth, recdepth, 16, 1.5);
    if (!strcmp(mode, "dump")) {
      printf("{"); pv("bytecodes", vm.bytecodes_); printf(", "); pv("offsets", vm.bytecodes_offsets_); printf(", "); pv("dictionary", vm.dictionary_bytecodes_);
      printf(", \"nvars\": %d, \"ninputs\": %d, \"noutputs\": %d, ", (int)vm.variables_.size(), (int)vm.input_names_.size(), (int)vm.output_names_.size());
      pv("output_dtypes", std::vector<int>()); printf(", \"dtypes\": ["); for (size_t i = 0; i < vm.output_dtypes_.size(); i++) printf("%s%d", i ? ", " : "", (int)vm.output_dtypes_[i]);
      printf("]}\n"); return 0;
    }
    size_t n = strlen(hexin) / 2;
    std::shared_ptr<void> buf(malloc(n ? n : 1), free);
    for (size_t i = 0; i < n; i++) { unsigned b; sscanf(hexin + 2 * i, "%2x", &b); ((uint8_t*)buf.get())[i] = (uint8_t)b; }
    std::map<std::string, std::shared_ptr<ForthInputBuffer>> inputs;
    for (auto nm : vm.input_names_) inputs[nm] = std::make_shared<ForthInputBuffer>(buf, 0, (int64_t)n);
    util::ForthError err = util::ForthError::none;
    long calls = 0;
    if (!strcmp(mode, "run")) { err = vm.run(inputs); calls = 1;
      while (err == util::ForthError::none && !vm.is_done() && calls < 10000) { err = vm.resume(); calls++; } }
    else if (!strcmp(mode, "call")) { err = vm.run(inputs); calls = 1;      // between a pause and its resume the user calls a word (index 0) that leaves everything as it was
      while (err == util::ForthError::none && !vm.is_done() && calls < 10000) { err = vm.call((int64_t)0); if (err != util::ForthError::none) break; err = vm.resume(); calls++; } }
    else { vm.begin(inputs); while (!vm.is_done() && vm.current_error_ == util::ForthError::none && calls < 10000) { err = vm.step(); calls++; } err = vm.current_error_; }
    printf("{\"err\": %d, \"calls\": %ld, \"done\": %d, ", (int)err, calls, (int)vm.is_done()); pv("stack", vm.stack()); printf(", "); pv("variables", vm.variables_);
    printf(", \"inpos\": ["); for (size_t i = 0; i < vm.current_inputs_.size(); i++) printf("%s%lld", i ? ", " : "", (long long)vm.current_inputs_[i].get()->pos());
    printf("], \"outputs\": [");
    for (size_t i = 0; i < vm.current_outputs_.size(); i++) {
      ForthOutputBuffer* o = vm.current_outputs_[i].get(); int64_t len = o->len(); std::shared_ptr<void> p = o->ptr();
      int isz = 0; switch (vm.output_dtypes_[i]) { case util::dtype::boolean: case util::dtype::int8: case util::dtype::uint8: isz = 1; break; case util::dtype::int16: case util::dtype::uint16: isz = 2; break;
        case util::dtype::int32: case util::dtype::uint32: case util::dtype::float32: isz = 4; break; default: isz = 8; }
      printf("%s\"", i ? ", " : ""); for (int64_t k = 0; k < len * isz; k++) printf("%02x", ((uint8_t*)p.get())[k]); printf("\"");
    }
    printf("], \"inbytes\": \""); for (size_t i = 0; i < n; i++) printf("%02x", ((uint8_t*)buf.get())[i]); printf("\"}\n");
  } catch (std::exception& e) { std::string w = e.what(); for (auto& ch : w) if (ch == '\n' || ch == '"') ch = ' '; printf("{\"compile_error\": \"%s\"}\n", w.c_str()); }
  return 0;
}
int main(int argc, char** argv) { return atoi(argv[1]) == 32 ? go<int32_t>(argc, argv) : go<int64_t>(argc, argv); }
'''


def native(T, mode, src, maxdepth=16, recdepth=8, hexin=''):
    exe = build.compile_objs_driver(NATIVE, [FM, FIB, FOB])
    env = dict(os.environ, ASAN_OPTIONS='detect_leaks=0:exitcode=86', UBSAN_OPTIONS='halt_on_error=1:exitcode=87:print_stacktrace=0')
    try:
        r = subprocess.run([exe, str(T), mode, src, str(maxdepth), str(recdepth), hexin], capture_output=True, text=True, timeout=30, env=env, errors='replace')
    except subprocess.TimeoutExpired:
        return dict(status='timeout')
    if r.returncode != 0:
        lines = [l for l in r.stderr.splitlines() if 'runtime error' in l or 'ERROR' in l or 'SUMMARY' in l]
        return dict(status='crash(%d)' % r.returncode, log=' | '.join(lines[:2]) or r.stderr[-200:])
    try:
        d = json.loads(r.stdout.strip().splitlines()[-1])
    except (ValueError, IndexError):
        return dict(status='garbled', log=r.stdout[-200:])
    d['status'] = 'ok'
    return d


WRAP = r'''
#include <cstdio>
#include <cstdlib>
#include <cstring>
#include <map>
#include <set>
#include <stack>
#include <string>
#include <vector>
#include <memory>
#include <chrono>
#include <stdexcept>
#include <sstream>
#include <iostream>
#include <complex>
#include <mutex>
#include <functional>
#include <algorithm>
#include <typeinfo>
#define private public
#define protected public
#include "awkward/forth/ForthMachine.h"
#undef private
#undef protected
using namespace awkward;
// harness loops around the real step() / resume(): call them the way a user does, until the program is done or an error is set
extern "C" void vf_steps32(ForthMachineOf<int32_t, int32_t>* vm, int64_t n) { for (int64_t k = 0; k < n; k++) { if (vm->is_done() || vm->current_error_ != util::ForthError::none) break; vm->step(); } }
extern "C" void vf_steps64(ForthMachineOf<int64_t, int32_t>* vm, int64_t n) { for (int64_t k = 0; k < n; k++) { if (vm->is_done() || vm->current_error_ != util::ForthError::none) break; vm->step(); } }
extern "C" void vf_calls32(ForthMachineOf<int32_t, int32_t>* vm, int64_t n) { for (int64_t k = 0; k < n; k++) { if (vm->is_done() || vm->current_error_ != util::ForthError::none) break; if (k > 0) { vm->call((int64_t)0); if (vm->current_error_ != util::ForthError::none) break; } vm->resume(); } }
extern "C" void vf_calls64(ForthMachineOf<int64_t, int32_t>* vm, int64_t n) { for (int64_t k = 0; k < n; k++) { if (vm->is_done() || vm->current_error_ != util::ForthError::none) break; if (k > 0) { vm->call((int64_t)0); if (vm->current_error_ != util::ForthError::none) break; } vm->resume(); } }
extern "C" void vf_resumes32(ForthMachineOf<int32_t, int32_t>* vm, int64_t n) { for (int64_t k = 0; k < n; k++) { if (vm->is_done() || vm->current_error_ != util::ForthError::none) break; vm->resume(); } }
extern "C" void vf_resumes64(ForthMachineOf<int64_t, int32_t>* vm, int64_t n) { for (int64_t k = 0; k < n; k++) { if (vm->is_done() || vm->current_error_ != util::ForthError::none) break; vm->resume(); } }
'''

MAXDEPTH, RECDEPTH, OUTCAP = 8, 6, 12
CALLED_WORD = ': vfnop 1 drop ; '


def wrap_module():
    from .irparse import Module
    return Module(build.compile_ir_text(WRAP, 'forthwrap', [FM, 'include/awkward/forth/ForthMachine.h']))


def _vec(ptr, n):
    end = Ptr(ptr.obj, z3.BitVecVal(n, 64))
    return [(ptr, 8), (end, 8), (end, 8)]


def _const_arr(vals, bits):
    a = z3.K(z3.BitVecSort(64), z3.BitVecVal(0, bits))
    for i, v in enumerate(vals):
        a = z3.Store(a, z3.BitVecVal(i, 64), z3.BitVecVal(v, bits))
    return a


def stub_clock(eng, fr, ins, st, name, argv):
    return z3.FreshConst(z3.BitVecSort(64), 'clock')


def build_machine(T, dump, stack_cells, inbytes=None, tag=''):
    """machine state right after begin() for the compiled program `dump`; stack_cells: list of z3 BV(T) (bottom first)"""
    off, tyname = layout(T)
    m = MCtx([FM, FIB, FOB], unwind=400, max_instrs=2000000, stubs={'_ZNSt6chrono3_V212system_clock3nowEv': stub_clock})
    m.eng.mods.append(wrap_module())
    BVc = lambda v, b=64: z3.BitVecVal(v, b)
    sarr = z3.K(z3.BitVecSort(64), BVc(0, T))
    for i, c in enumerate(stack_cells):
        sarr = z3.Store(sarr, BVc(i), c)
    stack = m.array('stack', ('i', T), MAXDEPTH, arr=sarr)
    bc = m.array('bytecodes', ('i', 32), len(dump['bytecodes']), arr=_const_arr(dump['bytecodes'], 32), const=True)
    offs = m.array('bcoffsets', ('i', 64), len(dump['offsets']), arr=_const_arr(dump['offsets'], 64), const=True)
    dbc = m.array('dictbc', ('i', 32), max(1, len(dump['dictionary'])), arr=_const_arr(dump['dictionary'] or [0], 32), const=True)
    which = m.array('which', ('i', 64), RECDEPTH, arr=z3.K(z3.BitVecSort(64), BVc(0)))
    where = m.array('where', ('i', 64), RECDEPTH, arr=z3.K(z3.BitVecSort(64), BVc(0)))
    dorec = m.array('do_rec', ('i', 64), RECDEPTH, arr=z3.K(z3.BitVecSort(64), BVc(0)))
    dostop = m.array('do_stop', ('i', 64), RECDEPTH, arr=z3.K(z3.BitVecSort(64), BVc(0)))
    doi = m.array('do_i', ('i', 64), RECDEPTH, arr=z3.K(z3.BitVecSort(64), BVc(0)))
    nv = max(1, dump['nvars'])
    vars_ = m.array('vars', ('i', T), nv, arr=z3.K(z3.BitVecSort(64), BVc(0, T)))
    dq = m.array('dq', ('i', 64), 64, arr=z3.K(z3.BitVecSort(64), BVc(0)))
    dqmap = m.array('dqmap', ('ptr', 64), 8, arr=[NULL, NULL, NULL, Ptr('dq', BVc(0)), NULL, NULL, NULL, NULL])
    i64 = lambda v: (BVc(v), 8)
    cells = {off['stack_buffer_']: (stack, 8), off['stack_depth_']: i64(len(stack_cells)), off['stack_max_depth_']: i64(MAXDEPTH),
             off['is_ready_']: (BVc(1, 8), 1), off['current_which_']: (which, 8), off['current_where_']: (where, 8),
             off['recursion_current_depth_']: i64(1), off['recursion_max_depth_']: i64(RECDEPTH),
             off['do_recursion_depth_']: (dorec, 8), off['do_stop_']: (dostop, 8), off['do_i_']: (doi, 8), off['do_current_depth_']: i64(0),
             off['current_error_']: (BVc(0, 32), 4), off['count_instructions_']: i64(0), off['count_reads_']: i64(0),
             off['count_writes_']: i64(0), off['count_nanoseconds_']: i64(0)}
    for k, c in enumerate(_vec(bc, len(dump['bytecodes']))):
        cells[off['bytecodes_'] + 8 * k] = c
    for k, c in enumerate(_vec(offs, len(dump['offsets']))):
        cells[off['bytecodes_offsets_'] + 8 * k] = c
    for k, c in enumerate(_vec(vars_, dump['nvars'])):
        cells[off['variables_'] + 8 * k] = c
    for k, c in enumerate(_vec(dbc, len(dump['dictionary']))):          # what call(index) looks the word up in
        cells[off['dictionary_bytecodes_'] + 8 * k] = c
    # recursion_target_depth_: std::stack<int64_t> over a deque holding the single entry 0 (what begin() pushes)
    d0 = off['recursion_target_depth_']
    dqc = [(Ptr('dqmap', BVc(0)), 8), i64(8),
           (Ptr('dq', BVc(0)), 8), (Ptr('dq', BVc(0)), 8), (Ptr('dq', BVc(64)), 8), (Ptr('dqmap', BVc(3)), 8),
           (Ptr('dq', BVc(1)), 8), (Ptr('dq', BVc(0)), 8), (Ptr('dq', BVc(64)), 8), (Ptr('dqmap', BVc(3)), 8)]
    for k, c in enumerate(dqc):
        cells[d0 + 8 * k] = c
    # inputs
    nin = dump['ninputs']
    if nin:
        n = len(inbytes)
        ia = z3.K(z3.BitVecSort(64), BVc(0, 8))
        for i, b in enumerate(inbytes):
            ia = z3.Store(ia, BVc(i), b)
        m.array('inbuf', ('i', 8), n, arr=ia)          # not const: repeated byte-swapped reads swap in place and swap back
        parr = []
        for k in range(nin):
            m.record('ib%d' % k, {0: (Ptr('inbuf', BVc(0)), 8), 8: (NULL, 8), 16: i64(0), 24: i64(n), 32: i64(0)})
            parr += [Ptr('ib%d' % k, 0), NULL]
        ins_ = m.array('inputs', ('ptr', 64), 2 * nin, arr=parr, const=True)
        for k, c in enumerate(_vec(ins_, 2 * nin)):
            cells[off['current_inputs_'] + 8 * k] = c
    # outputs: real ForthOutputBufferOf<T> objects (vtable from ForthOutputBuffer.cpp), empty, with room for OUTCAP items (no reallocation)
    DT = {4: ('i', 32, 'i'), 5: ('l', 64, 'l'), 6: ('h', 8, 'h'), 2: ('a', 8, 'a'), 3: ('s', 16, 's'), 8: ('j', 32, 'j'), 9: ('m', 64, 'm'), 7: ('t', 16, 't')}
    nout = dump['noutputs']
    if nout:
        parr = []
        st0 = State({}, m.mem, z3.BoolVal(True))
        for k, dt in enumerate(dump['dtypes']):
            if dt not in DT:
                raise Unsupported('output dtype %d is outside the program harness (integer outputs only)' % dt)
            mang, bits, _ = DT[dt]
            vt = m.eng.global_ptr(st0, '@_ZTVN7awkward19ForthOutputBufferOfI%sEE' % mang, module_of(FOB))
            m.array('outbuf%d' % k, ('i', bits), OUTCAP, arr=z3.K(z3.BitVecSort(64), BVc(0, bits)))
            m.record('ob%d' % k, {0: (Ptr(vt.obj, 16), 8), 8: i64(0), 16: i64(OUTCAP), 24: (z3.FPVal(1.5, z3.Float64()), 8), 32: (Ptr('outbuf%d' % k, BVc(0)), 8), 40: (NULL, 8)})
            parr += [Ptr('ob%d' % k, 0), NULL]
        outs_ = m.array('outputs', ('ptr', 64), 2 * nout, arr=parr, const=True)
        for k, c in enumerate(_vec(outs_, 2 * nout)):
            cells[off['current_outputs_'] + 8 * k] = c
    this = m.record('vm', cells)
    return m, this, off


def final_state(m, off, T, nvars, nin, nout=0):
    g = lambda name: m.cell('vm', off[name])
    st = m.mem.o['stack'].arr
    outs = []
    for k in range(nout):
        arr = m.mem.o['outbuf%d' % k].arr
        outs.append(dict(len=m.cell('ob%d' % k, 8), cells=[z3.Select(arr, z3.BitVecVal(i, 64)) for i in range(OUTCAP)]))
    return dict(outs=outs, err=g('current_error_'), depth=g('stack_depth_'), rec=g('recursion_current_depth_'),
                cells=[z3.Select(st, z3.BitVecVal(k, 64)) for k in range(MAXDEPTH)],
                vars=[z3.Select(m.mem.o['vars'].arr, z3.BitVecVal(k, 64)) for k in range(nvars)],
                inpos=[m.cell('ib%d' % k, 32) for k in range(nin)])


def run_mode(T, src, mode, stack_cells, inbytes, nsteps, pre=()):
    dump = native(T, 'dump', src, MAXDEPTH, RECDEPTH)
    if dump.get('status') != 'ok' or 'compile_error' in dump:
        raise Unsupported('the repository compiler rejects the template %r: %s' % (src, dump))
    m, this, off = build_machine(T, dump, stack_cells, inbytes)
    m.assume(*pre)          # before the run: loop trip counts are bounded by the precondition, not by the unwinding bound
    fn = {'run': 'vf_resumes%d', 'step': 'vf_steps%d', 'call': 'vf_calls%d'}[mode] % T
    m.call(fn, [this, z3.BitVecVal(nsteps, 64)])
    fs = final_state(m, off, T, dump['nvars'], dump['ninputs'], dump['noutputs'])
    return m, fs, dump


# ---------------------------------------------------------------------------------------------- templates
def _t(cond, W):
    return z3.If(cond, z3.BitVecVal(-1, W), z3.BitVecVal(0, W))


class Tmpl:
    """src: program text run on the initial stack `args` (symbolic cells); pre(args) -> assumptions; expect(args, W) -> list of
    (guard, [final stack cells]) cases (guards cover the precondition) ; paused: the same program with pause words inserted"""
    calls = True

    def __init__(self, name, src, nargs, pre, expect, paused=(), steps=90, vars_expect=None, halt_cases=None, nbytes=0, inpos=None, outs=None):
        self.name, self.src, self.nargs, self.pre, self.expect, self.paused, self.steps, self.vars_expect, self.halt_cases, self.nbytes, self.inpos, self.outs = name, src, nargs, pre, expect, paused, steps, vars_expect, halt_cases, nbytes, inpos, outs


def _small(*xs):
    return [z3.And(x >= -1000, x <= 1000) for x in xs]          # loop bounds: small enough that i never wraps


def _loop_cases(stop, start, step, W, item=lambda i: [i], maxn=3, tail=()):
    """do-loop semantics: i runs start, start+step, ... while i < stop (no iteration when start >= stop)"""
    cases = []
    for n in range(maxn + 1):
        if n == 0:
            g = start >= stop
        else:
            g = z3.And(start + (n - 1) * step < stop, start + n * step >= stop)
        cells = []
        for k in range(n):
            cells += item(start + k * step)
        cases.append((g, cells + list(tail)))
    return cases


def templates(W):
    BVc = lambda v: z3.BitVecVal(v, W)
    T = []
    T.append(Tmpl('do-loop', 'do i loop', 2, lambda s: _small(*s) + [s[0] - s[1] <= 3],
                  lambda s: _loop_cases(s[0], s[1], 1, W), paused=['do i pause loop', 'do pause i loop', 'pause do i loop pause']))
    T.append(Tmpl('do-+loop', 'do i 2 +loop', 2, lambda s: _small(*s) + [s[0] - s[1] <= 5],
                  lambda s: _loop_cases(s[0], s[1], 2, W), paused=['do i 2 pause +loop', 'do i pause 2 +loop', 'do pause i 2 +loop']))
    T.append(Tmpl('do-+loop-var', 'variable st st ! do i st @ +loop', 3, lambda s: _small(*s) + [s[0] - s[1] <= 4, s[2] >= 1, s[2] <= 3],
                  lambda s: [(z3.And(s[2] == k, g), c) for k in (1, 2, 3) for g, c in _loop_cases(s[0], s[1], k, W, maxn=4)],
                  paused=['variable st st ! do i st @ pause +loop']))
    T.append(Tmpl('nested-do', 'do 2 0 do i j + loop 9 loop', 2, lambda s: _small(*s) + [s[0] - s[1] <= 2],
                  lambda s: _loop_cases(s[0], s[1], 1, W, item=lambda j: [j, 1 + j, BVc(9)], maxn=2),
                  paused=['do 2 0 do i j + pause loop 9 loop', 'do 2 0 do i j + loop 9 pause loop']))
    T.append(Tmpl('if-else', 'if 10 else 20 then 30', 1, lambda s: [], lambda s: [(s[0] != 0, [BVc(10), BVc(30)]), (s[0] == 0, [BVc(20), BVc(30)])],
                  paused=['if 10 pause else 20 pause then 30', 'if pause 10 else pause 20 then pause 30']))
    T.append(Tmpl('if', 'if 10 then 30', 1, lambda s: [], lambda s: [(s[0] != 0, [BVc(10), BVc(30)]), (s[0] == 0, [BVc(30)])], paused=['if 10 pause then 30']))
    T.append(Tmpl('begin-until', 'begin 1- dup 0= until 7', 1, lambda s: [s[0] >= 1, s[0] <= 3], lambda s: [(s[0] == n, [BVc(0), BVc(7)]) for n in (1, 2, 3)],
                  paused=['begin 1- dup 0= pause until 7', 'begin pause 1- dup 0= until 7']))
    T.append(Tmpl('begin-while', 'begin dup while 1- repeat 7', 1, lambda s: [s[0] >= 0, s[0] <= 3], lambda s: [(s[0] == n, [BVc(0), BVc(7)]) for n in (0, 1, 2, 3)],
                  paused=['begin dup while 1- pause repeat 7', 'begin dup pause while 1- repeat 7']))
    T.append(Tmpl('word-exit', ': f dup 1 = if exit then 100 ; f 5', 1, lambda s: [],
                  lambda s: [(s[0] == 1, [s[0], BVc(5)]), (s[0] != 1, [s[0], BVc(100), BVc(5)])],
                  paused=[': f dup 1 = if pause exit then 100 ; f 5', ': f dup 1 = if exit then 100 pause ; f pause 5']))
    T.append(Tmpl('exit-in-loop', ': f dup 1 = if exit then 100 ; do i f loop 5', 2, lambda s: _small(*s) + [s[0] - s[1] <= 2],
                  lambda s: [(z3.And(g, z3.And([(s[1] + k == 1) == bool(bits >> k & 1) for k in range(n)] + [z3.BoolVal(True)])),
                              sum(([s[1] + k] if bits >> k & 1 else [s[1] + k, BVc(100)] for k in range(n)), []) + [BVc(5)])
                             for n, (g, _) in enumerate(_loop_cases(s[0], s[1], 1, W, maxn=2)) for bits in range(1 << n)]))
    T.append(Tmpl('exit-deep', ': f 3 0 do i over = if exit then loop 100 ; f 5', 1, lambda s: [],
                  lambda s: [(s[0] == n, [s[0], BVc(5)]) for n in (0, 1, 2)] + [(z3.Not(z3.And(s[0] >= 0, s[0] < 3)), [s[0], BVc(100), BVc(5)])],
                  paused=[': f 3 0 do i over = if pause exit then loop 100 ; f 5']))
    def _elil(s):
        out = []
        for c0 in (-1, 0, 1, 2, 3):
            for n in (0, 1, 2):
                cells = []
                for k in range(n):
                    v = c0 + k
                    cells += [BVc(v)] if 0 <= v < 3 else [BVc(v), BVc(100)]
                out.append((z3.And(s[1] == c0, s[0] == c0 + n), cells + [BVc(5)]))
        return out
    T.append(Tmpl('exit-loop-in-loop', ': f 3 0 do i over = if exit then loop 100 ; do i f loop 5', 2, lambda s: [s[1] >= -1, s[1] <= 3, s[0] - s[1] >= 0, s[0] - s[1] <= 2], _elil,
                  paused=[': f 3 0 do i over = if exit then pause loop 100 ; do i f pause loop 5']))
    T.append(Tmpl('variables', 'variable v variable w v ! v @ 1 v +! v @ w @', 1, lambda s: [], lambda s: [(z3.BoolVal(True), [s[0], s[0] + 1, BVc(0)])],
                  vars_expect=lambda s: [s[0] + 1, BVc(0)], paused=['variable v variable w v ! pause v @ 1 v +! pause v @ w @']))
    by = [z3.BitVec('inb%d' % k, 8) for k in range(16)]

    def num(k0, n, big, signed):
        bs = by[k0:k0 + n]
        v = z3.Concat(*(bs if big else list(reversed(bs)))) if n > 1 else bs[0]
        if v.size() > W:
            return z3.Extract(W - 1, 0, v)
        if v.size() < W:
            return z3.SignExt(W - v.size(), v) if signed else z3.ZeroExt(W - v.size(), v)
        return v
    for code, n, signed in (('b', 1, True), ('B', 1, False), ('h', 2, True), ('H', 2, False), ('i', 4, True), ('I', 4, False), ('q', 8, True), ('Q', 8, False)):
        for big in (False, True):
            w = ('!' if big else '') + code
            T.append(Tmpl('read-' + w, 'input s s %s-> stack s %s-> stack s pos' % (w, ('!' if big else '') + 'b'), 0, lambda s: [],
                          (lambda n=n, big=big, signed=signed: lambda s: [(z3.BoolVal(True), [num(0, n, big, signed), num(n, 1, big, True), BVc(n + 1)])])(),
                          nbytes=10, inpos=n + 1, paused=['input s s %s-> stack pause s %s-> stack s pos' % (w, ('!' if big else '') + 'b')]))
        if n > 1:
            for big in (False, True):
                w = '#' + ('!' if big else '') + code
                T.append(Tmpl('read-' + w, 'input s 2 s %s-> stack s pos s len' % w, 0, lambda s: [],
                              (lambda n=n, big=big, signed=signed: lambda s: [(z3.BoolVal(True), [num(0, n, big, signed), num(n, n, big, signed), BVc(2 * n), BVc(max(10, 2 * n))])])(),
                              nbytes=max(10, 2 * n), inpos=2 * n))
    T.append(Tmpl('read-bool', 'input s s ?-> stack s ?-> stack', 0, lambda s: [z3.ULE(by[0], 1), z3.ULE(by[1], 1)], lambda s: [(z3.And(by[0] == a, by[1] == b), [BVc(a), BVc(b)]) for a in (0, 1) for b in (0, 1)], nbytes=10, inpos=2))
    T.append(Tmpl('read-beyond', 'input s 7 s seek s i-> stack', 0, lambda s: [], lambda s: [(z3.BoolVal(True), [], 'read_beyond')], nbytes=10, inpos=7))
    T.append(Tmpl('seek-skip', 'input s s seek 2 s skip s pos -1 s skip s pos s b-> stack', 1, lambda s: [s[0] >= 0, s[0] <= 7],
                  lambda s: [(s[0] == k, [BVc(k + 2), BVc(k + 1), num(k + 1, 1, False, True)]) for k in range(8)], nbytes=10))
    def cut(v, bits):
        return z3.Extract(bits - 1, 0, v) if v.size() > bits else (z3.SignExt(bits - v.size(), v) if v.size() < bits else v)
    T.append(Tmpl('write-stack', 'output o int32 output p int64 dup o <- stack dup p <- stack 7 o <- stack o len p len', 1, lambda s: [],
                  lambda s: [(z3.BoolVal(True), [s[0], BVc(2), BVc(1)])], outs=lambda s: [[cut(s[0], 32), z3.BitVecVal(7, 32)], [cut(s[0], 64)]],
                  paused=['output o int32 output p int64 dup o <- stack pause dup p <- stack 7 o <- stack pause o len p len']))
    T.append(Tmpl('write-add', 'output o int64 3 o <- stack o +<- stack 10 o +<- stack', 1, lambda s: [],
                  lambda s: [(z3.BoolVal(True), [])], outs=lambda s: [[z3.BitVecVal(3, 64), 3 + cut(s[0], 64), 13 + cut(s[0], 64)]]))
    T.append(Tmpl('read-direct', 'input s output o int32 output q uint8 s i-> o s h-> o s !h-> o s B-> q s pos', 0, lambda s: [],
                  lambda s: [(z3.BoolVal(True), [BVc(9)])], nbytes=10, inpos=9,
                  outs=lambda s: [[cut(num(0, 4, False, True), 32) if W >= 32 else num(0, 4, False, True), z3.SignExt(16, z3.Concat(by[5], by[4])), z3.SignExt(16, z3.Concat(by[6], by[7]))], [by[8]]],
                  paused=['input s output o int32 output q uint8 s i-> o pause s h-> o s !h-> o pause s B-> q s pos']))
    T.append(Tmpl('read-direct-repeated', 'input s output o int32 3 s #!h-> o s pos', 0, lambda s: [], lambda s: [(z3.BoolVal(True), [BVc(6)])], nbytes=10, inpos=6,
                  outs=lambda s: [[z3.SignExt(16, z3.Concat(by[2 * i], by[2 * i + 1])) for i in range(3)]]))
    for code, nb_, signed in (('I', 4, False), ('i', 4, True), ('H', 2, False), ('q', 8, True)):
        T.append(Tmpl('read-direct-repeated-' + code, 'input s output o int64 2 s #!%s-> o s pos' % code, 0, lambda s: [], (lambda nb_=nb_: lambda s: [(z3.BoolVal(True), [BVc(2 * nb_)])])(), nbytes=16, inpos=2 * nb_,
                      outs=(lambda nb_=nb_, signed=signed: lambda s: [[(z3.SignExt if signed else z3.ZeroExt)(64 - 8 * nb_, z3.Concat(*by[i * nb_:(i + 1) * nb_])) if nb_ < 8 else z3.Concat(*by[i * nb_:(i + 1) * nb_]) for i in range(2)]])()))
    T.append(Tmpl('rewind', 'output o int32 1 o <- stack 2 o <- stack 3 o <- stack 2 o rewind o len', 0, lambda s: [], lambda s: [(z3.BoolVal(True), [BVc(1)])],
                  outs=lambda s: [[z3.BitVecVal(1, 32)]]))
    # variable-length and bit-packed reads
    def varint(k):
        v = z3.BitVecVal(0, 64)
        for i in range(k):
            v = v | (z3.ZeroExt(56, by[i] & 0x7f) << (7 * i))
        return v

    def cutw(v):
        return z3.Extract(W - 1, 0, v) if W < v.size() else v

    def vguard(k):
        return z3.And([by[i] & 0x80 != 0 for i in range(k - 1)] + [by[k - 1] & 0x80 == 0])
    T.append(Tmpl('read-varint', 'input s s varint-> stack s pos', 0, lambda s: [z3.Or([vguard(k) for k in (1, 2, 3, 9)])],
                  lambda s: [(vguard(k), [cutw(varint(k)), BVc(k)]) for k in (1, 2, 3, 9)], nbytes=10, steps=40))
    T.append(Tmpl('read-varint-toobig', 'input s s varint-> stack', 0, lambda s: [z3.And([by[i] & 0x80 != 0 for i in range(9)])],
                  lambda s: [(z3.BoolVal(True), [], 'varint_too_big')], nbytes=10, steps=40))

    def zz(v):
        return z3.LShR(v, 1) ^ (-(v & 1)) if False else ((v >> 1) ^ (-(v & 1)))
    T.append(Tmpl('read-zigzag', 'input s s zigzag-> stack s pos', 0, lambda s: [z3.Or([vguard(k) for k in (1, 2, 3)])],
                  lambda s: [(vguard(k), [cutw(zz(varint(k))), BVc(k)]) for k in (1, 2, 3)], nbytes=10, steps=40))
    stream = z3.Concat(*reversed(by))          # bit 0 of byte 0 is bit 0 of the stream

    def rev8(b):
        return z3.Concat(*[z3.Extract(i, i, b) for i in range(8)])
    stream_flipped = z3.Concat(*reversed([rev8(b) for b in by]))

    def item(st, N, k):
        v = z3.Extract(N * (k + 1) - 1, N * k, st)
        v = z3.ZeroExt(64 - N, v) if N < 64 else v
        return cutw(v)
    for N in (1, 3, 8, 12, 31, 32, 33, 57, 58, 63, 64):
        for flip in (False, True):
            w = '#' + ('!' if flip else '') + '%dbit' % N
            T.append(Tmpl('read-' + w, 'input s 2 s %s-> stack s pos' % w, 0, lambda s: [],
                          (lambda N=N, flip=flip: lambda s: [(z3.BoolVal(True), [item(stream_flipped if flip else stream, N, 0), item(stream_flipped if flip else stream, N, 1), BVc((2 * N + 7) // 8)])])(),
                          nbytes=16, inpos=(2 * N + 7) // 8, steps=60))
    T.append(Tmpl('again-halt', 'begin 1- dup 0= if halt then again', 1, lambda s: [s[0] >= 1, s[0] <= 3], lambda s: [(s[0] == n, [BVc(0)], 'user_halt') for n in (1, 2, 3)]))
    return T


def _lits(vals, T):
    def push(v):
        if -2 ** 31 <= v < 2 ** 31:
            return str(v)
        hi, mid, lo = v >> 32, (v >> 16) & 0xFFFF, v & 0xFFFF
        return '%d 65536 * 65536 * %d 65536 * + %d +' % (hi, mid, lo)
    return ' '.join(push(v) for v in vals)


def _with_prefix(src, vals, T):
    """literal pushes must come after the declarations (variable / input / output / word definitions stay in front)"""
    toks = src.split()
    k = 0
    while k < len(toks):
        if toks[k] in ('variable', 'input'):
            k += 2
        elif toks[k] == 'output':
            k += 3
        elif toks[k] == ':':
            k = toks.index(';', k) + 1
        else:
            break
    return ' '.join(toks[:k] + [_lits(vals, T)] + toks[k:])


@guard
def h_prog(name, T, ci):
    """one case of one template: the case guard (which fixes the data-dependent control decisions: trip counts, branch outcomes) is
    part of the precondition, everything else about the stack cells and input bytes stays symbolic"""
    E = errors()
    tm = [t for t in templates(T) if t.name == name][0]
    args = [z3.BitVec('s%d' % k, T) for k in range(tm.nargs)]
    inb = [z3.BitVec('inb%d' % k, 8) for k in range(tm.nbytes)] or None
    cases = [(c + ('none',))[:3] for c in tm.expect(args)]
    g, cells, errname = cases[ci]
    pre = tm.pre(args) + [g]
    runs = [('run', tm.src, 'run', 12)] + [('step', tm.src, 'step', tm.steps)] + [('paused: ' + p, p, 'run', 24) for p in tm.paused]
    # ... and with a call() of a word that changes nothing between every pause and its resume (segments: run / call / resume / call / ...)
    runs += [('paused, a word called before every resume: ' + p, CALLED_WORD + p, 'call', 24) for p in tm.paused if tm.calls]
    ctxs = []
    for label, src, mode, n in runs:
        m, fs, dump = run_mode(T, src, mode, args, inb, n, pre)
        ctxs.append((label, src, mode, m, fs, dump))
    m0, fs0 = ctxs[0][3], ctxs[0][4]
    obls = []
    bad = [fs0['err'] != E[errname], fs0['depth'] != len(cells)] + [fs0['cells'][k] != v for k, v in enumerate(cells)]
    if errname in ('none', 'user_halt'):
        bad.append(fs0['rec'] != 0)
    obls.append(('[run] documented result, case %d of "%s"' % (ci, tm.src), z3.Or(bad)))
    if tm.vars_expect:
        for k, v in enumerate(tm.vars_expect(args)):
            obls.append(('[run] variable %d after "%s"' % (k, tm.src), fs0['vars'][k] != v))
    if tm.inpos is not None:
        obls.append(('[run] input position after "%s"' % tm.src, fs0['inpos'][0] != tm.inpos))
    wouts = tm.outs(args) if tm.outs else []
    for k, items in enumerate(wouts):
        obls.append(('[run] output %d holds %d items' % (k, len(items)), fs0['outs'][k]['len'] != len(items)))
        for i, v in enumerate(items):
            obls.append(('[run] item %d of output %d has the documented value' % (i, k), fs0['outs'][k]['cells'][i] != v))
    for label, src, mode, m, fs, dump in ctxs:
        if label != 'run':
            diff = [fs['err'] != fs0['err'], fs['depth'] != fs0['depth'], fs['rec'] != fs0['rec']]
            diff += [z3.And(k < fs0['depth'], fs['cells'][k] != fs0['cells'][k]) for k in range(MAXDEPTH)]
            diff += [a != b for a, b in zip(fs['vars'], fs0['vars'])] + [a != b for a, b in zip(fs['inpos'], fs0['inpos'])]
            for oa, ob_ in zip(fs['outs'], fs0['outs']):
                diff.append(oa['len'] != ob_['len'])
                diff += [z3.And(i < ob_['len'], x != y) for i, (x, y) in enumerate(zip(oa['cells'], ob_['cells']))]
            obls.append(('[%s] same final state as one uninterrupted run of "%s"' % (label, tm.src), z3.Or(diff)))
            for o in m.eng.obl:
                obls.append(('[%s] %s: %s @ %s' % (label, o.kind, o.desc, o.where[:60]), o.cond))
        if inb:
            arr = m.mem.o['inbuf'].arr
            obls.append(('[%s] the input bytes are unchanged afterwards' % label, z3.Or([z3.Select(arr, z3.BitVecVal(k, 64)) != b for k, b in enumerate(inb)])))

    def replay(model, ent):
        ev = lambda e: model.eval(e, model_completion=True)
        vals = [ev(a).as_signed_long() for a in args]
        hexin = ''.join('%02x' % ev(b).as_long() for b in inb) if inb else ''
        werr, wstack = E[errname], [ev(c).as_signed_long() for c in cells]
        wout = []
        for items in wouts:
            hx = ''
            for v in items:
                vv = ev(v)
                hx += (vv.as_long() & ((1 << vv.size()) - 1)).to_bytes(vv.size() // 8, 'little').hex()
            wout.append(hx)
        payload = dict(template=tm.src, initial_stack=vals, input_bytes=hexin, machine_bits=T, expected=dict(err=werr, stack=wstack), runs={})
        bad = None
        for label, src, mode, m, fs, dump in ctxs:
            full = _with_prefix(src, vals, T) if vals else src
            out = native(T, mode, full, MAXDEPTH + 3, RECDEPTH, hexin)
            payload['runs'][label] = dict(program=full, mode=mode, native=out)
            if out.get('status') != 'ok':
                bad = bad or '%s of "%s": native interpreter %s %s' % (label, full, out.get('status'), out.get('log', ''))
            elif out.get('err') != werr or out.get('stack') != wstack or (errname == 'none' and not out.get('done')) or (tm.inpos is not None and out.get('inpos') != [tm.inpos]) \
                    or (wouts and out.get('outputs') != wout) or (hexin and out.get('inbytes') != hexin):
                bad = bad or '%s of "%s"%s: error %s, stack %s, done %s, input position %s, outputs %s; documented: error %s, stack %s%s%s' % (
                    label, full, ' on input ' + hexin + (' (input afterwards: %s)' % out.get('inbytes') if out.get('inbytes') != hexin else '') if hexin else '', out.get('err'), out.get('stack'), out.get('done'), out.get('inpos'), out.get('outputs'), werr, wstack,
                    ', input position %d' % tm.inpos if tm.inpos is not None else '', ', outputs %s' % wout if wouts else '')
        if bad:
            return True, bad, payload
        return False, 'native interpreter agrees with the documented result in every mode (%s)' % wstack, payload
    tw = [('program reaches the documented outcome', fs0['err'] == E[errname])]
    return mdischarge(m0, 'ForthMachine%d program: %s case %d' % (T, name, ci), obls, tw, timeout_ms=120000, replay=replay,
                      extra=dict(bounds='template "%s" on %d symbolic %d-bit stack cells and %d symbolic input bytes (case guard fixes trip counts / branch outcomes); '
                                        'stack depth %d, recursion depth %d; modes: run, step, %d paused variants' % (tm.src, tm.nargs, T, tm.nbytes, MAXDEPTH, RECDEPTH, len(tm.paused))))


@guard
def h_cover(T):
    """the case guards of every template cover its precondition (so that the case split loses nothing inside the stated bounds)"""
    res = dict(unit='ForthMachine%d program templates: case split covers the preconditions' % T, obligations=[], twins={}, violations=[], unreproduced=[], status='ok')
    for t in templates(T):
        a = [z3.BitVec('s%d' % k, T) for k in range(t.nargs)]
        gs = [c[0] for c in t.expect(a)]
        s = z3.Solver()
        s.add(*t.pre(a))
        s.add(z3.Not(z3.Or(gs)))
        r = str(s.check())
        res['obligations'].append(dict(kind='oracle', name='cases of %s cover its precondition' % t.name, result=r, t=0))
        if r != 'unsat':
            res['status'] = 'harness-error'
            res['detail'] = 'case split of template %s does not cover its precondition' % t.name
    return res


def jobs(tier):
    js = []
    for T in (32, 64):
        js.append((h_cover, (T,), 300))
        for t in templates(T):
            a = [z3.BitVec('s%d' % k, T) for k in range(t.nargs)]
            gs = [c[0] for c in t.expect(a)]
            for ci, g in enumerate(gs):
                sv = z3.Solver()
                sv.add(*t.pre(a)); sv.add(g)
                if str(sv.check()) == 'unsat':
                    continue          # case excluded by the template's own precondition
                js.append((h_prog, (t.name, T, ci), 900))
    return js
