"""C18 (narrow claim): position arithmetic of partitioned arrays - IrregularlyPartitionedArray::partitionid_index_at maps a
global position to (partition, local index) exactly as concatenation does, for every split into <= 4 partitions (empty ones
included) and every 64-bit position."""
import os, subprocess
import z3
from . import build, runner
from .mharness import MCtx, mdischarge
from .oracle import guard, summarize
from .llbmc import Ptr, NULL

ASSUMPTIONS = [
    'stops are non-negative and non-decreasing (cumulative lengths of the partitions, as the constructor callers build them)',
    'partitions_ is modelled as a vector of P null shared_ptr entries (only its size is read); numpartitions() is interpreted from PartitionedArray.cpp IR',
    'outside: VirtualArray, caches, generators, repartition, getitem_range across partitions, all of partition.py (Python over _ext)',
]
IPA = 'src/libawkward/partition/IrregularlyPartitionedArray.cpp'
PA = 'src/libawkward/partition/PartitionedArray.cpp'

DRIVER = r'''
#include <cstdio>
#include <cstdlib>
#include <vector>
#include "awkward/partition/IrregularlyPartitionedArray.h"
using namespace awkward;
int main(int argc, char** argv) {
  int P = atoi(argv[1]);
  std::vector<int64_t> stops; ContentPtrVec parts;
  for (int i = 0; i < P; i++) { stops.push_back(atoll(argv[2 + i])); parts.push_back(ContentPtr(nullptr)); }
  int64_t at = atoll(argv[2 + P]);
  IrregularlyPartitionedArray a(parts, stops);
  int64_t pid = -99, idx = -99;
  a.partitionid_index_at(at, pid, idx);
  printf("%lld %lld\n", (long long)pid, (long long)idx);
  return 0;
}
'''


@guard
def h_partition_at(P):
    m = MCtx([IPA, PA], unwind=P + 4)
    at = m.bv('at')
    stops = m.array('stops', ('i', 64), P, const=True)
    parts = m.array('parts', ('i', 64), 2 * P, const=True)
    s0 = z3.Array('stops', z3.BitVecSort(64), z3.BitVecSort(64))
    sv = [z3.Select(s0, z3.BitVecVal(i, 64)) for i in range(P)]
    prev = z3.BitVecVal(0, 64)
    for v in sv:
        m.assume(v >= prev, v <= 2 ** 62)
        prev = v
    # vptr -> address point of the class vtable (virtual start()/stop() may be called)
    from .llbmc import State
    from .mharness import module_of
    st0 = State({}, m.mem, z3.BoolVal(True))
    vt = m.eng.global_ptr(st0, '@_ZTVN7awkward27IrregularlyPartitionedArrayE', module_of(IPA))
    vptr = Ptr(vt.obj, 16) if not isinstance(vt.obj, tuple) else NULL
    this = m.record('ipa', {0: (vptr, 8), 8: (parts, 8), 16: (Ptr('parts', z3.BitVecVal(2 * P, 64)), 8), 24: (Ptr('parts', z3.BitVecVal(2 * P, 64)), 8),
                            32: (stops, 8), 40: (Ptr('stops', z3.BitVecVal(P, 64)), 8), 48: (Ptr('stops', z3.BitVecVal(P, 64)), 8)})
    m.record('pid', {}); m.record('idx', {})
    m.call('_ZNK7awkward27IrregularlyPartitionedArray20partitionid_index_atElRlS1_', [this, at, Ptr('pid', 0), Ptr('idx', 0)])
    pid, idx = m.cell('pid', 0), m.cell('idx', 0)
    total = sv[-1] if P else z3.BitVecVal(0, 64)
    exp_pid, exp_idx = z3.BitVecVal(P, 64), z3.BitVecVal(0, 64)
    for i in reversed(range(P)):
        start = sv[i - 1] if i else z3.BitVecVal(0, 64)
        exp_pid = z3.If(at < sv[i], z3.BitVecVal(i, 64), exp_pid)
        exp_idx = z3.If(at < sv[i], at - start, exp_idx)
    exp_pid = z3.If(at < 0, z3.BitVecVal(-1, 64), exp_pid)
    exp_idx = z3.If(at < 0, z3.BitVecVal(-1, 64), exp_idx)
    obls = [('partition id is the first partition containing the position', pid != exp_pid),
            ('local index = position - start of that partition', idx != exp_idx)]
    inr = z3.And(at >= 0, at < total)
    starts = [z3.BitVecVal(0, 64)] + sv[:-1]
    contain = z3.Or([z3.And(pid == i, starts[i] <= at, at < sv[i], idx == at - starts[i]) for i in range(P)] + [z3.BoolVal(False)])
    obls.append(('an in-range position lands inside the partition it is assigned to', z3.And(inr, z3.Not(contain))))

    def replay(model, ent):
        ev = lambda e: model.eval(e, model_completion=True).as_signed_long()
        vals = [ev(v) for v in sv] + [ev(at)]
        exe = build.compile_objs_driver(DRIVER, [IPA, PA])
        r = subprocess.run([exe, str(P)] + [str(v) for v in vals], capture_output=True, text=True, timeout=20,
                           env=dict(os.environ, ASAN_OPTIONS='detect_leaks=0'), errors='replace')
        if r.returncode != 0:
            return True, 'native run failed (%d): %s' % (r.returncode, r.stderr[-200:]), vals
        got = [int(x) for x in r.stdout.split()]
        want = [ev(exp_pid), ev(exp_idx)]
        if got != want:
            return True, 'stops=%s at=%d: (partition, index) = %s, concatenation semantics give %s' % (vals[:-1], vals[-1], got, want), vals
        return False, 'native result %s agrees' % got, vals
    tw = [('position in a later partition', pid >= 1), ('an empty partition is skipped', z3.And(P >= 2, sv[0] == 0 if P else False, pid == 1))] if P >= 2 else []
    return mdischarge(m, 'IrregularlyPartitionedArray::partitionid_index_at P=%d' % P, obls, tw, replay=replay,
                      extra=dict(bounds='P=%d partitions, stops <= 2^62, any int64 position' % P))


def jobs(tier):
    # the PartitionedArray constructor rejects an empty partition list: P >= 1 is the class invariant
    return [(h_partition_at, (P,), 900) for P in range(1, 5 if tier == 'quick' else 7)]


def main(report, tier):
    return summarize(report, runner.run_tasks(jobs(tier)), 'C18')
