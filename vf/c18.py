"""C18 (narrow claim): position arithmetic of partitioned arrays - IrregularlyPartitionedArray::partitionid_index_at maps a
global position to (partition, local index) exactly as concatenation does, for every split into <= 4 partitions (empty ones
included) and every 64-bit position."""
import os, subprocess
import z3
from . import build, runner
from .mharness import MCtx, mdischarge
from .oracle import guard, summarize
from .llbmc import Ptr, NULL, State

ASSUMPTIONS = [
    'stops are non-negative and non-decreasing (cumulative lengths of the partitions, as the constructor callers build them)',
    'partitions_ is modelled as a vector of P null shared_ptr entries (only its size is read); numpartitions() is interpreted from PartitionedArray.cpp IR',
    'outside: VirtualArray, caches, generators, repartition, getitem_range across partitions, all of partition.py (Python over _ext)',
]
IPA = 'src/libawkward/partition/IrregularlyPartitionedArray.cpp'
PA = 'src/libawkward/partition/PartitionedArray.cpp'

DRIVER = r'''
#include <cstdio>
#include <cstdlib>
#include <vector>
#include "awkward/partition/IrregularlyPartitionedArray.h"
using namespace awkward;
int main(int argc, char** argv) {
  int P = atoi(argv[1]);
  std::vector<int64_t> stops; ContentPtrVec parts;
  for (int i = 0; i < P; i++) { stops.push_back(atoll(argv[2 + i])); parts.push_back(ContentPtr(nullptr)); }
  int64_t at = atoll(argv[2 + P]);
  IrregularlyPartitionedArray a(parts, stops);
  int64_t pid = -99, idx = -99;
  a.partitionid_index_at(at, pid, idx);
  printf("%lld %lld\n", (long long)pid, (long long)idx);
  return 0;
}
'''


@guard
def h_partition_at(P):
    m = MCtx([IPA, PA], unwind=P + 4)
    at = m.bv('at')
    stops = m.array('stops', ('i', 64), P, const=True)
    parts = m.array('parts', ('i', 64), 2 * P, const=True)
    s0 = z3.Array('stops', z3.BitVecSort(64), z3.BitVecSort(64))
    sv = [z3.Select(s0, z3.BitVecVal(i, 64)) for i in range(P)]
    prev = z3.BitVecVal(0, 64)
    for v in sv:
        m.assume(v >= prev, v <= 2 ** 62)
        prev = v
    # vptr -> address point of the class vtable (virtual start()/stop() may be called)
    from .llbmc import State
    from .mharness import module_of
    st0 = State({}, m.mem, z3.BoolVal(True))
    vt = m.eng.global_ptr(st0, '@_ZTVN7awkward27IrregularlyPartitionedArrayE', module_of(IPA))
    vptr = Ptr(vt.obj, 16) if not isinstance(vt.obj, tuple) else NULL
    this = m.record('ipa', {0: (vptr, 8), 8: (parts, 8), 16: (Ptr('parts', z3.BitVecVal(2 * P, 64)), 8), 24: (Ptr('parts', z3.BitVecVal(2 * P, 64)), 8),
                            32: (stops, 8), 40: (Ptr('stops', z3.BitVecVal(P, 64)), 8), 48: (Ptr('stops', z3.BitVecVal(P, 64)), 8)})
    m.record('pid', {}); m.record('idx', {})
    m.call('_ZNK7awkward27IrregularlyPartitionedArray20partitionid_index_atElRlS1_', [this, at, Ptr('pid', 0), Ptr('idx', 0)])
    pid, idx = m.cell('pid', 0), m.cell('idx', 0)
    total = sv[-1] if P else z3.BitVecVal(0, 64)
    exp_pid, exp_idx = z3.BitVecVal(P, 64), z3.BitVecVal(0, 64)
    for i in reversed(range(P)):
        start = sv[i - 1] if i else z3.BitVecVal(0, 64)
        exp_pid = z3.If(at < sv[i], z3.BitVecVal(i, 64), exp_pid)
        exp_idx = z3.If(at < sv[i], at - start, exp_idx)
    exp_pid = z3.If(at < 0, z3.BitVecVal(-1, 64), exp_pid)
    exp_idx = z3.If(at < 0, z3.BitVecVal(-1, 64), exp_idx)
    obls = [('partition id is the first partition containing the position', pid != exp_pid),
            ('local index = position - start of that partition', idx != exp_idx)]
    inr = z3.And(at >= 0, at < total)
    starts = [z3.BitVecVal(0, 64)] + sv[:-1]
    contain = z3.Or([z3.And(pid == i, starts[i] <= at, at < sv[i], idx == at - starts[i]) for i in range(P)] + [z3.BoolVal(False)])
    obls.append(('an in-range position lands inside the partition it is assigned to', z3.And(inr, z3.Not(contain))))

    def replay(model, ent):
        ev = lambda e: model.eval(e, model_completion=True).as_signed_long()
        vals = [ev(v) for v in sv] + [ev(at)]
        exe = build.compile_objs_driver(DRIVER, [IPA, PA])
        r = subprocess.run([exe, str(P)] + [str(v) for v in vals], capture_output=True, text=True, timeout=20,
                           env=dict(os.environ, ASAN_OPTIONS='detect_leaks=0'), errors='replace')
        if r.returncode != 0:
            return True, 'native run failed (%d): %s' % (r.returncode, r.stderr[-200:]), vals
        got = [int(x) for x in r.stdout.split()]
        want = [ev(exp_pid), ev(exp_idx)]
        if got != want:
            return True, 'stops=%s at=%d: (partition, index) = %s, concatenation semantics give %s' % (vals[:-1], vals[-1], got, want), vals
        return False, 'native result %s agrees' % got, vals
    tw = [('position in a later partition', pid >= 1), ('an empty partition is skipped', z3.And(P >= 2, sv[0] == 0 if P else False, pid == 1))] if P >= 2 else []
    return mdischarge(m, 'IrregularlyPartitionedArray::partitionid_index_at P=%d' % P, obls, tw, replay=replay,
                      extra=dict(bounds='P=%d partitions, stops <= 2^62, any int64 position' % P))


def jobs(tier):
    # the PartitionedArray constructor rejects an empty partition list: P >= 1 is the class invariant
    from . import mvirt
    return [(h_partition_at, (P,), 900) for P in range(1, 5 if tier == 'quick' else 7)] + range_jobs(tier) + mvirt.jobs(tier) + repartition_jobs(tier)


def main(report, tier):
    return summarize(report, runner.run_tasks(jobs(tier)), 'C18')


# ---------------------------------------------------------------------------------------------- range slices across partitions
# PartitionedArray::getitem_range(start, stop, step) (regularize_rangeslice + getitem_range_nowrap) executed from its IR on an
# IrregularlyPartitionedArray whose partitions are opaque contents: the virtual calls made on them (length, getitem_range_nowrap,
# getitem(Slice), getitem_nothing) are observation points whose results obey the documented contract (a CPython slice of a content of
# length n selects slice.indices(n)); every content carries the global positions it stands for, so the pushed result partitions can be
# compared, element by element, with range(start, stop, step) of the concatenation.
SLC = 'src/libawkward/Slice.cpp'
KU = 'src/cpu-kernels/kernel-utils.cpp'
EA = 'src/libawkward/array/EmptyArray.cpp'
KD = 'src/libawkward/kernel-dispatch.cpp'
KNONE = 2 ** 63 - 1


def BV(x):
    return z3.BitVecVal(x, 64)


def slice_sel(length, a, b, step):
    """CPython slice(a, b, step) on a sequence of `length` (z3 terms; step a Python int != 0): (first index, count)"""
    from .hlib import py_slice_indices
    st, sp = py_slice_indices(a, b, z3.BoolVal(step > 0), length)
    if step > 0:
        cnt = z3.If(sp > st, z3.UDiv(sp - st - 1, BV(step)) + 1, BV(0))
    else:
        cnt = z3.If(st > sp, z3.UDiv(st - sp - 1, BV(-step)) + 1, BV(0))
    return st, cnt


def content_slots():
    from .cpp01 import vtable_slots
    from .mharness import module_of
    slots, nslots = vtable_slots(module_of(EA), 'N7awkward10EmptyArrayE')

    def slot(frag):
        for s, k in slots.items():
            if frag in s:
                return k
        from .llbmc import Unsupported
        raise Unsupported('Content vtable slot %s not found' % frag)
    return dict(length=slot('6lengthEv'), rnw=slot('20getitem_range_nowrapEll'), get=slot('7getitemERKNS_5SliceE'), nothing=slot('15getitem_nothingEv'),
                at_nowrap=slot('17getitem_at_nowrapEl')), nslots


def _ld(eng, st, p, off, mem=None):
    """field of an opaque content / recorded slice through a possibly guarded pointer"""
    from .llbmc import ptr_cases
    mem = mem or st.mem
    res = None
    for g, q in ptr_cases(p):
        if q.obj is None:
            if st is not None:
                eng.add_obl('null-deref', st, g, 'virtual call or field read through a null content pointer', 'observation stub')
            continue
        v = mem.o[q.obj].cells[q.off + off][0]
        res = v if res is None else z3.If(g, v, res)
    if res is None:
        from .llbmc import Unsupported
        raise Unsupported('content pointer is null on every path')
    return z3.simplify(res)


def range_stubs(K, pamod):
    from .mharness import stub_noop

    def new_content(eng, st, length, gstart, gstep):
        nm = eng.fresh_name('content')
        p = eng.new_record(st.mem, nm, None, tag='content')
        st.mem.o[nm].cells.update({0: (Ptr('fakevt', 0), 8), 8: (z3.simplify(length), 8), 16: (z3.simplify(gstart), 8), 24: (z3.simplify(gstep), 8)})
        return p

    def ret_content(st, sret, p):
        rec = st.mem.o[sret.obj]
        rec.cells[sret.off] = (p, 8)
        rec.cells[sret.off + 8] = (NULL, 8)

    def s_length(eng, fr, ins, st, name, argv):
        return _ld(eng, st, argv[0], 8)

    def s_rnw(eng, fr, ins, st, name, argv):
        sret, self, a, b = argv
        L, g0, gs = _ld(eng, st, self, 8), _ld(eng, st, self, 16), _ld(eng, st, self, 24)
        eng.add_obl('contract', st, z3.Not(z3.And(a >= 0, a <= b, b <= L)), 'getitem_range_nowrap of a partition called outside 0 <= start <= stop <= length', eng.where(fr, ins))
        ret_content(st, sret, new_content(eng, st, b - a, g0 + a * gs, gs))
        return None

    def s_getitem(eng, fr, ins, st, name, argv):
        sret, self, sl = argv
        L, g0, gs = _ld(eng, st, self, 8), _ld(eng, st, self, 16), _ld(eng, st, self, 24)
        a, b, s = _ld(eng, st, sl, 64), _ld(eng, st, sl, 72), _ld(eng, st, sl, 80)
        if not z3.is_bv_value(s):
            from .llbmc import Unsupported
            raise Unsupported('slice step handed to a partition is not concrete')
        first, cnt = slice_sel(L, a, b, s.as_signed_long())
        ret_content(st, sret, new_content(eng, st, cnt, g0 + first * gs, gs * s))
        return None

    def s_nothing(eng, fr, ins, st, name, argv):
        ret_content(st, argv[0], new_content(eng, st, BV(0), BV(0), BV(1)))
        return None

    def s_at_nowrap(eng, fr, ins, st, name, argv):
        sret, self, at = argv
        st.trace = st.trace + ((st.pc, 'at_nowrap', (self, at)),)
        ret_content(st, sret, NULL)
        return None

    def s_slice_ctor(eng, fr, ins, st, name, argv):
        sl = argv[0]
        o = st.mem.o[sl.obj]
        for k in range(3):
            o.cells[sl.off + 8 * k] = (NULL, 8)        # items_: empty vector
        o.cells[sl.off + 24] = (z3.BitVecVal(0, 8), 1)
        return None

    def s_slice_append(eng, fr, ins, st, name, argv):
        sl, rg = argv
        o = st.mem.o[sl.obj]
        for k in range(3):                                # the appended SliceRange's (start_, stop_, step_) kept beside the Slice object
            o.cells[sl.off + 64 + 8 * k] = (_ld(eng, st, rg, 8 + 8 * k), 8)
        return None

    def bump(st, vec, n):
        o = st.mem.o[vec.obj]
        o.cells[vec.off] = (Ptr('dummyvec', BV(0)), 8)
        o.cells[vec.off + 8] = (Ptr('dummyvec', BV(n)), 8)
        o.cells[vec.off + 16] = (Ptr('dummyvec', BV(n)), 8)

    def s_push_parts(eng, fr, ins, st, name, argv):
        vec, pos, x = argv
        st.trace = st.trace + ((st.pc, 'push_parts', (eng.load(st, x, '%"class.awkward::Content"*', pamod, 'observation stub'),)),)
        bump(st, vec, 2)
        return None

    def s_push_stops(eng, fr, ins, st, name, argv):
        vec, pos, x = argv
        st.trace = st.trace + ((st.pc, 'push_stops', (eng.load(st, x, 'i64', pamod, 'observation stub'),)),)
        bump(st, vec, 1)
        return None

    def s_new(eng, fr, ins, st, name, argv):
        return eng.new_record(st.mem, eng.fresh_name('heap'), None, tag='heap')

    def regularize(eng, fr, ins, st, name, argv):
        out = eng.call('awkward_regularize_rangeslice', argv, st.mem, st.pc, st.trace)
        st.mem = out.mem
        return None

    def handle_error(eng, fr, ins, st, name, argv):
        err = argv[0]
        cell = st.mem.o[err.obj].cells.get(err.off)
        isnull = eng.is_null(cell[0]) if cell is not None else z3.BoolVal(True)
        c = z3.simplify(z3.Not(isnull))
        if z3.is_true(c):
            return ('raise',)
        if z3.is_false(c):
            return None
        return ('split', c)
    def s_classname(eng, fr, ins, st, name, argv):
        # std::string result (error-message text is not the subject): an empty small string in the sret slot
        sret = argv[0]
        o = st.mem.o[sret.obj]
        o.cells[sret.off] = (Ptr(sret.obj, sret.off + 16), 8)
        o.cells[sret.off + 8] = (BV(0), 8)
        o.cells[sret.off + 16] = (z3.BitVecVal(0, 8), 1)
        return None
    return {'_ZNK7awkward27IrregularlyPartitionedArray9classnameB5cxx11Ev': s_classname, 'vf$slot%d' % K['length']: s_length, 'vf$slot%d' % K['rnw']: s_rnw, 'vf$slot%d' % K['get']: s_getitem, 'vf$slot%d' % K['nothing']: s_nothing,
            'vf$slot%d' % K['at_nowrap']: s_at_nowrap,
            '_ZN7awkward5SliceC1Ev': s_slice_ctor, '_ZN7awkward5SliceC2Ev': s_slice_ctor, '_ZN7awkward5Slice6appendERKNS_10SliceRangeE': s_slice_append,
            '_ZN7awkward5Slice13become_sealedEv': stub_noop, '_ZN7awkward9SliceItemD2Ev': stub_noop, '_ZN7awkward5SliceD2Ev': stub_noop, '_ZN7awkward5SliceD1Ev': stub_noop,
            '_ZNSt6vectorISt10shared_ptrIN7awkward7ContentEESaIS3_EE17_M_realloc_insert*': s_push_parts,
            '_ZNSt6vectorIlSaIlEE17_M_realloc_insert*': s_push_stops,
            '_ZSt10_ConstructIN7awkward27IrregularlyPartitionedArrayE*': stub_noop, '_Znwm': s_new,
            '_ZNSt6vectorISt10shared_ptrIN7awkward7ContentEESaIS3_EED2Ev': stub_noop,
            '_ZN7awkward6kernel21regularize_rangesliceEPlS1_bbbl': regularize, '_ZN7awkward4util12handle_error*': handle_error}


def build_partitioned(m, lens, K, nslots):
    """IrregularlyPartitionedArray over opaque contents of the given (concrete) lengths"""
    from .mharness import module_of
    P = len(lens)
    m.record('fakevt', {8 * k: (Ptr(('func', 'vf$slot%d' % k), 0), 8) for k in range(nslots)}, const=True)
    gs, parr, stops_v = 0, [], []
    for i, L in enumerate(lens):
        m.record('part%d' % i, {0: (Ptr('fakevt', 0), 8), 8: (BV(L), 8), 16: (BV(gs), 8), 24: (BV(1), 8)}, const=True)
        parr += [Ptr('part%d' % i, 0), NULL]
        gs += L
        stops_v.append(gs)
    parts = m.array('parts', ('ptr', 64), 2 * P, const=True, arr=parr)
    sarr = z3.K(z3.BitVecSort(64), BV(0))
    for i, v in enumerate(stops_v):
        sarr = z3.Store(sarr, BV(i), BV(v))
    stops = m.array('stops', ('i', 64), P, const=True, arr=sarr)
    st0 = State({}, m.mem, z3.BoolVal(True))
    vt = m.eng.global_ptr(st0, '@_ZTVN7awkward27IrregularlyPartitionedArrayE', module_of(IPA))
    this = m.record('ipa', {0: (Ptr(vt.obj, 16), 8), 8: (parts, 8), 16: (Ptr('parts', BV(2 * P)), 8), 24: (Ptr('parts', BV(2 * P)), 8),
                            32: (stops, 8), 40: (Ptr('stops', BV(P)), 8), 48: (Ptr('stops', BV(P)), 8)})
    m.record('ret', {})
    m.array('dummyvec', ('ptr', 64), 4, arr=[NULL] * 4)
    return this, gs


RANGE_DRIVER = r'''
#include <cstdio>
#include <cstdlib>
#include <vector>
#include <stdexcept>
#include "awkward/partition/IrregularlyPartitionedArray.h"
#include "awkward/Slice.h"
using namespace awkward;
struct Dbl { void** vt; long len; long g0; long gs; };
#include <typeinfo>
struct DblT : public Content { DblT(): Content(Identities::none(), util::Parameters()) { } };     // never instantiated: only its type_info is used (dynamic_cast on a test double)
static void* VTFULL[%(nslots)d + 2];
static void** const VT = VTFULL + 2;
static void nodel(Content*) { }
static ContentPtr mk(long len, long g0, long gs) { Dbl* d = new Dbl; d->vt = VT; d->len = len; d->g0 = g0; d->gs = gs; return ContentPtr((Content*)d, nodel); }
extern "C" void d_trap() { printf("{\"outcome\": \"unexpected-virtual-call\"}\n"); fflush(stdout); _Exit(3); }
extern "C" long d_length(Dbl* self) { return self->len; }
extern "C" void d_rnw(ContentPtr* sret, Dbl* self, long a, long b) {
  if (!(0 <= a && a <= b && b <= self->len)) { printf("{\"outcome\": \"nowrap-contract\", \"a\": %%ld, \"b\": %%ld, \"len\": %%ld}\n", a, b, self->len); fflush(stdout); _Exit(0); }
  new (sret) ContentPtr(mk(b - a, self->g0 + a * self->gs, self->gs)); }
static void adjust(long len, long& start, long& stop, long step) {   // PySlice_AdjustIndices
  const long none = %(knone)dL;
  if (start == none) start = step > 0 ? 0 : len - 1;
  else if (start < 0) { start += len; if (start < 0) start = step < 0 ? -1 : 0; } else if (start >= len) start = step < 0 ? len - 1 : len;
  if (stop == none) stop = step > 0 ? len : -1;
  else if (stop < 0) { stop += len; if (stop < 0) stop = step < 0 ? -1 : 0; } else if (stop >= len) stop = step < 0 ? len - 1 : len;
}
extern "C" void d_getitem(ContentPtr* sret, Dbl* self, const Slice* sl) {
  SliceRange* r = (SliceRange*)sl->head().get();
  long a = r->start(), b = r->stop(), s = r->step(), cnt = 0;
  adjust(self->len, a, b, s);
  if (s > 0 && b > a) cnt = (b - a - 1) / s + 1;
  if (s < 0 && a > b) cnt = (a - b - 1) / (-s) + 1;
  new (sret) ContentPtr(mk(cnt, self->g0 + a * self->gs, self->gs * s)); }
extern "C" void d_nothing(ContentPtr* sret, Dbl* self) { new (sret) ContentPtr(mk(0, 0, 1)); }
extern "C" bool d_mergeable(Dbl* self, const ContentPtr* other, bool mergebool) { return true; }
extern "C" void d_mergemany(ContentPtr* sret, Dbl* self, const ContentPtrVec* others) {
  long len = self->len; for (auto& o : *others) len += ((Dbl*)o.get())->len;
  new (sret) ContentPtr(mk(len, self->g0, 1)); }
static long at_part = -1, at_index = -1;
extern "C" void d_at_nowrap(ContentPtr* sret, Dbl* self, long at) { at_part = self->g0; at_index = at; new (sret) ContentPtr(nullptr); }
namespace awkward { namespace util {
  void handle_error(const struct Error& err, const std::string& classname, const Identities* id) {
    if (err.str != nullptr) throw std::invalid_argument(err.str);
  } } }
int main(int argc, char** argv) {
  VTFULL[0] = nullptr; VTFULL[1] = (void*)&typeid(DblT);
  for (int i = 0; i < %(nslots)d; i++) VT[i] = (void*)d_trap;
  VT[%(k_length)d] = (void*)d_length; VT[%(k_rnw)d] = (void*)d_rnw; VT[%(k_get)d] = (void*)d_getitem; VT[%(k_nothing)d] = (void*)d_nothing;
  VT[%(k_at)d] = (void*)d_at_nowrap; VT[%(k_mergeable)d] = (void*)d_mergeable; VT[%(k_mergemany)d] = (void*)d_mergemany;
  int mode = atoi(argv[1]); int P = atoi(argv[2]);
  std::vector<int64_t> stops; ContentPtrVec parts; long tot = 0;
  for (int i = 0; i < P; i++) { long L = atol(argv[3 + i]); parts.push_back(mk(L, tot, 1)); tot += L; stops.push_back(tot); }
  IrregularlyPartitionedArray arr(parts, stops);
  long a = atol(argv[3 + P]), b = atol(argv[4 + P]), c = atol(argv[5 + P]);
  try {
    if (mode == 3) {
      std::vector<int64_t> ns; for (int i = 6 + P; i < argc; i++) ns.push_back(atoll(argv[i]));
      PartitionedArrayPtr out = arr.repartition(ns);
      IrregularlyPartitionedArray* irr = (IrregularlyPartitionedArray*)out.get();
      printf("{\"outcome\": \"ok\", \"parts\": [");
      for (int64_t p = 0; p < irr->numpartitions(); p++) { Dbl* d = (Dbl*)irr->partition(p).get(); printf("%%s[%%ld, %%ld]", p ? ", " : "", d->g0, d->len); }
      printf("]}\n");
    } else if (mode == 1) {
      arr.getitem_at(a);
      printf("{\"outcome\": \"ok\", \"part_start\": %%ld, \"index\": %%ld}\n", at_part, at_index);
    } else {
      PartitionedArrayPtr out = arr.getitem_range(a, b, c);
      IrregularlyPartitionedArray* irr = (IrregularlyPartitionedArray*)out.get();
      printf("{\"outcome\": \"ok\", \"positions\": [");
      bool first = true;
      for (int64_t p = 0; p < irr->numpartitions(); p++) {
        Dbl* d = (Dbl*)irr->partition(p).get();
        for (long k = 0; k < d->len; k++) { printf("%%s%%ld", first ? "" : ", ", d->g0 + k * d->gs); first = false; }
      }
      printf("], \"lens\": [");
      for (int64_t p = 0; p < irr->numpartitions(); p++) printf("%%s%%ld", p ? ", " : "", ((Dbl*)irr->partition(p).get())->len);
      printf("], \"stops\": [");
      std::vector<int64_t> st = irr->stops();
      for (size_t p = 0; p < st.size(); p++) printf("%%s%%ld", p ? ", " : "", (long)st[p]);
      printf("]}\n");
    }
  } catch (std::invalid_argument& e) { printf("{\"outcome\": \"raised\"}\n"); }
  fflush(stdout); _Exit(0);
}
'''


def native_partitioned(mode, lens, a, b, c, extra=()):
    import json
    K, nslots = content_slots()
    from .cpp01 import vtable_slots
    from .mharness import module_of
    slots_, _ = vtable_slots(module_of(EA), 'N7awkward10EmptyArrayE')
    K = dict(K, mergeable=[k for s_, k in slots_.items() if '9mergeableERKSt10shared_ptr' in s_][0], mergemany=[k for s_, k in slots_.items() if '9mergemanyERKSt6vector' in s_][0])
    drv = RANGE_DRIVER % dict(k_mergeable=K['mergeable'], k_mergemany=K['mergemany'], nslots=nslots, knone=KNONE, k_length=K['length'], k_rnw=K['rnw'], k_get=K['get'], k_nothing=K['nothing'], k_at=K['at_nowrap'])
    exe = build.compile_objs_driver(drv, [IPA, PA, SLC, KU, KD, 'src/libawkward/Content.cpp', 'src/libawkward/array/UnionArray.cpp'])
    r = subprocess.run([exe, str(mode), str(len(lens))] + [str(x) for x in lens] + [str(a), str(b), str(c)] + [str(x) for x in extra], capture_output=True, text=True, timeout=30,
                       env=dict(os.environ, ASAN_OPTIONS='detect_leaks=0', UBSAN_OPTIONS='halt_on_error=1:exitcode=87'), errors='replace')
    try:
        return json.loads(r.stdout.strip().splitlines()[-1]), r.stderr[-300:]
    except (ValueError, IndexError):
        return dict(outcome='crash(%d)' % r.returncode), r.stderr[-300:]


@guard
def h_range(lens, step):
    """PartitionedArray::getitem_range(start, stop, step) == the same slice of the concatenation; lens and step concrete (size
    case-split), start / stop any int64 (kSliceNone = None)"""
    lens = list(lens)
    P = len(lens)
    from .mharness import module_of
    K, nslots = content_slots()
    m = MCtx([IPA, PA, SLC, KU], unwind=P + 3, stubs=range_stubs(K, module_of(PA)))
    start, stop = m.bv('start'), m.bv('stop')
    this, total = build_partitioned(m, lens, K, nslots)
    out = m.call('_ZNK7awkward16PartitionedArray13getitem_rangeElll', [Ptr('ret', 0), this, start, stop, BV(step)])
    estep = 1 if step == KNONE else step
    S, n = slice_sel(BV(total), start, stop, estep)
    pushes = [(pc, a[0]) for pc, nm, a in out.trace if nm == 'push_parts']
    pstops = [(pc, a[0]) for pc, nm, a in out.trace if nm == 'push_stops']
    obls = [('a range slice never raises', out.raised)]
    if len(pushes) != len(pstops):
        obls.append(('every pushed partition has its stop pushed', z3.BoolVal(True)))
    cum = BV(0)
    Lmax = max(lens + [1])
    for j, (pc, p) in enumerate(pushes[:len(pstops)]):
        L, g0, gs = _ld(m.eng, None, p, 8, out.mem), _ld(m.eng, None, p, 16, out.mem), _ld(m.eng, None, p, 24, out.mem)
        for k in range(Lmax):
            obls.append(('element %d of result partition #%d is element start + (preceding + %d) * step of the concatenation' % (k, j, k),
                         z3.And(pc, k < L, g0 + k * gs != S + (cum + k) * estep)))
        obls.append(('result partition #%d is longer than any input partition' % j, z3.And(pc, L > Lmax)))
        obls.append(('no empty partition is kept in a non-empty result (#%d)' % j, z3.And(pc, L <= 0, n != 0)))
        obls.append(('stops[#%d] is the cumulative length' % j, z3.And(pc, pstops[j][1] != cum + L)))
        obls.append(('partition #%d and its stop are pushed together' % j, z3.Xor(pc, pstops[j][0])))
        cum = z3.If(pc, cum + L, cum)
    obls.append(('the result has exactly len(range(*slice.indices(total))) elements', z3.And(z3.Not(out.raised), cum != n)))
    obls.append(('the result has at least one partition', z3.And(z3.Not(out.raised), z3.Not(z3.Or([pc for pc, _ in pushes] + [z3.BoolVal(False)])))))

    def replay(model, ent):
        ev = lambda e: model.eval(e, model_completion=True).as_signed_long()
        A, B = ev(start), ev(stop)
        res, log = native_partitioned(2, lens, A, B, step)
        want = list(range(total))[slice(None if A == KNONE else A, None if B == KNONE else B, None if step == KNONE else step)]
        payload = dict(partition_lengths=lens, start=A, stop=B, step=step, native=res, expected=want)
        if res.get('outcome') != 'ok':
            return True, 'partition lengths %s, slice [%s:%s:%s]: native run %s %s' % (lens, A, B, step, res, log[-150:]), payload
        acc, cs = 0, []
        for x in res['lens']:
            acc += x; cs.append(acc)
        if res['positions'] != want or res['stops'] != cs or (want and 0 in res['lens']):
            return True, 'partition lengths %s, slice [%s:%s:%s]: partitioned result selects %s (stops %s), the concatenated array gives %s' % (
                lens, A, B, step, res['positions'], res['stops'], want), payload
        return False, 'native result agrees (%s)' % res['positions'], payload
    tw = [('a non-empty selection', n > 0)] if total > 0 else [('the empty array', n == 0)]
    owner = [k for k, x in enumerate(lens) for _ in range(x)]          # partition of every position
    stride = 1 if step == KNONE else abs(step)
    if any(owner[a] != owner[b] and (b - a) % stride == 0 for a in range(len(owner)) for b in range(a + 1, len(owner))):
        # (only where one slice with this step can reach two partitions at all: lengths (1, 1) with step 2 cannot)
        tw.append(('selection spans more than one partition', z3.Or([z3.And(pushes[i][0], pushes[j][0]) for i in range(len(pushes)) for j in range(i + 1, len(pushes))] + [z3.BoolVal(False)])))
    small = lambda v: z3.Or(v == KNONE, z3.And(v >= -total - 2, v <= total + 2))
    return mdischarge(m, 'PartitionedArray::getitem_range lens=%s step=%s' % (','.join(map(str, lens)), 'None' if step == KNONE else step), obls, tw, replay=replay,
                      prefer=[small(start), small(stop)],
                      extra=dict(bounds='partition lengths %s and step %s concrete (case split); start, stop any int64 incl. None' % (lens, step)))


@guard
def h_getitem_at(lens):
    """PartitionedArray::getitem_at(at): Python index semantics on the concatenation (one negative wrap, out of range raises and never
    reaches a partition), item handed to the containing partition at its local index"""
    lens = list(lens)
    P = len(lens)
    from .mharness import module_of
    K, nslots = content_slots()
    m = MCtx([IPA, PA, SLC, KU], unwind=P + 3, stubs=range_stubs(K, module_of(PA)))
    at = m.bv('at')
    this, total = build_partitioned(m, lens, K, nslots)
    out = m.call('_ZNK7awkward16PartitionedArray10getitem_atEl', [Ptr('ret', 0), this, at])
    calls = [(pc, a) for pc, nm, a in out.trace if nm == 'at_nowrap']
    reg = z3.If(at < 0, at + total, at)
    inr = z3.And(reg >= 0, reg < total)
    called = z3.Or([pc for pc, _ in calls] + [z3.BoolVal(False)])
    obls = [('raises exactly when the index is out of range of the concatenation', out.raised != z3.Not(inr)),
            ('an out-of-range index never reaches a partition', z3.And(z3.Not(inr), called)),
            ('an in-range index is handed to a partition', z3.And(inr, z3.Not(called)))]
    for pc, (self, idx) in calls:
        g0, L = _ld(m.eng, None, self, 16, out.mem), _ld(m.eng, None, self, 8, out.mem)
        obls.append(('the partition asked holds the position and gets its local index', z3.And(pc, z3.Or(g0 + idx != reg, idx < 0, idx >= L))))

    def replay(model, ent):
        A = model.eval(at, model_completion=True).as_signed_long()
        res, log = native_partitioned(1, lens, A, 0, 0)
        ra = A + total if A < 0 else A
        ok = 0 <= ra < total
        payload = dict(partition_lengths=lens, at=A, native=res)
        if ok and (res.get('outcome') != 'ok' or res.get('part_start', -1) + res.get('index', -1) != ra):
            return True, 'partition lengths %s, item %d: native run %s, the concatenation has it at position %d' % (lens, A, res, ra), payload
        if not ok and res.get('outcome') != 'raised':
            return True, 'partition lengths %s, item %d is out of range but the native run gives %s %s' % (lens, A, res, log[-100:]), payload
        return False, 'native run agrees (%s)' % res, payload
    return mdischarge(m, 'PartitionedArray::getitem_at lens=%s' % ','.join(map(str, lens)), obls, [('in range', inr), ('negative in range', z3.And(inr, at < 0))] if total > 0 else [('out of range', z3.Not(inr))], replay=replay,
                      prefer=[at >= -total - 2, at <= total + 2], extra=dict(bounds='partition lengths %s concrete; any int64 index' % lens))


def range_jobs(tier):
    import itertools
    js = []
    if tier == 'quick':
        shapes = [(0,), (3,)] + list(itertools.product((0, 1, 3), repeat=2)) + [l for l in itertools.product((0, 1, 2), (0, 1, 4), (0, 1, 2))]
        steps = (-2, -1, 1, 2, 3, KNONE)
    else:
        shapes = [l for P in (1, 2) for l in itertools.product(range(6), repeat=P)] + list(itertools.product(range(5), repeat=3)) + list(itertools.product((0, 1, 3), repeat=4))
        steps = (-5, -4, -3, -2, -1, 1, 2, 3, 4, 5, KNONE)
    for l in shapes:
        for s in steps:
            if tier == 'quick' and len(l) == 3 and s in (KNONE, -1, 1) and l[1] != 4:
                continue
            js.append((h_range, (l, s), 1800))
        js.append((h_getitem_at, (l,), 1800))
    return js


# ---------------------------------------------------------------------------------------------- repartition
@guard
def h_repartition(lens, Q):
    """IrregularlyPartitionedArray::repartition(stops) for symbolic new stops (Q partitions, non-decreasing, same total): new partition j holds exactly
    the positions [stops[j-1], stops[j]) of the concatenation, in order (pieces of old partitions are cut with getitem_range_nowrap inside their bounds
    and merged left to right); a different total raises"""
    lens = list(lens)
    P = len(lens)
    from .mharness import module_of
    K, nslots = content_slots()
    stubs = range_stubs(K, module_of(IPA))
    from .cpp01 import vtable_slots
    slots, _ = vtable_slots(module_of(EA), 'N7awkward10EmptyArrayE')
    k_mergeable = [k for s_, k in slots.items() if '9mergeableERKSt10shared_ptr' in s_][0]
    k_mergemany = [k for s_, k in slots.items() if '9mergemanyERKSt6vector' in s_][0]
    merges = []

    def s_mergemany(eng, fr, ins, st, name, argv):
        sret, selfp, vec = argv
        o = st.mem.o[vec.obj]
        b, e = o.cells[vec.off][0], o.cells[vec.off + 8][0]
        from .llbmc import ptr_cases
        qb = [q for g, q in ptr_cases(b) if q.obj is not None][0]
        buf = st.mem.o[qb.obj]
        other = buf.cells[qb.off][0] if hasattr(buf, 'cells') else buf.arr[0]
        L1, g1 = _ld(eng, st, selfp, 8), _ld(eng, st, selfp, 16)
        L2, g2 = _ld(eng, st, other, 8), _ld(eng, st, other, 16)
        eng.add_obl('contract', st, g2 != g1 + L1, 'pieces merged into one partition are not adjacent in the concatenation', eng.where(fr, ins))
        nm = eng.fresh_name('content')
        p = eng.new_record(st.mem, nm, None, tag='content')
        st.mem.o[nm].cells.update({0: (Ptr('fakevt', 0), 8), 8: (z3.simplify(L1 + L2), 8), 16: (g1, 8), 24: (BV(1), 8)})
        rec = st.mem.o[sret.obj]
        rec.cells[sret.off] = (p, 8); rec.cells[sret.off + 8] = (NULL, 8)
        return None

    def s_cmp(eng, fr, ins, st, name, argv):
        # memcmp / bcmp of two int64 vectors with a concrete byte count
        a, b, nb = argv
        nb = z3.simplify(nb)
        if not z3.is_bv_value(nb):
            from .llbmc import Unsupported
            raise Unsupported('memcmp with a symbolic length')
        n = nb.as_long() // 8
        oa, ob = st.mem.o[a.obj], st.mem.o[b.obj]
        eq = z3.And([z3.Select(oa.arr, a.off + i) == z3.Select(ob.arr, b.off + i) for i in range(n)] + [z3.BoolVal(True)])
        return z3.If(eq, z3.BitVecVal(0, 32), z3.BitVecVal(1, 32))
    from . import nodeh
    stubs.update({k_: v_ for k_, v_ in nodeh.COMMON_STUBS.items() if k_ not in stubs})
    stubs.update({'__dynamic_cast': nodeh.s_dynamic_cast, '_ZNSt16allocator_traitsISaIvEE9constructIN7awkward27IrregularlyPartitionedArrayE*': nodeh.stub_noop,
                  'vf$slot%d' % k_mergeable: (lambda *a: z3.BitVecVal(1, 1)), 'vf$slot%d' % k_mergemany: s_mergemany, 'memcmp': s_cmp, 'bcmp': s_cmp})
    m = MCtx([IPA, PA, 'src/libawkward/Content.cpp'], unwind=P + Q + 6, stubs=stubs)
    this, total = build_partitioned(m, lens, K, nslots)
    ns = m.array('newstops', ('i', 64), Q, const=True)
    a0 = z3.Array('newstops', z3.BitVecSort(64), z3.BitVecSort(64))
    nv = [z3.Select(a0, BV(j)) for j in range(Q)]
    prev = BV(0)
    for v in nv:
        m.assume(v >= prev, v <= 2 ** 20)
        prev = v
    vec = m.record('newstopsvec', {0: (ns, 8), 8: (Ptr('newstops', BV(Q)), 8), 16: (Ptr('newstops', BV(Q)), 8)}, const=True)
    out = m.call('_ZNK7awkward27IrregularlyPartitionedArray11repartitionERKSt6vectorIlSaIlEE', [Ptr('ret', 0), this, vec])
    same_total = nv[-1] == total
    same = z3.And(Q == P, z3.And([nv[j] == sum(lens[:j + 1]) for j in range(min(P, Q))])) if Q == P else z3.BoolVal(False)
    obls = [('raises exactly when the new stops describe a different total length', z3.simplify(out.raised) != z3.Not(same_total))]
    pushes = [(pc, a[0]) for pc, nm, a in out.trace if nm == 'push_parts']
    okp = z3.And(same_total, z3.Not(out.raised), z3.Not(same))
    cnt = BV(0)
    for j in range(Q):
        # the j-th push on each path: group pushes by order of appearance per path is implicit in the guards; use cumulative count of pushes
        pass
    # pushes appear in path order; the k-th push that is live on a path is new partition k
    for i, (pc, p) in enumerate(pushes):
        L, g0, gs = _ld(m.eng, None, p, 8, out.mem), _ld(m.eng, None, p, 16, out.mem), _ld(m.eng, None, p, 24, out.mem)
        before = BV(0)
        for pc2, _ in pushes[:i]:
            before = z3.If(pc2, before + 1, before)
        for j in range(Q):
            start_j = nv[j - 1] if j else BV(0)
            obls.append(('new partition %d covers exactly [stops[%d-1], stops[%d]) of the concatenation' % (j, j, j),
                         z3.And(okp, pc, before == j, z3.Or(g0 != start_j, L != nv[j] - start_j, gs != 1))))
    total_pushes = BV(0)
    for pc, _ in pushes:
        total_pushes = z3.If(pc, total_pushes + 1, total_pushes)
    obls.append(('one new partition per new stop', z3.And(okp, total_pushes != Q)))
    def replay(model, ent):
        sv = [model.eval(v, model_completion=True).as_signed_long() for v in nv]
        res, log = native_partitioned(3, lens, 0, 0, 0, extra=sv)
        payload = dict(partition_lengths=lens, new_stops=sv, native=res)
        if sv[-1] != total:
            if res.get('outcome') != 'raised':
                return True, 'partition lengths %s repartitioned to stops %s (another total): native run %s' % (lens, sv, res), payload
            return False, 'native run raises', payload
        want = [[(sv[j - 1] if j else 0), sv[j] - (sv[j - 1] if j else 0)] for j in range(Q)]
        if res.get('outcome') != 'ok':
            return True, 'partition lengths %s repartitioned to stops %s: native run %s %s' % (lens, sv, res, log[-200:].replace('\n', ' ')), payload
        got = res['parts']
        # an empty partition stands for no positions: only its length matters
        if len(got) != Q or any(g[1] != w[1] or (w[1] and g[0] != w[0]) for g, w in zip(got, want)):
            return True, 'partition lengths %s repartitioned to stops %s: new partitions cover %s, expected %s ([start, length])' % (lens, sv, got, want), payload
        return False, 'native run agrees (%s)' % got, payload
    return mdischarge(m, 'IrregularlyPartitionedArray::repartition lens=%s Q=%d' % (','.join(map(str, lens)), Q), obls,
                      # (with one new partition whose only possible stop is also the first old stop nothing can be cut: the twin is then 'accepted')
                      [('a partition is cut', z3.And(okp, z3.Or([nv[j] != s_ for j in range(Q) for s_ in [sum(lens[:k + 1]) for k in range(P)]][:1] + [z3.BoolVal(False)])))
                       if not (Q == 1 and sum(lens) == sum(lens[:1])) else ('the new partitioning is accepted', okp)], replay=replay,
                      prefer=[v <= total + 2 for v in nv],
                      extra=dict(bounds='old partition lengths %s concrete (case split), %d new stops symbolic' % (lens, Q)))


def repartition_jobs(tier):
    import itertools
    shapes = [(2, 3), (1, 2, 1), (0, 2)] if tier == 'quick' else [l for P in (1, 2, 3) for l in itertools.product(range(4), repeat=P) if sum(l) > 0]
    return [(h_repartition, (l, Q), 1800) for l in shapes for Q in ((1, 2, 3) if tier == 'quick' else (1, 2, 3, 4))]
