"""K-harness plumbing: symbolic (or concrete) arguments for one extern "C" kernel specialization,
running it through llbmc, reading back outputs, extracting concrete counterexample inputs."""
import functools, re
import z3
from . import kspec, build
from .irparse import Module
from .llbmc import Engine, Mem, Ptr, NULL, ArrayObj, RecObj, Unsupported, elem_sort, bv64


@functools.lru_cache(None)
def module_of(rel):
    return Module(build.compile_ir(rel))


def modules_for(cname):
    rel = kspec.source_of(cname)
    if rel is None:
        raise Unsupported('no source for ' + cname)
    mods = [module_of(rel)]
    ku = 'src/cpu-kernels/kernel-utils.cpp'
    if rel != ku:
        mods.append(module_of(ku))
    return mods


def widen(v, signed, to=64):
    if v.size() >= to:
        return v
    return z3.SignExt(to - v.size(), v) if signed else z3.ZeroExt(to - v.size(), v)


class ArrInfo:
    __slots__ = ('name', 'obj', 'ctype', 'kind', 'bits', 'signed', 'cap', 'init', 'const', 'isbool')

    def __init__(self, **kw):
        for k, v in kw.items():
            setattr(self, k, v)


class Ctx:
    """harness context around one Engine; several kernel calls may be chained (pipelines)"""

    def __init__(self, cnames, unwind=12, solver=None, check_timeout_ms=20000, max_instrs=400000):
        self.s = solver if solver is not None else z3.Solver()
        self.s.set('timeout', check_timeout_ms)
        mods = []
        for c in ([cnames] if isinstance(cnames, str) else cnames):
            for m in modules_for(c):
                if m not in mods:
                    mods.append(m)
        self.eng = Engine(mods, self.s, unwind=unwind, max_instrs=max_instrs)
        self.mem = Mem()
        self.pc = z3.BoolVal(True)
        self.scalars = {}     # name -> (z3 value, ctype)
        self.arrays = {}      # name -> ArrInfo
        self.premises = []
        self.ncall = 0
        self.errs = []        # per call: (cname, err record name)

    # ---- premises
    def assume(self, *conds):
        for c in conds:
            self.premises.append(c)
            self.s.add(c)

    # ---- arguments
    def scalar(self, name, ctype, value=None):
        kind, bits, signed = kspec.CT[ctype]
        if kind == 'f':
            v = z3.FP(name, z3.Float32() if bits == 32 else z3.Float64()) if value is None else z3.FPVal(value, z3.Float32() if bits == 32 else z3.Float64())
        elif kind == 'b':
            v = z3.BitVec(name, 1) if value is None else z3.BitVecVal(int(bool(value)), 1)
        else:
            v = z3.BitVec(name, bits) if value is None else z3.BitVecVal(value, bits)
        self.scalars[name] = (v, ctype)
        return v

    def array(self, name, ctype, cap, const=False, values=None, expr=None):
        """values: optional python list -> concrete contents (concrete mode)"""
        kind, bits, signed = kspec.CT[ctype]
        k = ('f', bits) if kind == 'f' else ('i', bits)
        obj = name
        cap = bv64(cap)
        if values is not None:
            es = elem_sort(k)
            zero = z3.FPVal(0.0, es) if kind == 'f' else z3.BitVecVal(0, bits)
            arr = z3.K(z3.BitVecSort(64), zero)
            for i, x in enumerate(values):
                arr = z3.Store(arr, z3.BitVecVal(i, 64), z3.FPVal(x, es) if kind == 'f' else z3.BitVecVal(int(x), bits))
        elif expr is not None:
            arr = expr          # initial contents given as a z3 array term (e.g. stops = starts + concrete lengths)
        else:
            arr = z3.Array(name, z3.BitVecSort(64), elem_sort(k))
        self.mem.o[obj] = ArrayObj(k, cap, arr, const, 'arg')
        self.arrays[name] = ArrInfo(name=name, obj=obj, ctype=ctype, kind=kind, bits=bits, signed=signed, cap=cap, init=arr,
                                    const=const, isbool=(kind == 'b'))
        return Ptr(obj, z3.BitVecVal(0, 64))

    def ptr_array(self, name, ptrs, const=False):
        self.mem.o[name] = ArrayObj(('ptr',), bv64(len(ptrs)), list(ptrs), const, 'arg')
        return Ptr(name, z3.BitVecVal(0, 64))

    # ---- element access for oracles (values widened to 64 bit according to signedness)
    def init(self, name, i):
        a = self.arrays[name]
        v = z3.Select(a.init, bv64(i))
        return v if a.kind == 'f' else widen(v, a.signed)

    def raw_init(self, name, i):
        return z3.Select(self.arrays[name].init, bv64(i))

    def final_arr(self, name):
        return self.mem.o[self.arrays[name].obj].arr

    def out(self, name, i):
        a = self.arrays[name]
        v = z3.Select(self.final_arr(name), bv64(i))
        return v if a.kind == 'f' else widen(v, a.signed)

    def raw_out(self, name, i):
        return z3.Select(self.final_arr(name), bv64(i))

    # ---- calling
    def call(self, cname, args):
        """args: list of z3 values / Ptr in C order (without the sret Error*). Returns z3 Bool 'error set'."""
        self.ncall += 1
        en = 'err%d' % self.ncall
        self.mem.o[en] = RecObj({}, 40, False, 'err')
        out = self.eng.call(cname, [Ptr(en, 0)] + list(args), self.mem, self.pc)
        if out is None:
            raise Unsupported('no feasible path through ' + cname)
        self.mem = out.mem
        cell = out.mem.o[en].cells.get(0)
        if cell is None:
            raise Unsupported('Error.str never written by ' + cname)
        iserr = z3.simplify(z3.Not(self.eng.is_null(cell[0])))
        self.errs.append((cname, en, iserr))
        return iserr

    def call_void(self, cname, args):
        """call a function that returns no Error struct (awkward_regularize_rangeslice)"""
        self.ncall += 1
        out = self.eng.call(cname, list(args), self.mem, self.pc)
        if out is None:
            raise Unsupported('no feasible path through ' + cname)
        self.mem = out.mem
        self.errs.append((cname, None, z3.BoolVal(False)))
        return out.ret

    def err_field(self, k, which=-1):
        """identity (k=16) / attempt (k=24) of call `which`"""
        en = self.errs[which][1]
        c = self.mem.o[en].cells.get(k)
        return None if c is None else c[0]

    def err_message(self, model, which=-1):
        en = self.errs[which][1]
        v = self.mem.o[en].cells[0][0]
        from .llbmc import ptr_cases
        for g, p in ptr_cases(v):
            if z3.is_true(model.eval(g, model_completion=True)) and p.obj is not None:
                o = self.mem.o.get(p.obj)
                if isinstance(o, ArrayObj):
                    bs = []
                    for i in range(200):
                        ch = model.eval(z3.Select(o.arr, z3.BitVecVal(i, 64)), model_completion=True).as_long()
                        if ch == 0:
                            break
                        bs.append(ch)
                    return bytes(bs).decode('latin1')
                return str(p.obj)
        return None

    def solve(self, cond, timeout_ms=30000):
        """decide premises /\\ path assumptions /\\ cond with a fresh one-shot solver (much faster than the
        incremental solver used for branch feasibility). -> (z3 result, model or None)"""
        s = z3.Solver()
        s.set('timeout', timeout_ms)
        s.add(self.s.assertions())
        if isinstance(cond, (list, tuple)):
            s.add(*cond)
        else:
            s.add(cond)
        r = s.check()
        return r, (s.model() if r == z3.sat else None)

    def continue_if(self, cond):
        """restrict the rest of the pipeline to paths where cond holds (e.g. previous kernel returned success)"""
        self.pc = z3.And(self.pc, cond)
        self.s.add(cond)

    # ---- models -> concrete inputs
    def concretize(self, model, maxcap=64):
        """concrete inputs from a model.  Arrays: dense values for the first min(cap, maxcap) cells plus, for larger capacities,
        the cells the model mentions explicitly (sparse) and the model's default value (`fill`)"""
        vals = {}
        for name, (v, ctype) in self.scalars.items():
            mv = model.eval(v, model_completion=True)
            kind, bits, signed = kspec.CT[ctype]
            if kind == 'f':
                vals[name] = fp_to_py(mv)
            elif kind == 'b':
                vals[name] = bool(mv.as_long())
            else:
                vals[name] = mv.as_signed_long() if signed else mv.as_long()
        arrs = {}

        def topy(a, mv):
            if a.kind == 'f':
                return fp_to_py(mv)
            return mv.as_signed_long() if a.signed else mv.as_long()
        for name, a in self.arrays.items():
            cap = model.eval(a.cap, model_completion=True).as_signed_long()
            n = max(0, min(cap, maxcap))
            xs = [topy(a, model.eval(z3.Select(a.init, z3.BitVecVal(i, 64)), model_completion=True)) for i in range(n)]
            info = dict(ctype=a.ctype, cap=cap, values=xs, const=a.const)
            if cap > maxcap:
                sparse, fill = {}, 0
                try:
                    e = model.eval(a.init, model_completion=True)
                    depth = 0
                    while z3.is_store(e) and depth < 5000:
                        i = e.arg(1)
                        if z3.is_bv_value(i):
                            k = i.as_signed_long()
                            if k not in sparse and 0 <= k < cap:
                                sparse[k] = topy(a, z3.simplify(e.arg(2)))
                        e = e.arg(0); depth += 1
                    if z3.is_const_array(e):
                        fill = topy(a, z3.simplify(e.arg(0)))
                except Exception:      # noqa - fall back to the dense prefix only
                    pass
                info['sparse'] = sparse
                info['fill'] = fill
            arrs[name] = info
        return dict(scalars=vals, arrays=arrs)


def fp_to_py(mv):
    if z3.is_fp_value(mv) or z3.is_fp(mv):
        mv = z3.simplify(mv)
        if mv.isNaN():
            return float('nan')
        if mv.isInf():
            return float('-inf') if mv.isNegative() else float('inf')
        if mv.isZero():
            return -0.0 if mv.isNegative() else 0.0
        import struct
        bvv = z3.simplify(z3.fpToIEEEBV(mv))
        n = bvv.as_long()
        if mv.sort().ebits() == 8:
            return struct.unpack('<f', struct.pack('<I', n))[0]
        return struct.unpack('<d', struct.pack('<Q', n))[0]
    raise ValueError(mv)


def setup_from_spec(ctx, spec, caps=None, prefix='', values=None):
    """declare every argument of a YAML specialization; caps: name -> capacity term (default: fresh symbol)
    returns list of call arguments"""
    args = []
    caps = caps or {}
    values = values or {}
    for a in spec.args:
        nm = prefix + a.name
        if a.depth == 0:
            args.append(ctx.scalar(nm, a.ctype, values.get(a.name)))
        elif a.depth == 1:
            cap = caps.get(a.name)
            if cap is None:
                cap = z3.BitVec('cap_' + nm, 64)
            args.append(ctx.array(nm, a.ctype, cap, const=a.const, values=values.get(a.name)))
        else:
            raise Unsupported('nested list argument %s needs a custom harness' % a.name)
    return args
