// Generic native replay driver: a tiny stack language that builds a real awkward layout out of the real node classes and applies a
// real operation to it, printing the result with Content::tojson.  Linked against libawkward + cpu-kernels compiled from the tree
// under check.  Usage: akrun <program file>.  Output: "OK <json>" or "ERR <message>".
#include <cstdio>
#include <cstdlib>
#include <cstring>
#include <string>
#include <vector>
#include <fstream>
#include <sstream>
#include <stdexcept>
#include <cmath>
#include "awkward/Content.h"
#include "awkward/type/Type.h"
#include "awkward/Index.h"
#include "awkward/Slice.h"
#include "awkward/Reducer.h"
#include "awkward/array/NumpyArray.h"
#include "awkward/array/EmptyArray.h"
#include "awkward/array/ListArray.h"
#include "awkward/array/ListOffsetArray.h"
#include "awkward/array/RegularArray.h"
#include "awkward/array/IndexedArray.h"
#include "awkward/array/ByteMaskedArray.h"
#include "awkward/array/BitMaskedArray.h"
#include "awkward/array/UnmaskedArray.h"
#include "awkward/array/RecordArray.h"
#include "awkward/array/UnionArray.h"
using namespace awkward;

static std::vector<std::string> toks;
static size_t pos = 0;
static std::string next() { if (pos >= toks.size()) throw std::runtime_error("akrun: unexpected end of program"); return toks[pos++]; }
static int64_t nint() { std::string t = next(); if (t == "NONE") return Slice::none(); return (int64_t)strtoll(t.c_str(), nullptr, 10); }
static double nreal() { std::string t = next(); if (t == "nan") return NAN; if (t == "inf") return INFINITY; if (t == "-inf") return -INFINITY;
  if (t.size() > 2 && t[0] == '0' && t[1] == 'x') { uint64_t b = strtoull(t.c_str(), nullptr, 16); double d; memcpy(&d, &b, 8); return d; } return strtod(t.c_str(), nullptr); }
static util::Parameters noparams;
static IdentitiesPtr noid(nullptr);

template <typename T> static IndexOf<T> rindex(int64_t n) { IndexOf<T> out(n); for (int64_t i = 0; i < n; i++) out.data()[i] = (T)nint(); return out; }

template <typename T> static ContentPtr leaf(int64_t n, const std::string& fmt, util::dtype dt, bool real) {
  std::shared_ptr<void> ptr(malloc(n == 0 ? 8 : n * sizeof(T)), free);
  for (int64_t i = 0; i < n; i++) { if (real) ((T*)ptr.get())[i] = (T)nreal(); else ((T*)ptr.get())[i] = (T)nint(); }
  std::vector<ssize_t> shape({(ssize_t)n}), strides({(ssize_t)sizeof(T)});
  return std::make_shared<NumpyArray>(noid, noparams, ptr, shape, strides, 0, (ssize_t)sizeof(T), fmt, dt, kernel::lib::cpu);
}

static std::vector<ContentPtr> stack;
static ContentPtr pop() { if (stack.empty()) throw std::runtime_error("akrun: empty stack"); ContentPtr x = stack.back(); stack.pop_back(); return x; }

static SliceItemPtr sliceitem();
static SliceItemPtr sliceitem() {
  std::string k = next();
  if (k == "at") return std::make_shared<SliceAt>(nint());
  if (k == "range") { int64_t a = nint(), b = nint(), c = nint(); return std::make_shared<SliceRange>(a, b, c); }
  if (k == "ellipsis") return std::make_shared<SliceEllipsis>();
  if (k == "newaxis") return std::make_shared<SliceNewAxis>();
  if (k == "field") return std::make_shared<SliceField>(next());
  if (k == "fields") { int64_t n = nint(); std::vector<std::string> ks; for (int64_t i = 0; i < n; i++) ks.push_back(next()); return std::make_shared<SliceFields>(ks); }
  if (k == "array" || k == "boolarray") {
    int64_t n = nint(); Index64 idx = rindex<int64_t>(n);
    std::vector<int64_t> shape({n}), strides({1});
    return std::make_shared<SliceArray64>(idx, shape, strides, k == "boolarray");
  }
  if (k == "sarray") {    // a strided one-dimensional index array: n entries, stride (in items, may be negative), then the whole buffer
    int64_t n = nint(), stride = nint(), bufcount = nint(); Index64 buf = rindex<int64_t>(bufcount);
    int64_t offset = stride < 0 ? bufcount - 1 : 0;
    Index64 idx(buf.ptr(), offset, n, kernel::lib::cpu);
    std::vector<int64_t> shape({n}), strides({stride});
    return std::make_shared<SliceArray64>(idx, shape, strides, false);
  }
  if (k == "array2d") {
    int64_t r = nint(), c = nint(); Index64 idx = rindex<int64_t>(r * c);
    std::vector<int64_t> shape({r, c}), strides({c, 1});
    return std::make_shared<SliceArray64>(idx, shape, strides, false);
  }
  if (k == "asslice") { ContentPtr a = pop(); return a.get()->asslice(); }     // an array (top of the stack) used as a slice item
  if (k == "jagged") { int64_t n = nint(); Index64 off = rindex<int64_t>(n); SliceItemPtr c = sliceitem(); return std::make_shared<SliceJagged64>(off, c); }
  if (k == "missing") { int64_t n = nint(); Index64 idx = rindex<int64_t>(n); Index8 m(n); for (int64_t i = 0; i < n; i++) m.data()[i] = idx.data()[i] < 0 ? 1 : 0;
    SliceItemPtr c = sliceitem(); return std::make_shared<SliceMissing64>(idx, m, c); }
  throw std::runtime_error("akrun: unknown slice item " + k);
}

static const Reducer* reducer(const std::string& n) {
  if (n == "count") return new ReducerCount(); if (n == "count_nonzero") return new ReducerCountNonzero(); if (n == "sum") return new ReducerSum();
  if (n == "prod") return new ReducerProd(); if (n == "any") return new ReducerAny(); if (n == "all") return new ReducerAll();
  if (n == "min") return new ReducerMin(); if (n == "max") return new ReducerMax(); if (n == "argmin") return new ReducerArgmin(); if (n == "argmax") return new ReducerArgmax();
  throw std::runtime_error("akrun: unknown reducer " + n);
}

static void run() {
  while (pos < toks.size()) {
    std::string c = next();
    if (c == "i64") { int64_t n = nint(); stack.push_back(leaf<int64_t>(n, "l", util::dtype::int64, false)); }
    else if (c == "i8") { int64_t n = nint(); stack.push_back(leaf<int8_t>(n, "b", util::dtype::int8, false)); }
    else if (c == "i16") { int64_t n = nint(); stack.push_back(leaf<int16_t>(n, "h", util::dtype::int16, false)); }
    else if (c == "u16") { int64_t n = nint(); stack.push_back(leaf<uint16_t>(n, "H", util::dtype::uint16, false)); }
    else if (c == "u32") { int64_t n = nint(); stack.push_back(leaf<uint32_t>(n, "I", util::dtype::uint32, false)); }
    else if (c == "u64") { int64_t n = nint(); stack.push_back(leaf<uint64_t>(n, "L", util::dtype::uint64, false)); }
    else if (c == "i32") { int64_t n = nint(); stack.push_back(leaf<int32_t>(n, "i", util::dtype::int32, false)); }
    else if (c == "u8") { int64_t n = nint(); stack.push_back(leaf<uint8_t>(n, "B", util::dtype::uint8, false)); }
    else if (c == "f64") { int64_t n = nint(); stack.push_back(leaf<double>(n, "d", util::dtype::float64, true)); }
    else if (c == "f32") { int64_t n = nint(); stack.push_back(leaf<float>(n, "f", util::dtype::float32, true)); }
    else if (c == "dt64") { std::string unit = next(); int64_t n = nint(); std::shared_ptr<void> ptr(malloc(n == 0 ? 8 : n * 8), free);
      for (int64_t i = 0; i < n; i++) ((int64_t*)ptr.get())[i] = nint();
      std::vector<ssize_t> shape({(ssize_t)n}), strides({8});
      stack.push_back(std::make_shared<NumpyArray>(noid, noparams, ptr, shape, strides, 0, 8, std::string("M8[") + unit + "]", util::dtype::datetime64, kernel::lib::cpu)); }
    else if (c == "bool") { int64_t n = nint(); stack.push_back(leaf<uint8_t>(n, "?", util::dtype::boolean, false)); }
    else if (c == "i64nd") { int64_t nd = nint(); std::vector<ssize_t> shape, strides((size_t)nd); int64_t tot = 1;
      for (int64_t i = 0; i < nd; i++) { shape.push_back((ssize_t)nint()); tot *= shape.back(); }
      ssize_t acc = 8; for (int64_t i = nd - 1; i >= 0; i--) { strides[(size_t)i] = acc; acc *= shape[(size_t)i]; }
      std::shared_ptr<void> ptr(malloc(tot == 0 ? 8 : tot * 8), free);
      for (int64_t i = 0; i < tot; i++) ((int64_t*)ptr.get())[i] = nint();
      stack.push_back(std::make_shared<NumpyArray>(noid, noparams, ptr, shape, strides, 0, 8, "l", util::dtype::int64, kernel::lib::cpu)); }
    else if (c == "empty") stack.push_back(std::make_shared<EmptyArray>(noid, noparams));
    else if (c == "listoffset64") { int64_t n = nint(); Index64 o = rindex<int64_t>(n); ContentPtr x = pop(); stack.push_back(std::make_shared<ListOffsetArray64>(noid, noparams, o, x)); }
    else if (c == "listoffset32") { int64_t n = nint(); Index32 o = rindex<int32_t>(n); ContentPtr x = pop(); stack.push_back(std::make_shared<ListOffsetArray32>(noid, noparams, o, x)); }
    else if (c == "listoffsetU32") { int64_t n = nint(); IndexU32 o = rindex<uint32_t>(n); ContentPtr x = pop(); stack.push_back(std::make_shared<ListOffsetArrayU32>(noid, noparams, o, x)); }
    else if (c == "list64") { int64_t n = nint(); Index64 a = rindex<int64_t>(n); Index64 b = rindex<int64_t>(n); ContentPtr x = pop(); stack.push_back(std::make_shared<ListArray64>(noid, noparams, a, b, x)); }
    else if (c == "list32") { int64_t n = nint(); Index32 a = rindex<int32_t>(n); Index32 b = rindex<int32_t>(n); ContentPtr x = pop(); stack.push_back(std::make_shared<ListArray32>(noid, noparams, a, b, x)); }
    else if (c == "listU32") { int64_t n = nint(); IndexU32 a = rindex<uint32_t>(n); IndexU32 b = rindex<uint32_t>(n); ContentPtr x = pop(); stack.push_back(std::make_shared<ListArrayU32>(noid, noparams, a, b, x)); }
    else if (c == "regular") { int64_t size = nint(), zl = nint(); ContentPtr x = pop(); stack.push_back(std::make_shared<RegularArray>(noid, noparams, x, size, zl)); }
    else if (c == "indexed64") { int64_t n = nint(); Index64 i = rindex<int64_t>(n); ContentPtr x = pop(); stack.push_back(std::make_shared<IndexedArray64>(noid, noparams, i, x)); }
    else if (c == "indexed32") { int64_t n = nint(); Index32 i = rindex<int32_t>(n); ContentPtr x = pop(); stack.push_back(std::make_shared<IndexedArray32>(noid, noparams, i, x)); }
    else if (c == "indexedU32") { int64_t n = nint(); IndexU32 i = rindex<uint32_t>(n); ContentPtr x = pop(); stack.push_back(std::make_shared<IndexedArrayU32>(noid, noparams, i, x)); }
    else if (c == "option64") { int64_t n = nint(); Index64 i = rindex<int64_t>(n); ContentPtr x = pop(); stack.push_back(std::make_shared<IndexedOptionArray64>(noid, noparams, i, x)); }
    else if (c == "option32") { int64_t n = nint(); Index32 i = rindex<int32_t>(n); ContentPtr x = pop(); stack.push_back(std::make_shared<IndexedOptionArray32>(noid, noparams, i, x)); }
    else if (c == "bytemask") { int64_t n = nint(); Index8 m = rindex<int8_t>(n); bool vw = nint() != 0; ContentPtr x = pop(); stack.push_back(std::make_shared<ByteMaskedArray>(noid, noparams, m, x, vw)); }
    else if (c == "bitmask") { int64_t n = nint(); IndexU8 m = rindex<uint8_t>(n); bool vw = nint() != 0; int64_t len = nint(); bool lsb = nint() != 0; ContentPtr x = pop();
      stack.push_back(std::make_shared<BitMaskedArray>(noid, noparams, m, x, vw, len, lsb)); }
    else if (c == "unmasked") { ContentPtr x = pop(); stack.push_back(std::make_shared<UnmaskedArray>(noid, noparams, x)); }
    else if (c == "record" || c == "tuple") { int64_t k = nint(), len = nint(); ContentPtrVec cs((size_t)k); util::RecordLookupPtr rl(nullptr);
      if (c == "record") { rl = std::make_shared<util::RecordLookup>(); for (int64_t i = 0; i < k; i++) rl->push_back(next()); }
      for (int64_t i = k - 1; i >= 0; i--) cs[(size_t)i] = pop();
      stack.push_back(std::make_shared<RecordArray>(noid, noparams, cs, rl, len)); }
    else if (c == "union8_32") { int64_t n = nint(); Index8 t = rindex<int8_t>(n); Index32 i = rindex<int32_t>(n); int64_t k = nint(); ContentPtrVec cs((size_t)k);
      for (int64_t j = k - 1; j >= 0; j--) cs[(size_t)j] = pop();
      stack.push_back(std::make_shared<UnionArray8_32>(noid, noparams, t, i, cs)); }
    else if (c == "union8_U32") { int64_t n = nint(); Index8 t = rindex<int8_t>(n); IndexU32 i = rindex<uint32_t>(n); int64_t k = nint(); ContentPtrVec cs((size_t)k);
      for (int64_t j = k - 1; j >= 0; j--) cs[(size_t)j] = pop();
      stack.push_back(std::make_shared<UnionArray8_U32>(noid, noparams, t, i, cs)); }
    else if (c == "union8_64") { int64_t n = nint(); Index8 t = rindex<int8_t>(n); Index64 i = rindex<int64_t>(n); int64_t k = nint(); ContentPtrVec cs((size_t)k);
      for (int64_t j = k - 1; j >= 0; j--) cs[(size_t)j] = pop();
      stack.push_back(std::make_shared<UnionArray8_64>(noid, noparams, t, i, cs)); }
    else if (c == "view") { int64_t a = nint(), b = nint(); ContentPtr x = pop(); stack.push_back(x.get()->getitem_range_nowrap(a, b)); }
    else if (c == "getitem") { int64_t k = nint(); Slice sl; for (int64_t i = 0; i < k; i++) sl.append(sliceitem()); sl.become_sealed(); ContentPtr x = pop(); stack.push_back(x.get()->getitem(sl)); }
    else if (c == "getitem2") { int64_t k = nint(); Slice sl; for (int64_t i = 0; i < k; i++) sl.append(sliceitem()); sl.become_sealed(); ContentPtr y = pop(); ContentPtr x = pop();
      ContentPtr first = x.get()->getitem(sl); (void)first; stack.push_back(y.get()->getitem(sl)); }      // the same Slice object applied twice: it belongs to the caller
    else if (c == "maskof") { ContentPtr x = pop(); std::shared_ptr<Index8> m;
      if (IndexedOptionArray64* r = dynamic_cast<IndexedOptionArray64*>(x.get())) m = std::make_shared<Index8>(r->bytemask());
      else if (IndexedOptionArray32* r = dynamic_cast<IndexedOptionArray32*>(x.get())) m = std::make_shared<Index8>(r->bytemask());
      else if (ByteMaskedArray* r = dynamic_cast<ByteMaskedArray*>(x.get())) m = std::make_shared<Index8>(r->bytemask());
      else if (BitMaskedArray* r = dynamic_cast<BitMaskedArray*>(x.get())) m = std::make_shared<Index8>(r->bytemask());
      else if (UnmaskedArray* r = dynamic_cast<UnmaskedArray*>(x.get())) m = std::make_shared<Index8>(r->bytemask());
      else throw std::runtime_error("akrun: maskof on a non-option node");
      printf("OK ["); for (int64_t i = 0; i < m->length(); i++) printf("%s%d", i ? ", " : "", (int)m->getitem_at_nowrap(i)); printf("]\n"); fflush(stdout); _Exit(0); }
    else if (c == "getfield") { std::string k = next(); ContentPtr x = pop(); stack.push_back(x.get()->getitem_field(k)); }
    else if (c == "getfields") { int64_t n = nint(); std::vector<std::string> ks; for (int64_t i = 0; i < n; i++) ks.push_back(next()); ContentPtr x = pop(); stack.push_back(x.get()->getitem_fields(ks)); }
    else if (c == "at") { int64_t a = nint(); ContentPtr x = pop(); stack.push_back(x.get()->getitem_at(a)); }
    else if (c == "slice") { int64_t a = nint(), b = nint(); ContentPtr x = pop(); stack.push_back(x.get()->getitem_range(a, b)); }
    else if (c == "carry") { int64_t n = nint(); Index64 i = rindex<int64_t>(n); ContentPtr x = pop(); stack.push_back(x.get()->carry(i, false)); }
    else if (c == "reduce") { std::string nm = next(); int64_t axis = nint(); bool mask = nint() != 0, keep = nint() != 0; ContentPtr x = pop(); const Reducer* r = reducer(nm);
      stack.push_back(x.get()->reduce(*r, axis, mask, keep)); }
    else if (c == "sort") { int64_t axis = nint(); bool asc = nint() != 0, st = nint() != 0; ContentPtr x = pop(); stack.push_back(x.get()->sort(axis, asc, st)); }
    else if (c == "argsort") { int64_t axis = nint(); bool asc = nint() != 0, st = nint() != 0; ContentPtr x = pop(); stack.push_back(x.get()->argsort(axis, asc, st)); }
    else if (c == "num") { int64_t axis = nint(); ContentPtr x = pop(); stack.push_back(x.get()->num(axis, 0)); }
    else if (c == "flatten") { int64_t axis = nint(); ContentPtr x = pop(); stack.push_back(x.get()->offsets_and_flattened(axis, 0).second); }
    else if (c == "flatten_offsets") { int64_t axis = nint(); ContentPtr x = pop(); stack.push_back(std::make_shared<NumpyArray>(x.get()->offsets_and_flattened(axis, 0).first)); }
    else if (c == "localindex") { int64_t axis = nint(); ContentPtr x = pop(); stack.push_back(x.get()->localindex(axis, 0)); }
    else if (c == "rpad") { int64_t t = nint(), axis = nint(); ContentPtr x = pop(); stack.push_back(x.get()->rpad(t, axis, 0)); }
    else if (c == "rpadclip") { int64_t t = nint(), axis = nint(); ContentPtr x = pop(); stack.push_back(x.get()->rpad_and_clip(t, axis, 0)); }
    else if (c == "combinations") { int64_t n = nint(); bool rep = nint() != 0; int64_t axis = nint(); ContentPtr x = pop();
      stack.push_back(x.get()->combinations(n, rep, util::RecordLookupPtr(nullptr), noparams, axis, 0)); }
    else if (c == "broadcast") { int64_t n = nint(); Index64 o = rindex<int64_t>(n); ContentPtr x = pop();
      if (ListOffsetArray64* r = dynamic_cast<ListOffsetArray64*>(x.get())) stack.push_back(r->broadcast_tooffsets64(o));
      else if (ListArray64* r = dynamic_cast<ListArray64*>(x.get())) stack.push_back(r->broadcast_tooffsets64(o));
      else if (RegularArray* r = dynamic_cast<RegularArray*>(x.get())) stack.push_back(r->broadcast_tooffsets64(o));
      else if (ListOffsetArray32* r = dynamic_cast<ListOffsetArray32*>(x.get())) stack.push_back(r->broadcast_tooffsets64(o));
      else if (ListOffsetArrayU32* r = dynamic_cast<ListOffsetArrayU32*>(x.get())) stack.push_back(r->broadcast_tooffsets64(o));
      else if (ListArray32* r = dynamic_cast<ListArray32*>(x.get())) stack.push_back(r->broadcast_tooffsets64(o));
      else if (ListArrayU32* r = dynamic_cast<ListArrayU32*>(x.get())) stack.push_back(r->broadcast_tooffsets64(o));
      else throw std::runtime_error("akrun: broadcast on a non-list node"); }
    else if (c == "tolistoffset64") { bool z = nint() != 0; ContentPtr x = pop();
      if (ListOffsetArray64* r = dynamic_cast<ListOffsetArray64*>(x.get())) stack.push_back(r->toListOffsetArray64(z));
      else if (ListArray64* r = dynamic_cast<ListArray64*>(x.get())) stack.push_back(r->toListOffsetArray64(z));
      else if (RegularArray* r = dynamic_cast<RegularArray*>(x.get())) stack.push_back(r->toListOffsetArray64(z));
      else if (ListOffsetArray32* r = dynamic_cast<ListOffsetArray32*>(x.get())) stack.push_back(r->toListOffsetArray64(z));
      else if (ListOffsetArrayU32* r = dynamic_cast<ListOffsetArrayU32*>(x.get())) stack.push_back(r->toListOffsetArray64(z));
      else if (ListArray32* r = dynamic_cast<ListArray32*>(x.get())) stack.push_back(r->toListOffsetArray64(z));
      else if (ListArrayU32* r = dynamic_cast<ListArrayU32*>(x.get())) stack.push_back(r->toListOffsetArray64(z));
      else throw std::runtime_error("akrun: tolistoffset64 on a non-list node"); }
    else if (c == "toregular") { ContentPtr x = pop();
      if (ListOffsetArray64* r = dynamic_cast<ListOffsetArray64*>(x.get())) stack.push_back(r->toRegularArray());
      else if (ListArray64* r = dynamic_cast<ListArray64*>(x.get())) stack.push_back(r->toRegularArray());
      else if (RegularArray* r = dynamic_cast<RegularArray*>(x.get())) stack.push_back(r->toRegularArray());
      else if (ListOffsetArray32* r = dynamic_cast<ListOffsetArray32*>(x.get())) stack.push_back(r->toRegularArray());
      else if (ListOffsetArrayU32* r = dynamic_cast<ListOffsetArrayU32*>(x.get())) stack.push_back(r->toRegularArray());
      else if (ListArray32* r = dynamic_cast<ListArray32*>(x.get())) stack.push_back(r->toRegularArray());
      else if (ListArrayU32* r = dynamic_cast<ListArrayU32*>(x.get())) stack.push_back(r->toRegularArray());
      else if (NumpyArray* r = dynamic_cast<NumpyArray*>(x.get())) stack.push_back(r->toRegularArray());
      else throw std::runtime_error("akrun: toregular on a non-list node"); }
    else if (c == "project") { ContentPtr x = pop();
      if (IndexedOptionArray64* r = dynamic_cast<IndexedOptionArray64*>(x.get())) stack.push_back(r->project());
      else if (ByteMaskedArray* r = dynamic_cast<ByteMaskedArray*>(x.get())) stack.push_back(r->project());
      else if (BitMaskedArray* r = dynamic_cast<BitMaskedArray*>(x.get())) stack.push_back(r->project());
      else if (UnmaskedArray* r = dynamic_cast<UnmaskedArray*>(x.get())) stack.push_back(r->project());
      else throw std::runtime_error("akrun: project on a non-option node"); }
    else if (c == "tooption64") { ContentPtr x = pop();
      if (ByteMaskedArray* r = dynamic_cast<ByteMaskedArray*>(x.get())) stack.push_back(r->toIndexedOptionArray64());
      else if (BitMaskedArray* r = dynamic_cast<BitMaskedArray*>(x.get())) stack.push_back(r->toIndexedOptionArray64());
      else if (UnmaskedArray* r = dynamic_cast<UnmaskedArray*>(x.get())) stack.push_back(r->toIndexedOptionArray64());
      else throw std::runtime_error("akrun: tooption64 on a non-masked node"); }
    else if (c == "tobytemask") { ContentPtr x = pop();
      if (BitMaskedArray* r = dynamic_cast<BitMaskedArray*>(x.get())) stack.push_back(r->toByteMaskedArray());
      else if (UnmaskedArray* r = dynamic_cast<UnmaskedArray*>(x.get())) stack.push_back(r->toByteMaskedArray());
      else throw std::runtime_error("akrun: tobytemask on a non-masked node"); }
    else if (c == "param") { std::string k = next(), v = next(); ContentPtr x = pop(); util::Parameters ps = x.get()->parameters(); ps[k] = v; x.get()->setparameters(ps); stack.push_back(x); }
    else if (c == "fieldat") { int64_t k = nint(); ContentPtr x = pop();
      if (RecordArray* r = dynamic_cast<RecordArray*>(x.get())) stack.push_back(r->field(k));
      else throw std::runtime_error("akrun: fieldat on a non-record node"); }
    else if (c == "unionproject") { int64_t k = nint(); ContentPtr x = pop();
      if (UnionArray8_64* r = dynamic_cast<UnionArray8_64*>(x.get())) stack.push_back(r->project(k));
      else if (UnionArray8_32* r = dynamic_cast<UnionArray8_32*>(x.get())) stack.push_back(r->project(k));
      else if (UnionArray8_U32* r = dynamic_cast<UnionArray8_U32*>(x.get())) stack.push_back(r->project(k));
      else throw std::runtime_error("akrun: unionproject on a non-union node"); }
    else if (c == "mergeunion") { ContentPtr b = pop(); ContentPtr a = pop(); stack.push_back(a.get()->merge_as_union(b)); }
    else if (c == "merge") { ContentPtr b = pop(); ContentPtr a = pop(); stack.push_back(a.get()->merge(b)); }
    else if (c == "mergemany") { int64_t k = nint(); ContentPtrVec cs((size_t)k); for (int64_t j = k - 1; j >= 0; j--) cs[(size_t)j] = pop(); ContentPtr a = pop(); stack.push_back(a.get()->mergemany(cs)); }
    else if (c == "fillna") { ContentPtr v = pop(); ContentPtr a = pop(); stack.push_back(a.get()->fillna(v)); }
    else if (c == "simplify") { ContentPtr a = pop(); stack.push_back(a.get()->shallow_simplify()); }
    else if (c == "typestr") { ContentPtr a = pop(); util::TypeStrs ts; std::string t = a.get()->type(ts).get()->tostring(); printf("OK \"%s\"\n", t.c_str()); fflush(stdout); _Exit(0); }
    else if (c == "formjson") { ContentPtr a = pop(); std::string j = a.get()->form(true).get()->tojson(false, false); printf("OK %s\n", j.c_str()); fflush(stdout); _Exit(0); }
    else if (c == "rangeof") { int64_t a = nint(), b = nint(); ContentPtr x = pop(); stack.push_back(x.get()->getitem_range_nowrap(a, b)); }      // the view x[a:b] (no wrapping, no copy)
    else if (c == "isunique") { ContentPtr a = pop(); printf("OK %s\n", a.get()->is_unique() ? "true" : "false"); fflush(stdout); _Exit(0); }
    else if (c == "viewfrom") { int64_t k = nint(); ContentPtr x = pop();      // the same lists from list k on, as a view into the same offsets buffer
      if (ListOffsetArray64* r = dynamic_cast<ListOffsetArray64*>(x.get())) stack.push_back(std::make_shared<ListOffsetArray64>(noid, noparams, r->offsets().getitem_range_nowrap(k, r->offsets().length()), r->content()));
      else throw std::runtime_error("akrun: viewfrom on something that is not a ListOffsetArray64"); }
    else if (c == "validity") { ContentPtr a = pop(); std::string e = a.get()->validityerror("layout"); for (size_t i = 0; i < e.size(); i++) if (e[i] == 10 || e[i] == 13 || e[i] == 34 || e[i] == 92) e[i] = 32;
      printf("OK %s\n", e.empty() ? "\"\"" : ("\"" + e + "\"").c_str()); fflush(stdout); _Exit(0); }
    else if (c == "depths") { ContentPtr a = pop(); std::pair<int64_t, int64_t> mm = a.get()->minmax_depth(); std::pair<bool, int64_t> bd = a.get()->branch_depth();
      printf("OK [%lld, %lld, %lld, %d, %lld, %lld]\n", (long long)a.get()->purelist_depth(), (long long)mm.first, (long long)mm.second, (int)bd.first, (long long)bd.second, (long long)a.get()->numfields());
      fflush(stdout); _Exit(0); }
    else if (c == "viewint64") { ContentPtr a = pop(); NumpyArray* r = dynamic_cast<NumpyArray*>(a.get()); if (!r || r->itemsize() != 8) throw std::runtime_error("akrun: viewint64 needs a NumpyArray of 8-byte items");
      stack.push_back(std::make_shared<NumpyArray>(noid, noparams, r->ptr(), r->shape(), r->strides(), r->byteoffset(), 8, "l", util::dtype::int64, kernel::lib::cpu)); }
    else if (c == "astype") { std::string nm = next(); ContentPtr a = pop(); stack.push_back(a.get()->numbers_to_type(nm)); }
    else if (c == "numkeys") { ContentPtr a = pop(); printf("OK %lld\n", (long long)a.get()->keys().size()); fflush(stdout); _Exit(0); }
    else if (c == "drop") { pop(); }
    else if (c == "setfield") { std::string k = next(); ContentPtr what = pop(); ContentPtr a = pop();
      if (RecordArray* r = dynamic_cast<RecordArray*>(a.get())) stack.push_back(r->setitem_field(k, what));
      else throw std::runtime_error("akrun: setfield on a non-record node"); }
    else if (c == "length") { ContentPtr a = pop(); printf("OK %lld\n", (long long)a.get()->length()); fflush(stdout); _Exit(0); }
    else if (c == "dup") { ContentPtr a = pop(); stack.push_back(a); stack.push_back(a); }
    else throw std::runtime_error("akrun: unknown command " + c);
  }
}

int main(int argc, char** argv) {
  std::ifstream f(argv[1]); std::stringstream ss; ss << f.rdbuf(); std::string t;
  while (ss >> t) toks.push_back(t);
  try {
    run();
    ContentPtr top = pop();
    std::string v = top.get()->validityerror("result");
    if (NumpyArray* sc = dynamic_cast<NumpyArray*>(top.get())) { if (sc->ndim() == 0) v = ""; }   // a scalar answer
    for (size_t i = 0; i < v.size(); i++) if (v[i] == 10 || v[i] == 13) v[i] = 32;
    std::string js = top.get()->tojson(false, -1, nullptr, nullptr, nullptr, nullptr, nullptr);
    if (!v.empty()) printf("INVALID %s | %s\n", v.c_str(), js.c_str()); else printf("OK %s\n", js.c_str());
  } catch (std::exception& e) { std::string w = e.what(); for (size_t i = 0; i < w.size(); i++) if (w[i] == 10 || w[i] == 13) w[i] = 32; printf("ERR %s\n", w.c_str()); }
  fflush(stdout); _Exit(0);
}
