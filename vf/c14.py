"""C14 (narrow claim): GrowableBuffer - one inductive step of append / set_length / clear from an arbitrary state
satisfying the representation invariant: writes stay inside the buffer they target, the old prefix is preserved, the old
buffer object is never written (so a snapshot sharing it is immutable), the invariant is re-established."""
import z3
from . import runner
from .mharness import MCtx, mdischarge, run_cpp
from .oracle import guard, summarize
from .llbmc import Ptr, NULL, ptr_cases, ArrayObj, bv64

ASSUMPTIONS = [
    'state invariant: 0 <= length_ <= reserved_ = capacity(ptr_), reserved_ <= 2^40, options.initial in [0, 2^40]',
    'resize factor in [1.5, 16] (default 1.5); the slice (1, 1.5) is attempted separately and reported inconclusive if the solver gives up',
    'kernel::malloc<T> is stubbed: returns a fresh buffer of exactly bytelength/sizeof(T) elements, never NULL except for 0 bytes '
    '(allocation failure out of scope); shared_ptr control blocks are null (lifetime is not modelled)',
    'outside: the builder tree (UnknownBuilder ... UnionBuilder), from_iter, LayoutBuilder - the value-reproduction half of the property',
]

GB = 'src/libawkward/builder/GrowableBuffer.cpp'
ABO = 'src/libawkward/builder/ArrayBuilderOptions.cpp'
F64 = z3.Float64()

DRIVER = r'''
#include <cstdio>
#include <cstdlib>
#include <cstring>
#include <memory>
#include "awkward/builder/GrowableBuffer.h"
#include "awkward/builder/ArrayBuilderOptions.h"
#include "awkward/kernel-dispatch.h"
using namespace awkward;
// only the CPU path of kernel::malloc is exercised; the CUDA plumbing of kernel-dispatch.cpp is not linked
namespace awkward { namespace kernel {
  void* acquire_handle(kernel::lib) { abort(); }
  void* acquire_symbol(void*, const std::string&) { abort(); }
} }
int main(int argc, char** argv) {
  int64_t initial = atoll(argv[1]); double resize = atof(argv[2]); int64_t length = atoll(argv[3]); int64_t reserved = atoll(argv[4]);
  int64_t datum = atoll(argv[5]); const char* op = argv[6]; int64_t arg = atoll(argv[7]);
  ArrayBuilderOptions options(initial, resize);
  std::shared_ptr<int64_t> ptr(reserved == 0 ? nullptr : new int64_t[reserved], [](int64_t* p) { delete [] p; });
  for (int64_t i = 0; i < length; i++) ptr.get()[i] = 1000 + i;
  std::shared_ptr<int64_t> old = ptr;
  GrowableBuffer<int64_t> gb(options, ptr, length, reserved);
  if (!strcmp(op, "append")) gb.append(datum);
  else if (!strcmp(op, "set_length")) gb.set_length(arg);
  else if (!strcmp(op, "clear")) { gb.clear(); gb.append(datum); }
  int bad = 0;
  int64_t keep = length;
  if (!strcmp(op, "set_length") && arg < keep) keep = arg < 0 ? 0 : arg;
  if (!strcmp(op, "clear")) keep = 0;
  for (int64_t i = 0; i < length; i++) if (old.get()[i] != 1000 + i) bad |= 1;          // snapshot buffer modified
  for (int64_t i = 0; i < keep; i++) if (gb.ptr().get()[i] != 1000 + i) bad |= 2;         // prefix lost
  if (gb.length() > gb.reserved() || gb.length() < 0) bad |= 4;                            // invariant
  if (!strcmp(op, "append") && (gb.length() != length + 1 || gb.ptr().get()[length] != datum)) bad |= 8;
  printf("bad=%d length=%lld reserved=%lld\n", bad, (long long)gb.length(), (long long)gb.reserved());
  return bad ? 1 : 0;
}
'''


def setup(m, resize_lo=1.5, resize_hi=16.0, min_reserved=1):
    initial = m.bv('initial'); length = m.bv('length'); reserved = m.bv('reserved')
    resize = m.fp('resize')
    m.assume(initial >= 0, initial <= 2 ** 40, length >= 0, length <= reserved, reserved >= min_reserved, reserved <= 2 ** 40)
    m.assume(z3.fpGEQ(resize, z3.FPVal(resize_lo, F64)), z3.fpLEQ(resize, z3.FPVal(resize_hi, F64)))
    buf = m.array('buf0', ('i', 64), reserved)
    this = m.record('gb', {0: (initial, 8), 8: (resize, 8), 16: (buf, 8), 24: (NULL, 8), 32: (length, 8), 40: (reserved, 8)})
    return this


def post(m, keep_len):
    """common postconditions: -> list of (name, violation)"""
    L0, R0 = m.sym['length'], m.sym['reserved']
    newptr = m.cell('gb', 16)
    L1, R1 = m.cell('gb', 32), m.cell('gb', 40)
    j = z3.BitVec('j', 64)
    out = []
    old0 = z3.Array('buf0', z3.BitVecSort(64), z3.BitVecSort(64))
    # old buffer object untouched
    # a snapshot shares the buffer and remembers the old length: cells [0, old length) must never change
    out.append(('cells [0, old length) of the old buffer (shared with snapshots) are not written', z3.And(j >= 0, j < L0, z3.Select(m.mem.o['buf0'].arr, j) != z3.Select(old0, j))))
    pres, capok = [], []
    for g, p in ptr_cases(newptr):
        if p.obj is None:
            capok.append(z3.And(g, R1 != 0))
            continue
        o = m.mem.o[p.obj]
        pres.append(z3.And(g, j >= 0, j < keep_len, z3.Select(o.arr, bv64(p.off) + j) != z3.Select(old0, j)))
        capok.append(z3.And(g, z3.Or(bv64(p.off) != 0, o.cap != R1)))
    out.append(('prefix [0, kept length) is preserved in the current buffer', z3.Or(pres + [z3.BoolVal(False)])))
    out.append(('reserved_ equals the capacity of the current buffer', z3.Or(capok + [z3.BoolVal(False)])))
    out.append(('0 <= length_ <= reserved_ afterwards', z3.Or(L1 < 0, L1 > R1)))
    return out, L1, R1, newptr


def native(vals, op):
    import subprocess, os
    from . import build
    exe = build.compile_driver(DRIVER, [GB, ABO, 'src/cpu-kernels/allocators.cpp'], sanitize=True)
    env = dict(os.environ, ASAN_OPTIONS='detect_leaks=0:exitcode=86:allocator_may_return_null=1', UBSAN_OPTIONS='halt_on_error=1:exitcode=87')
    args = [exe, str(vals['initial']), repr(vals['resize']), str(vals['length']), str(vals['reserved']), str(vals['datum']), op, str(vals['arg'])]
    try:
        r = subprocess.run(args, capture_output=True, text=True, timeout=20, env=env, errors='replace')
    except subprocess.TimeoutExpired:
        return True, 'native run did not terminate within 20 s'
    if r.returncode == 0:
        return False, 'native run satisfies all postconditions: ' + r.stdout.strip()
    lines = [l for l in r.stderr.splitlines() if 'ERROR' in l or 'runtime error' in l or 'SUMMARY' in l]
    return True, 'native run fails (%d): %s %s' % (r.returncode, r.stdout.strip(), ' | '.join(lines[:2]))


def small(m):
    return [m.sym['reserved'] <= 64, m.sym['initial'] <= 64]


def mk_replay(m, op, argname=None):
    def replay(model, ent):
        from .kharness import fp_to_py
        ev = lambda n: model.eval(m.sym[n], model_completion=True)
        vals = dict(initial=ev('initial').as_signed_long(), resize=fp_to_py(ev('resize')), length=ev('length').as_signed_long(),
                    reserved=ev('reserved').as_signed_long(), datum=ev('datum').as_signed_long() if 'datum' in m.sym else 0,
                    arg=ev(argname).as_signed_long() if argname else 0)
        if vals['reserved'] > 10 ** 7 or abs(vals['arg']) > 10 ** 7:
            return False, 'model too large to replay natively', vals
        conf, why = native(vals, op)
        return conf, why, vals
    return replay


@guard
def h_append(unit, lo=1.5, hi=16.0, min_reserved=1):
    m = MCtx([GB, ABO], unwind=8)
    this = setup(m, lo, hi, min_reserved)
    datum = m.bv('datum')
    m.call('_ZN7awkward14GrowableBufferIlE6appendEl', [this, datum])
    L0 = m.sym['length']
    obls, L1, R1, newptr = post(m, L0)
    obls.append(('length_ grows by exactly one', L1 != L0 + 1))
    app = []
    for g, p in ptr_cases(newptr):
        if p.obj is not None:
            app.append(z3.And(g, z3.Select(m.mem.o[p.obj].arr, bv64(p.off) + L0) != datum))
    obls.append(('the appended value is stored at index old length', z3.Or(app + [z3.BoolVal(False)])))
    tw = [('reallocation path', L0 == m.sym['reserved']), ('no reallocation', L0 < m.sym['reserved'])]
    return mdischarge(m, unit, obls, tw, timeout_ms=120000, replay=mk_replay(m, 'append'), prefer=small(m),
                      extra=dict(bounds='resize in [%s, %s], reserved in [%d, 2^40]' % (lo, hi, min_reserved)))


@guard
def h_set_length(unit):
    m = MCtx([GB, ABO], unwind=8)
    this = setup(m)
    nl = m.bv('newlength')
    m.assume(nl >= 0, nl <= 2 ** 40)
    m.call('_ZN7awkward14GrowableBufferIlE10set_lengthEl', [this, nl])
    L0 = m.sym['length']
    keep = z3.If(nl < L0, nl, L0)
    obls, L1, R1, newptr = post(m, keep)
    obls.append(('length_ becomes the requested length', L1 != nl))
    tw = [('growth path', nl > m.sym['reserved']), ('shrink', nl < L0)]
    return mdischarge(m, unit, obls, tw, timeout_ms=60000, replay=mk_replay(m, 'set_length', 'newlength'), prefer=small(m) + [m.sym['newlength'] <= 64], extra=dict(bounds='newlength in [0, 2^40]'))


@guard
def h_clear(unit):
    m = MCtx([GB, ABO], unwind=8)
    this = setup(m)
    m.call('_ZN7awkward14GrowableBufferIlE5clearEv', [this])
    obls, L1, R1, newptr = post(m, z3.BitVecVal(0, 64))
    obls.append(('length_ is 0 and reserved_ is options.initial', z3.Or(L1 != 0, R1 != m.sym['initial'])))
    # after clear() the next appends write cells 0, 1, ... of the current buffer: if snapshots may hold cells of the old buffer
    # (old length > 0) the current buffer must be a different object
    shared = [z3.And(g, z3.BoolVal(p.obj == 'buf0')) for g, p in ptr_cases(newptr)]
    obls.append(('a buffer that snapshots may share is not reused after clear()', z3.And(m.sym['length'] > 0, z3.Or(shared + [z3.BoolVal(False)]))))
    return mdischarge(m, unit, obls, [], timeout_ms=60000, replay=mk_replay(m, 'clear'), prefer=small(m), extra=dict(bounds='any invariant state'))


def jobs(tier):
    js = [(h_append, ('GrowableBuffer<int64_t>::append resize in [1.5,16]',), 1800),
          (h_append, ('GrowableBuffer<int64_t>::append resize in [1.5,16] reserved_=0 twin', 1.5, 16.0, 0), 1800),
          (h_set_length, ('GrowableBuffer<int64_t>::set_length',), 900),
          (h_clear, ('GrowableBuffer<int64_t>::clear',), 900)]
    if tier == 'thorough':
        js.append((h_append, ('GrowableBuffer<int64_t>::append resize in [1.0001,1.5]', 1.0001, 1.5), 3600))
    return js


def main(report, tier):
    from . import mbuild
    return summarize(report, runner.run_tasks(jobs(tier) + mbuild.jobs('thorough')), 'C14')      # the builder-tree harnesses are cheap: the full list in both tiers
