"""C03: reducers combine exactly the elements of each group (leaf kernels, local and non-local reduce_next pipelines)."""
import itertools
import z3
from . import kspec, runner
from .oracle import Harness, discharge, guard, summarize
from .hlib import BV, decl_offsets
from .kharness import widen
from .llbmc import fp_comm

ASSUMPTIONS = [
    'reducer protocol as Content::reduce / reduce_next establish it: parents non-decreasing in [0, outlength), starts[g] = first '
    'index of group g, offsets zero-based (ListOffsetArray64::reduce_next compacts first)',
    'leaf oracle: toptr[g] = fold(op, identity, {from[i] : parents[i] = g}) in input order; sum/prod modulo 2^w of the output '
    'type; arg-reducers return the first extremal position; floats: min/max/count exact incl. NaN behaviour as coded, sum/prod '
    'same order and precision',
    'bounds (quick/thorough): elements n <= 3/4, groups <= 2/3; non-local: lists <= 3 of length <= 2/3 (lengths case-split)',
    'outside: Content::reduce axis handling, keepdims/mask_identity wrapping, records/unions, axis=None, complex/datetime',
]


def parents_premises(h, n, G, name='parents'):
    prev = None
    for i in range(n):
        p = h.init(name, i)
        h.assume(p >= 0, p < G)
        if prev is not None:
            h.assume(p >= prev)
        prev = p


def zif(c, a, b):
    c = z3.simplify(c)
    if z3.is_true(c):
        return a
    if z3.is_false(c):
        return b
    return z3.If(c, a, b)


def out_sort(a):
    if a.kind == 'f':
        return z3.Float32() if a.bits == 32 else z3.Float64()
    return None


def cast_in(a_in, a_out, v):
    """(OUT)from[i] as the kernel's C cast: v is the widened (64-bit) integer or FP input"""
    if a_out.kind == 'f':
        s = out_sort(a_out)
        if a_in.kind == 'f':
            return v if v.sort() == s else z3.fpFPToFP(z3.RNE(), v, s)
        return z3.fpSignedToFP(z3.RNE(), v, s) if a_in.signed or a_in.bits < 64 else z3.fpUnsignedToFP(z3.RNE(), v, s)
    return v


def trunc_out(a_out, v):
    """value as stored in the output C type then widened again (wrap-around modulo 2^w)"""
    if a_out.kind == 'f':
        return v
    if a_out.kind == 'b':
        return v
    if a_out.bits < 64:
        return widen(z3.Extract(a_out.bits - 1, 0, v), a_out.signed)
    return v


@guard
def h_leaf(cname, n, G, pars=None):
    sp = kspec.spec_by_name()[cname]
    kname = sp.kernel.name
    op = kname.replace('awkward_reduce_', '')
    args = {a.name: a for a in sp.args}
    a_out, a_in = args['toptr'], args.get('fromptr')
    h = Harness(cname, unwind=n + G + 4)
    h.scalar('lenparents', 'int64_t', n); h.scalar('outlength', 'int64_t', G)
    h.arr('toptr', a_out.ctype, G)
    if a_in is not None:
        h.arr('fromptr', a_in.ctype, n, const=True)
        if a_in.kind == 'b':
            for i in range(n):
                h.assume(z3.ULE(h.raw_init('fromptr', i), 1))
    u64 = a_in is not None and a_in.kind == 'i' and a_in.bits == 64 and not a_in.signed

    def lt(a, b):                    # the input type's own order (uint64 is the one type the 64-bit signed order gets wrong)
        return z3.ULT(a, b) if u64 else a < b

    def gt(a, b):
        return z3.UGT(a, b) if u64 else a > b
    if pars is not None:            # case split on the group assignment (products: symbolic x symbolic multiplication)
        h.array('parents', 'int64_t', n, const=True, values=list(pars))
    else:
        h.arr('parents', 'int64_t', n, const=True)
        parents_premises(h, n, G)
    call = [('buf', 'toptr')] + ([('buf', 'fromptr')] if a_in is not None else []) + [('buf', 'parents'), 'lenparents', 'outlength']
    if 'identity' in args:
        h.scalar('identity', args['identity'].ctype)
        call.append('identity')
    h.kcall(cname, call)

    def oracle(io):
        out = [('no error', io.err())]
        for g in range(G):
            ing = [io.x('parents', i) == g for i in range(n)]
            xs = [io.x('fromptr', i) for i in range(n)] if a_in is not None else [None] * n
            if a_in is not None and a_in.kind == 'f':
                nz = [z3.Not(z3.fpIsZero(x)) for x in xs]
            elif a_in is not None:
                nz = [x != 0 for x in xs]
            if op in ('sum', 'prod'):
                if a_out.kind == 'f':
                    acc = z3.FPVal(0.0 if op == 'sum' else 1.0, out_sort(a_out))
                    for i in range(n):
                        v = cast_in(a_in, a_out, xs[i])
                        acc = zif(ing[i], fp_comm('add', acc, v) if op == 'sum' else fp_comm('mul', acc, v), acc)
                    exp = acc
                else:
                    acc = BV(0 if op == 'sum' else 1)
                    for i in range(n):
                        v = xs[i] if a_in.kind != 'b' else z3.If(nz[i], BV(1), BV(0))
                        acc = zif(ing[i], acc + v if op == 'sum' else acc * v, acc)
                    exp = trunc_out(a_out, acc)
            elif op in ('sum_bool', 'prod_bool'):
                t = z3.BoolVal(op == 'prod_bool')
                for i in range(n):
                    t = z3.If(ing[i], z3.Or(t, nz[i]) if op == 'sum_bool' else z3.And(t, nz[i]), t)
                exp = z3.If(t, BV(1), BV(0))
            elif op in ('sum_int64_bool_64', 'sum_int32_bool_64', 'countnonzero'):
                acc = BV(0)
                for i in range(n):
                    acc = z3.If(z3.And(ing[i], nz[i]), acc + 1, acc)
                exp = trunc_out(a_out, acc)
            elif op == 'count_64':
                acc = BV(0)
                for i in range(n):
                    acc = z3.If(ing[i], acc + 1, acc)
                exp = acc
            elif op in ('min', 'max'):
                acc = io.sc('identity')
                for i in range(n):
                    if a_in.kind == 'f':
                        better = z3.fpLT(xs[i], acc) if op == 'min' else z3.fpGT(xs[i], acc)
                    else:
                        better = lt(xs[i], acc) if op == 'min' else gt(xs[i], acc)
                    acc = z3.If(z3.And(ing[i], better), xs[i], acc)
                exp = acc
            elif op in ('argmin', 'argmax'):
                # position (in the flat input) of the first extremal element of the group; -1 for an empty group
                best = BV(-1)
                bestv = None
                for i in range(n):
                    if bestv is None:
                        take = ing[i]
                        bestv_new = xs[i]
                    else:
                        if a_in.kind == 'f':
                            better = z3.fpLT(xs[i], bestv) if op == 'argmin' else z3.fpGT(xs[i], bestv)
                        else:
                            better = lt(xs[i], bestv) if op == 'argmin' else gt(xs[i], bestv)
                        take = z3.And(ing[i], z3.Or(best == -1, better))
                    bestv = xs[i] if bestv is None else z3.If(take, xs[i], bestv)
                    best = z3.If(take, BV(i), best)
                exp = best
            else:
                raise ValueError(op)
            got = io.y('toptr', g)
            if a_out.kind == 'f':
                out.append(('group %d: %s over exactly its elements' % (g, op), z3.Not(got == exp)))
            elif a_out.kind == 'b':
                out.append(('group %d: %s over exactly its elements' % (g, op), (got != 0) != (exp != 0)))
            else:
                out.append(('group %d: %s over exactly its elements' % (g, op), got != exp))
        return out
    tw = []
    if n >= 2 and G >= 2 and pars is None:
        tw.append(('an empty group and a group of 2+', z3.And(h.init('parents', 0) == h.init('parents', 1), h.init('parents', n - 1) != G - 1)))
    return discharge(h, '%s n=%d G=%d%s' % (cname, n, G, '' if pars is None else ' parents=%s' % (pars,)), oracle, tw, timeout_ms=60000, extra=dict(bounds=dict(n=n, groups=G)))


@guard
def h_local(n, L, G, lens=None):
    """local branch of ListOffsetArray64::reduce_next with a sum leaf: global_startstop -> local_nextparents ->
    reduce_sum_int64 -> local_outoffsets.  Result: list i of the input reduces to one value; output lists group by parents."""
    names = ['awkward_ListOffsetArray_reduce_global_startstop_64', 'awkward_ListOffsetArray_reduce_local_nextparents_64',
             'awkward_reduce_sum_int64_int64_64', 'awkward_ListOffsetArray_reduce_local_outoffsets_64']
    h = Harness(names, unwind=n * (L + 2) + G + 8)
    h.scalar('length', 'int64_t', n); h.scalar('outlength', 'int64_t', G)
    decl_offsets(h, n, L, 'int64_t', name='offsets', zero_based=True, lens=lens)
    h.arr('parents', 'int64_t', n, const=True)
    parents_premises(h, n, G)
    h.arr('globalstart', 'int64_t', 1); h.arr('globalstop', 'int64_t', 1)
    h.kcall(names[0], [('buf', 'globalstart'), ('buf', 'globalstop'), ('buf', 'offsets'), 'length'])
    nextlen = h.out('globalstop', 0) - h.out('globalstart', 0)
    h.arr('nextparents', 'int64_t', nextlen, cap_c='globalstop[0] - globalstart[0]')
    h.kcall(names[1], [('buf', 'nextparents'), ('buf', 'offsets'), 'length'])
    h.arr('content', 'int64_t', nextlen, const=True, cap_c='globalstop[0] - globalstart[0]')
    h.arr('outcontent', 'int64_t', n)
    h.scalar('nextlen', 'int64_t')
    h.assume(h.scalars['nextlen'][0] == nextlen)
    h.kcall(names[2], [('buf', 'outcontent'), ('buf', 'content'), ('buf', 'nextparents'), 'nextlen', 'length'])
    h.arr('outoffsets', 'int64_t', G + 1)
    h.kcall(names[3], [('buf', 'outoffsets'), ('buf', 'parents'), 'length', 'outlength'])

    def oracle(io):
        out = [('no error', z3.Or([io.err(k) for k in range(4)]))]
        for i in range(n):
            a, b = io.x('offsets', i), io.x('offsets', i + 1)
            s = BV(0)
            for p in range(L):
                s = z3.If(p < b - a, s + io.x('content', a + p), s)
            out.append(('list %d reduces to the sum of its own elements' % i, io.y('outcontent', i) != s))
        # output lists: group g holds the results of the input lists whose parent is g, in order
        for g in range(G + 1):
            cnt = BV(0)
            for i in range(n):
                cnt = z3.If(io.x('parents', i) < g, cnt + 1, cnt)
            out.append(('outoffsets[%d] = number of lists in earlier groups' % g, io.y('outoffsets', g) != cnt))
        return out
    return discharge(h, 'reduce_next local n=%d G=%d%s' % (n, G, '' if lens is None else ' lens=%s' % (lens,)), oracle, [],
                     extra=dict(bounds=dict(n=n, L=L, groups=G)))


@guard
def h_nonlocal(n, L, G, lens, positions):
    """non-local branch of ListOffsetArray64::reduce_next (reduce across lists of a group, per inner position):
    global_startstop, maxcount_offsetscopy, preparenext, nextstarts, findgaps, outstartsstops, [nextshifts],
    then the leaf (sum, or argmin with adjust_starts_shifts) - buffers sized as the C++ sizes them."""
    K = ['awkward_ListOffsetArray_reduce_global_startstop_64', 'awkward_ListOffsetArray_reduce_nonlocal_maxcount_offsetscopy_64',
         'awkward_ListOffsetArray_reduce_nonlocal_preparenext_64', 'awkward_ListOffsetArray_reduce_nonlocal_nextstarts_64',
         'awkward_ListOffsetArray_reduce_nonlocal_findgaps_64', 'awkward_ListOffsetArray_reduce_nonlocal_outstartsstops_64',
         'awkward_ListOffsetArray_reduce_nonlocal_nextshifts_64', 'awkward_reduce_sum_int64_int64_64', 'awkward_reduce_argmin_int64_64',
         'awkward_NumpyArray_reduce_adjust_starts_shifts_64']
    maxc = max(lens) if lens else 0
    nextlen = sum(lens)
    h = Harness(K, unwind=(n + 2) * (maxc + 2) * 2 + G * maxc + 12, max_instrs=2000000)
    h.scalar('length', 'int64_t', n); h.scalar('outlength', 'int64_t', G)
    decl_offsets(h, n, L, 'int64_t', name='offsets', zero_based=True, lens=lens)
    h.arr('parents', 'int64_t', n, const=True)
    parents_premises(h, n, G)
    # starts as Content::reduce builds them for this level: starts[g] = index of the first list of group g
    h.arr('starts', 'int64_t', G, const=True)
    for g in range(G):
        first = BV(n)
        for i in reversed(range(n)):
            first = z3.If(h.init('parents', i) == g, BV(i), first)
        h.assume(h.init('starts', g) == first)
    h.arr('globalstart', 'int64_t', 1); h.arr('globalstop', 'int64_t', 1); h.arr('maxcount', 'int64_t', 1)
    h.arr('offsetscopy', 'int64_t', n + 1)
    h.kcall(K[0], [('buf', 'globalstart'), ('buf', 'globalstop'), ('buf', 'offsets'), 'length'])
    h.kcall(K[1], [('buf', 'maxcount'), ('buf', 'offsetscopy'), ('buf', 'offsets'), 'length'])
    h.scalar('nextlen', 'int64_t', nextlen); h.scalar('maxcountv', 'int64_t', maxc); h.scalar('distinctslen', 'int64_t', maxc * G)
    for nm in ('nextcarry', 'nextparents'):
        h.arr(nm, 'int64_t', nextlen)
    h.arr('maxnextparents', 'int64_t', 1)
    h.arr('distincts', 'int64_t', maxc * G)
    h.kcall(K[2], [('buf', 'nextcarry'), ('buf', 'nextparents'), 'nextlen', ('buf', 'maxnextparents'), ('buf', 'distincts'), 'distinctslen',
                   ('buf', 'offsetscopy'), ('buf', 'offsets'), 'length', ('buf', 'parents'), 'maxcountv'])
    mnp = h.out('maxnextparents', 0)
    h.arr('nextstarts', 'int64_t', mnp + 1, cap_c='maxnextparents[0] + 1')
    h.kcall(K[3], [('buf', 'nextstarts'), ('buf', 'nextparents'), 'nextlen'])
    h.arr('gaps', 'int64_t', G)
    h.kcall(K[4], [('buf', 'gaps'), ('buf', 'parents'), 'length'])
    h.arr('outstarts', 'int64_t', G); h.arr('outstops', 'int64_t', G)
    h.kcall(K[5], [('buf', 'outstarts'), ('buf', 'outstops'), ('buf', 'distincts'), 'distinctslen', ('buf', 'gaps'), 'outlength'])
    h.arr('content', 'int64_t', nextlen, const=True)
    # content_->carry(nextcarry) feeds the leaf: carried[k] = content[nextcarry[k]]
    h.arr('carried', 'int64_t', nextlen, const=True)
    for k in range(nextlen):
        nc = h.out('nextcarry', k)
        v = BV(0)
        for j in range(nextlen):
            v = z3.If(nc == j, h.init('content', j), v)
        h.assume(h.init('carried', k) == v)
    h.scalar('leafout', 'int64_t')
    h.assume(h.scalars['leafout'][0] == mnp + 1)
    h.arr('outcontent', 'int64_t', mnp + 1, cap_c='maxnextparents[0] + 1')
    if positions:
        h.arr('nummissing', 'int64_t', maxc); h.arr('missing', 'int64_t', nextlen); h.arr('nextshifts', 'int64_t', nextlen)
        h.kcall(K[6], [('buf', 'nummissing'), ('buf', 'missing'), ('buf', 'nextshifts'), ('buf', 'offsets'), 'length', ('buf', 'starts'),
                       ('buf', 'parents'), 'maxcountv', 'nextlen', ('buf', 'nextcarry')])
        h.kcall(K[8], [('buf', 'outcontent'), ('buf', 'carried'), ('buf', 'nextparents'), 'nextlen', 'leafout'])
        h.kcall(K[9], [('buf', 'outcontent'), 'leafout', ('buf', 'nextparents'), ('buf', 'nextstarts'), ('buf', 'nextshifts')])
    else:
        h.kcall(K[7], [('buf', 'outcontent'), ('buf', 'carried'), ('buf', 'nextparents'), 'nextlen', 'leafout'])

    def oracle(io):
        out = [('no error', z3.Or([io.err(k) for k in range(len(h.errs))]))]
        offs = [sum(lens[:i]) for i in range(n + 1)]
        for g in range(G):
            ing = [io.x('parents', i) == g for i in range(n)]
            glen = BV(0)
            for i in range(n):
                glen = z3.If(z3.And(ing[i], BV(lens[i]) > glen), BV(lens[i]), glen)
            s, e = io.y('outstarts', g), io.y('outstops', g)
            out.append(('group %d: result length = longest list of the group' % g, e - s != glen))
            for d in range(maxc):
                if positions:
                    # argmin over {X[i][d]}: position within the group (counting lists too short to have d), first minimum
                    best, bestv, pos = BV(-1), None, BV(0)
                    for i in range(n):
                        if lens[i] > d:
                            x = io.x('content', offs[i] + d)
                            take = z3.And(ing[i], z3.Or(best == -1, x < bestv)) if bestv is not None else ing[i]
                            bestv = x if bestv is None else z3.If(take, x, bestv)
                            best = z3.If(take, pos, best)
                        pos = z3.If(ing[i], pos + 1, pos)
                    exp = best
                    what = 'argmin'
                else:
                    exp = BV(0)
                    for i in range(n):
                        if lens[i] > d:
                            exp = z3.If(ing[i], exp + io.x('content', offs[i] + d), exp)
                    what = 'sum'
                out.append(('group %d depth %d: %s over the lists of the group that reach this depth' % (g, d, what),
                            z3.And(d < glen, io.y('outcontent', s + d) != exp)))
        return out
    tw = []
    return discharge(h, 'reduce_next nonlocal %s n=%d G=%d lens=%s' % ('argmin' if positions else 'sum', n, G, lens), oracle, tw,
                     timeout_ms=60000, extra=dict(bounds=dict(n=n, L=L, groups=G)))


@guard
def h_option(kind, n, G, mode, m=3):
    """option node above the leaf on the reduced axis: IndexedOptionArray64 / ByteMaskedArray :: reduce_next wired as in the C++
    (numnull sizes nextcarry/nextparents; reduce_next_64 projects; [nextshifts]; leaf reducer; adjust_starts_shifts).
    mode: 'sum' | 'argmin' (no incoming shifts) | 'argmin_shifts' (incoming shifts from an outer non-local level)"""
    idx = kind == 'indexed'
    K = (['awkward_IndexedArray64_numnull', 'awkward_IndexedArray64_reduce_next_64', 'awkward_IndexedArray64_reduce_next_nonlocal_nextshifts_64',
          'awkward_IndexedArray64_reduce_next_nonlocal_nextshifts_fromshifts_64'] if idx else
         ['awkward_ByteMaskedArray_numnull', 'awkward_ByteMaskedArray_reduce_next_64', 'awkward_ByteMaskedArray_reduce_next_nonlocal_nextshifts_64',
          'awkward_ByteMaskedArray_reduce_next_nonlocal_nextshifts_fromshifts_64'])
    leaf = ['awkward_reduce_sum_int64_int64_64', 'awkward_reduce_argmin_int64_64', 'awkward_NumpyArray_reduce_adjust_starts_shifts_64']
    h = Harness(K + leaf, unwind=n + G + 6)
    h.scalar('length', 'int64_t', n); h.scalar('outlength', 'int64_t', G)
    if idx:
        h.arr('index', 'int64_t', n, const=True)
        for i in range(n):
            h.assume(h.init('index', i) < m)
        valid = [h.init('index', i) >= 0 for i in range(n)]
        src = [h.init('index', i) for i in range(n)]
        node = [('buf', 'index')]
        vw = []
    else:
        h.arr('mask', 'int8_t', n, const=True); h.scalar('validwhen', 'bool')
        valid = [(h.init('mask', i) != 0) == (h.scalars['validwhen'][0] == 1) for i in range(n)]
        src = [BV(i) for i in range(n)]
        m = n
        node = [('buf', 'mask')]
        vw = ['validwhen']
    h.arr('parents', 'int64_t', n, const=True)
    parents_premises(h, n, G)
    h.arr('starts', 'int64_t', G, const=True)
    for g in range(G):
        first = BV(n)
        for i in reversed(range(n)):
            first = z3.If(h.init('parents', i) == g, BV(i), first)
        h.assume(h.init('starts', g) == first)
    h.arr('numnull', 'int64_t', 1)
    h.kcall(K[0], [('buf', 'numnull')] + node + ['length'] + vw)
    nn = h.out('numnull', 0)
    for nm in ('nextcarry', 'nextparents'):
        h.arr(nm, 'int64_t', n - nn, cap_c='%d - numnull[0]' % n)
    h.arr('outindex', 'int64_t', n)
    h.kcall(K[1], [('buf', 'nextcarry'), ('buf', 'nextparents'), ('buf', 'outindex')] + node + [('buf', 'parents'), 'length'] + vw)
    h.scalar('nextlen', 'int64_t')
    h.assume(h.scalars['nextlen'][0] == n - nn)
    h.arr('content', 'int64_t', m, const=True)
    h.arr('carried', 'int64_t', n - nn, const=True, cap_c='%d - numnull[0]' % n)
    for k in range(n):
        nc = h.out('nextcarry', k)
        v = BV(0)
        for j in range(m):
            v = z3.If(nc == j, h.init('content', j), v)
        h.assume(z3.Implies(k < n - nn, h.init('carried', k) == v))
    h.arr('out', 'int64_t', G)
    if mode == 'sum':
        h.kcall(leaf[0], [('buf', 'out'), ('buf', 'carried'), ('buf', 'nextparents'), 'nextlen', 'outlength'])
    else:
        h.arr('nextshifts', 'int64_t', n - nn, cap_c='%d - numnull[0]' % n)
        if mode == 'argmin_shifts':
            h.arr('shifts', 'int64_t', n, const=True)
            for i in range(n):
                h.assume(h.init('shifts', i) >= 0, h.init('shifts', i) <= 1000)
            h.kcall(K[3], [('buf', 'nextshifts')] + node + ['length'] + vw + [('buf', 'shifts')])
        else:
            h.kcall(K[2], [('buf', 'nextshifts')] + node + ['length'] + vw)
        h.kcall(leaf[1], [('buf', 'out'), ('buf', 'carried'), ('buf', 'nextparents'), 'nextlen', 'outlength'])
        h.kcall(leaf[2], [('buf', 'out'), 'outlength', ('buf', 'nextparents'), ('buf', 'starts'), ('buf', 'nextshifts')])

    def oracle(io):
        out = [('no error', z3.Or([io.err(k) for k in range(len(h.errs))]))]
        if idx:
            val = [io.x('index', i) >= 0 for i in range(n)]

            def value(i):
                v = BV(0)
                for j in range(m):
                    v = z3.If(io.x('index', i) == j, io.x('content', j), v)
                return v
        else:
            val = [(io.x('mask', i) != 0) == io.sc('validwhen') for i in range(n)]

            def value(i):
                return io.x('content', i)
        cnt = BV(0)
        for i in range(n):
            cnt = z3.If(val[i], cnt, cnt + 1)
        out.append(('numnull counts the missing entries', io.y('numnull', 0) != cnt))
        for g in range(G):
            ing = [z3.And(io.x('parents', i) == g, val[i]) for i in range(n)]
            if mode == 'sum':
                exp = BV(0)
                for i in range(n):
                    exp = z3.If(ing[i], exp + value(i), exp)
                out.append(('group %d: sum over the non-missing elements of the group' % g, io.y('out', g) != exp))
            else:
                best, bestv = BV(-1), None
                for i in range(n):
                    x = value(i)
                    take = ing[i] if bestv is None else z3.And(ing[i], z3.Or(best == -1, x < bestv))
                    bestv = x if bestv is None else z3.If(take, x, bestv)
                    sh = io.x('shifts', i) if mode == 'argmin_shifts' else BV(0)
                    best = z3.If(take, BV(i) + sh - io.x('starts', g), best)
                out.append(('group %d: argmin position counts the missing entries before it' % g, io.y('out', g) != best))
        return out
    tw = [('a missing entry before a valid one', z3.And(z3.Not(valid[0]), valid[1]))] if n >= 2 else []
    return discharge(h, 'reduce_next through %s option node, %s, n=%d G=%d' % ('IndexedOptionArray64' if idx else 'ByteMaskedArray', mode, n, G),
                     oracle, tw, timeout_ms=60000, extra=dict(bounds=dict(n=n, groups=G)))


LEAF_KERNELS = ['awkward_reduce_sum', 'awkward_reduce_prod', 'awkward_reduce_min', 'awkward_reduce_max', 'awkward_reduce_argmin',
                'awkward_reduce_argmax', 'awkward_reduce_count_64', 'awkward_reduce_countnonzero', 'awkward_reduce_sum_bool',
                'awkward_reduce_prod_bool', 'awkward_reduce_sum_int64_bool_64', 'awkward_reduce_sum_int32_bool_64']


def jobs(tier):
    K = kspec.by_name()
    js = []
    N, G = (3, 2) if tier == 'quick' else (4, 3)
    for kn in LEAF_KERNELS:
        for s in K[kn].specs:
            isf = any(a.kind == 'f' for a in s.args)
            if tier == 'quick' and kn in ('awkward_reduce_sum', 'awkward_reduce_prod', 'awkward_reduce_min', 'awkward_reduce_max') and \
                    not any(t in s.name for t in ('int64_int64', 'float64_float64', 'uint32_uint8', 'int32_int8', 'int64_bool', 'int32_bool')):
                continue
            n = min(N, 3) if isf else N
            if 'prod' in kn and 'bool' not in kn:
                # symbolic x symbolic products: case-split the group assignment so both sides build the same product term
                n = 3
                for pars in itertools.combinations_with_replacement(range(G), n):
                    js.append((h_leaf, (s.name, n, G, pars), 900))
                continue
            js.append((h_leaf, (s.name, n, G), 900))
    for n in range(0, N + 1):
        if n <= 2:
            js.append((h_local, (n, 3, G), 900))
        else:
            for lens in itertools.product(range(3), repeat=n):
                js.append((h_local, (n, 2, G, lens), 900))
    for kind in ('indexed', 'bytemasked'):
        for mode in ('sum', 'argmin', 'argmin_shifts'):
            for n in range(1, N + 1):
                js.append((h_option, (kind, n, G, mode), 1200))
    L = 2 if tier == 'quick' else 3
    for n in range(1, 4):
        for lens in itertools.product(range(L + 1), repeat=n):
            if sum(lens) == 0:
                continue
            for G2 in ((2,) if tier == 'quick' else (1, 2, 3)):
                js.append((h_nonlocal, (n, L, G2, lens, False), 1200))
                js.append((h_nonlocal, (n, L, G2, lens, True), 1200))
    return js


def all_jobs(tier):
    from . import extra_misc, mnode
    from . import c03red
    return jobs(tier) + extra_misc.jobs_for('C03', tier) + mnode.jobs_for('C03', tier) + c03red.jobs(tier) + c03red.jobs_numpy_reduce(tier)


def main(report, tier):
    return summarize(report, runner.run_tasks(all_jobs(tier)), 'C03')
