"""Further oracle harnesses for kernels behind C03 / C05 / C06 / C08 / C09 (each function notes its property)."""
import itertools
import z3
from . import kspec
from .oracle import Harness, discharge, guard
from .hlib import BV, decl_offsets
from .c03 import parents_premises


def gather(io, src, j, m):
    v = BV(0)
    for k in range(m):
        v = z3.If(j == k, io.x(src, k), v)
    return v


# ------------------------------------------------------------------------------------------------------- C03
@guard
def h_adjust_starts(n, G):
    """C03: positions returned by arg-reducers are made relative to the start of their group (missing = -1 stays)"""
    cname = 'awkward_NumpyArray_reduce_adjust_starts_64'
    h = Harness(cname, unwind=G + 4)
    h.scalar('outlength', 'int64_t', G)
    h.arr('toptr', 'int64_t', G); h.arr('parents', 'int64_t', n, const=True); h.arr('starts', 'int64_t', G, const=True)
    parents_premises(h, n, G)
    for g in range(G):
        h.assume(h.init('toptr', g) >= -1, h.init('toptr', g) < n)
    h.kcall(cname, [('buf', 'toptr'), 'outlength', ('buf', 'parents'), ('buf', 'starts')])

    def oracle(io):
        out = [('no error', io.err())]
        for g in range(G):
            i = io.x('toptr', g)
            st = gather(io, 'starts', gather(io, 'parents', i, n), G)
            out.append(('group %d: position made relative to the group start, -1 kept' % g, io.y('toptr', g) != z3.If(i >= 0, i - st, i)))
        return out
    return discharge(h, '%s n=%d G=%d' % (cname, n, G), oracle, [], extra=dict(bounds=dict(n=n, groups=G)))


@guard
def h_reduce_mask(n, G):
    """C03: mask_identity - a group is masked (1) exactly when it has no element"""
    cname = 'awkward_NumpyArray_reduce_mask_ByteMaskedArray_64'
    h = Harness(cname, unwind=n + G + 4)
    h.scalar('lenparents', 'int64_t', n); h.scalar('outlength', 'int64_t', G)
    h.arr('toptr', 'int8_t', G); h.arr('parents', 'int64_t', n, const=True)
    parents_premises(h, n, G)
    h.kcall(cname, [('buf', 'toptr'), ('buf', 'parents'), 'lenparents', 'outlength'])

    def oracle(io):
        out = [('no error', io.err())]
        for g in range(G):
            empty = z3.And([io.x('parents', i) != g for i in range(n)] + [z3.BoolVal(True)])
            out.append(('group %d masked iff empty' % g, (io.y('toptr', g) != 0) != empty))
        return out
    return discharge(h, '%s n=%d G=%d' % (cname, n, G), oracle, [], extra=dict(bounds=dict(n=n, groups=G)))


# ------------------------------------------------------------------------------------------------------- C09
@guard
def h_index_of_nulls(w, n, G):
    """C09: positions (within their group) of the missing entries, in order"""
    cname = 'awkward_IndexedArray%s_index_of_nulls' % w
    ct = {'32': 'int32_t', 'U32': 'uint32_t', '64': 'int64_t'}[w]
    h = Harness(cname, unwind=n + 4)
    h.scalar('lenindex', 'int64_t', n)
    h.arr('fromindex', ct, n, const=True); h.arr('parents', 'int64_t', n, const=True); h.arr('starts', 'int64_t', G, const=True)
    parents_premises(h, n, G)
    h.arr('toindex', 'int64_t', n)       # callers allocate numnull entries; n is an upper bound
    h.kcall(cname, [('buf', 'toindex'), ('buf', 'fromindex'), 'lenindex', ('buf', 'parents'), ('buf', 'starts')])

    def oracle(io):
        out = [('no error', io.err())]
        k = BV(0)
        for i in range(n):
            miss = io.x('fromindex', i) < 0
            st = gather(io, 'starts', io.x('parents', i), G)
            out.append(('missing entry %d reported at its position within the group' % i, z3.And(miss, io.y('toindex', k) != i - st)))
            k = z3.If(miss, k + 1, k)
        return out
    return discharge(h, '%s n=%d G=%d' % (cname, n, G), oracle, [], extra=dict(bounds=dict(n=n, groups=G)))


@guard
def h_missing_repeat(n, reps):
    """C09: an option index repeated over `reps` regular blocks: valid entries shift by the block size, missing stays missing"""
    cname = 'awkward_missing_repeat_64'
    h = Harness(cname, unwind=n * reps + n + reps + 4)
    h.scalar('indexlength', 'int64_t', n); h.scalar('repetitions', 'int64_t', reps); h.scalar('regularsize', 'int64_t')
    h.assume(h.scalars['regularsize'][0] >= 0, h.scalars['regularsize'][0] <= 2 ** 40)
    h.arr('outindex', 'int64_t', n * reps); h.arr('index', 'int64_t', n, const=True)
    for i in range(n):
        h.assume(h.init('index', i) <= 2 ** 40)
    h.kcall(cname, [('buf', 'outindex'), ('buf', 'index'), 'indexlength', 'repetitions', 'regularsize'])

    def oracle(io):
        out = [('no error', io.err())]
        for r in range(reps):
            for j in range(n):
                b = io.x('index', j)
                out.append(('block %d entry %d' % (r, j), io.y('outindex', r * n + j) != z3.If(b >= 0, b + r * io.sc('regularsize'), b)))
        return out
    return discharge(h, '%s n=%d reps=%d' % (cname, n, reps), oracle, [], extra=dict(bounds=dict(n=n, reps=reps)))


@guard
def h_mask_const(cname, n):
    sp = kspec.spec_by_name()[cname]
    h = Harness(cname, unwind=n + 3)
    h.scalar('length', 'int64_t', n)
    h.arr('tomask', sp.args[0].ctype, n)
    h.kcall(cname, [('buf', 'tomask'), 'length'])
    val = 1 if 'one' in cname else 0
    return discharge(h, '%s n=%d' % (cname, n), lambda io: [('no error', io.err())] + [('mask[%d] = %d' % (i, val), io.y('tomask', i) != val) for i in range(n)], [],
                     extra=dict(bounds=dict(n=n)))


# ------------------------------------------------------------------------------------------------------- C06
@guard
def h_sorting_ranges(n, G):
    """C06/C12: segment boundaries for sorting from a parents array; sorting_ranges_length sizes the offsets buffer of sorting_ranges"""
    c1, c2 = 'awkward_sorting_ranges_length', 'awkward_sorting_ranges'
    h = Harness([c1, c2], unwind=n + 4)
    h.scalar('parentslength', 'int64_t', n)
    h.arr('parents', 'int64_t', n, const=True)
    parents_premises(h, n, G)
    h.arr('tolength', 'int64_t', 1)
    h.kcall(c1, [('buf', 'tolength'), ('buf', 'parents'), 'parentslength'])
    tl = h.out('tolength', 0)
    h.arr('toindex', 'int64_t', tl, cap_c='tolength[0]')
    h.kcall(c2, [('buf', 'toindex'), ('elem', 'tolength', 0), ('buf', 'parents'), 'parentslength'])

    def oracle(io):
        out = [('no error', z3.Or(io.err(0), io.err(1))), ('first boundary is 0', io.y('toindex', 0) != 0)]
        k = BV(1)
        for i in range(1, n):
            newseg = io.x('parents', i - 1) != io.x('parents', i)
            out.append(('a boundary at %d exactly where the parent changes' % i, z3.And(newseg, io.y('toindex', k) != i)))
            k = z3.If(newseg, k + 1, k)
        out.append(('last boundary is the total length', io.y('toindex', k) != n))
        out.append(('number of boundaries = number of runs + 1', io.y('tolength', 0) != k + 1))
        return out
    return discharge(h, 'sorting_ranges n=%d G=%d' % (n, G), oracle, [], extra=dict(bounds=dict(n=n, groups=G)))


@guard
def h_unique(cname, n):
    """C06: awkward_unique compacts runs of equal values of a sorted buffer in place"""
    sp = kspec.spec_by_name()[cname]
    a = sp.args[0]
    h = Harness(cname, unwind=n + 4)
    h.scalar('length', 'int64_t', n)
    h.arr('toptr', a.ctype, n); h.arr('tolength', 'int64_t', 1)
    if a.kind == 'b':
        for i in range(n):
            h.assume(z3.ULE(h.raw_init('toptr', i), 1))
    h.kcall(cname, [('buf', 'toptr'), 'length', ('buf', 'tolength')])

    def oracle(io):
        out = [('no error', io.err())]
        k = BV(0)
        for i in range(1, n):
            new = io.x('toptr', i) != io.x('toptr', i - 1) if a.kind != 'f' else z3.Not(z3.fpEQ(io.x('toptr', i), io.x('toptr', i - 1)))
            k2 = z3.If(new, k + 1, k)
            out.append(('first element of run starting at %d is kept in order' % i, z3.And(new, z3.Not(io.y('toptr', k2) == io.x('toptr', i)))))
            k = k2
        if n:
            out.append(('number of runs', io.y('tolength', 0) != k + 1))
        return out
    return discharge(h, '%s n=%d' % (cname, n), oracle, [], extra=dict(bounds=dict(n=n)))


# ------------------------------------------------------------------------------------------------------- C05
@guard
def h_union_flatten(w, n, lens0, lens1):
    """C05: flatten of a union of two list contents: flatten_length sizes totags/toindex; list i of the result is the list its
    (tag, index) points at, element by element"""
    ct = {'32': 'int32_t', 'U32': 'uint32_t', '64': 'int64_t'}[w]
    c1, c2 = 'awkward_UnionArray%s_flatten_length_64' % w, 'awkward_UnionArray%s_flatten_combine_64' % w
    h = Harness([c1, c2], unwind=n * 4 + 8)
    h.scalar('length', 'int64_t', n)
    h.arr('fromtags', 'int8_t', n, const=True); h.arr('fromindex', ct, n, const=True)
    L = [lens0, lens1]
    offs = [[sum(l[:i]) for i in range(len(l) + 1)] for l in L]
    for c in range(2):
        h.array('offs%d' % c, 'int64_t', len(offs[c]), const=True, values=offs[c])
    for i in range(n):
        t, x = h.init('fromtags', i), h.init('fromindex', i)
        h.assume(t >= 0, t < 2, x >= 0, z3.If(t == 0, x < len(lens0), x < len(lens1)))
    h.arr('total_length', 'int64_t', 1)
    h.kcall(c1, [('buf', 'total_length'), ('buf', 'fromtags'), ('buf', 'fromindex'), 'length', ('ptrs', 'int64_t', ['offs0', 'offs1'])])
    tl = h.out('total_length', 0)
    h.arr('totags', 'int8_t', tl, cap_c='total_length[0]'); h.arr('toindex', 'int64_t', tl, cap_c='total_length[0]'); h.arr('tooffsets', 'int64_t', n + 1)
    h.kcall(c2, [('buf', 'totags'), ('buf', 'toindex'), ('buf', 'tooffsets'), ('buf', 'fromtags'), ('buf', 'fromindex'), 'length', ('ptrs', 'int64_t', ['offs0', 'offs1'])])

    def oracle(io):
        out = [('no error', z3.Or(io.err(0), io.err(1))), ('tooffsets[0] = 0', io.y('tooffsets', 0) != 0)]
        k = BV(0)
        maxl = max(lens0 + lens1 + (0,))
        for i in range(n):
            t, x = io.x('fromtags', i), io.x('fromindex', i)
            ln, st = BV(0), BV(0)
            for c in range(2):
                for j, l in enumerate(L[c]):
                    hit = z3.And(t == c, x == j)
                    ln = z3.If(hit, BV(l), ln); st = z3.If(hit, BV(offs[c][j]), st)
            for p in range(maxl):
                out.append(('list %d element %d keeps its content tag' % (i, p), z3.And(p < ln, io.y('totags', k + p) != t)))
                out.append(('list %d element %d keeps its content position' % (i, p), z3.And(p < ln, io.y('toindex', k + p) != st + p)))
            k = k + ln
            out.append(('tooffsets[%d]' % (i + 1), io.y('tooffsets', i + 1) != k))
        out.append(('total length', io.y('total_length', 0) != k))
        return out
    return discharge(h, 'UnionArray%s flatten n=%d lens=%s/%s' % (w, n, lens0, lens1), oracle, [], extra=dict(bounds=dict(n=n)))


# ------------------------------------------------------------------------------------------------------- C08
@guard
def h_regular_index(w, n):
    """C08/C01: union index regularised so that element i is the k-th element of its content (k = number of earlier elements with the
    same tag); getsize sizes the per-tag counters"""
    tt = 'int8_t'
    it = {'32': 'int32_t', 'U32': 'uint32_t', '64': 'int64_t'}[w]
    c1, c2 = 'awkward_UnionArray8_regular_index_getsize', 'awkward_UnionArray8_%s_regular_index' % w
    h = Harness([c1, c2], unwind=n + 8)
    h.scalar('length', 'int64_t', n)
    h.arr('fromtags', tt, n, const=True)
    for i in range(n):
        h.assume(h.init('fromtags', i) >= 0, h.init('fromtags', i) <= 3)
    h.arr('size', 'int64_t', 1)
    h.kcall(c1, [('buf', 'size'), ('buf', 'fromtags'), 'length'])
    sz = h.out('size', 0)
    h.arr('current', it, sz, cap_c='size[0]'); h.arr('toindex', it, n)
    h.kcall(c2, [('buf', 'toindex'), ('buf', 'current'), ('elem', 'size', 0), ('buf', 'fromtags'), 'length'])

    def oracle(io):
        out = [('no error', z3.Or(io.err(0), io.err(1)))]
        for i in range(n):
            cnt = BV(0)
            for j in range(i):
                cnt = z3.If(io.x('fromtags', j) == io.x('fromtags', i), cnt + 1, cnt)
            out.append(('element %d is numbered by earlier elements of its own content' % i, io.y('toindex', i) != cnt))
        return out
    return discharge(h, 'UnionArray8_%s regular_index n=%d' % (w, n), oracle, [], extra=dict(bounds=dict(n=n)))


def jobs_for(prop, tier):
    K = kspec.by_name()
    N, G = (3, 2) if tier == 'quick' else (4, 3)
    js = []
    if prop == 'C03':
        for n in range(1, N + 1):
            js.append((h_adjust_starts, (n, G), 600)); js.append((h_reduce_mask, (n, G), 600))
    if prop == 'C09':
        for w in ('64', '32', 'U32'):
            for n in range(1, N + 1):
                js.append((h_index_of_nulls, (w, n, G), 600))
        for n in range(0, 3):
            for reps in range(0, 3):
                js.append((h_missing_repeat, (n, reps), 600))
        for kn in ('awkward_zero_mask', 'awkward_one_mask'):
            for s in K[kn].specs:
                js.append((h_mask_const, (s.name, 3), 300))
    if prop == 'C06':
        for n in range(0, N + 2):
            js.append((h_sorting_ranges, (n, G), 600))
        for s in K['awkward_unique'].specs:
            if tier == 'quick' and not any(s.name.endswith('_' + t) for t in ('int64', 'float64', 'uint8', 'bool')):
                continue
            for n in range(1, N + 1):
                js.append((h_unique, (s.name, n), 600))
    if prop == 'C05':
        for w in ('64', '32', 'U32'):
            for n in (1, 2):
                for lens0, lens1 in (((0, 2), (1,)), ((2,), (3, 0)), ((1, 1), (2,))):
                    js.append((h_union_flatten, (w, n, lens0, lens1), 900))
    if prop == 'C08':
        for w in ('64', '32', 'U32'):
            for n in range(0, N + 2):
                js.append((h_regular_index, (w, n), 600))
    return js
