#ifndef VF_STANDIN_RAPIDJSON_WRITER_H_
#define VF_STANDIN_RAPIDJSON_WRITER_H_
#include "rapidjson/stringbuffer.h"
namespace rapidjson {
  template <typename STREAM>
  class Writer {
  public:
    Writer(STREAM& stream): stream_(stream) { }
    bool String(const char* x, SizeType length) {
      stream_.s_ += "\"";
      for (SizeType i = 0; i < length; i++) { if (x[i] == '"' || x[i] == '\\') stream_.s_ += "\\"; stream_.s_ += x[i]; }
      stream_.s_ += "\"";
      return true;
    }
    STREAM& stream_;
  };
}
#endif
