#ifndef VF_STANDIN_RAPIDJSON_PRETTYWRITER_H_
#define VF_STANDIN_RAPIDJSON_PRETTYWRITER_H_
#include "rapidjson/writer.h"
namespace rapidjson {
  template <typename STREAM> class PrettyWriter : public Writer<STREAM> { public: PrettyWriter(STREAM& s): Writer<STREAM>(s) { } };
}
#endif
