#ifndef VF_STANDIN_RAPIDJSON_STRINGBUFFER_H_
#define VF_STANDIN_RAPIDJSON_STRINGBUFFER_H_
#include "rapidjson/document.h"
namespace rapidjson {
  class StringBuffer { public: const char* GetString() const { return s_.c_str(); } size_t GetSize() const { return s_.size(); } std::string s_; };
}
#endif
