// Stand-in for the absent rapidjson submodule (vendored third-party code, empty directory in this sandbox).
// It lets Content.cpp / util.cpp / type/Type.cpp be lowered and linked; a "parsed" document only keeps its text with
// insignificant whitespace removed, which is enough for scalar parameter comparisons.  No verified claim depends on JSON
// parsing or printing: harnesses and replays use empty parameter maps and never call Form::fromjson.
#ifndef VF_STANDIN_RAPIDJSON_DOCUMENT_H_
#define VF_STANDIN_RAPIDJSON_DOCUMENT_H_
#include <cstdint>
#include <cstddef>
#include <string>
namespace rapidjson {
  typedef unsigned SizeType;
  enum ParseFlag { kParseNoFlags = 0, kParseStopWhenDoneFlag = 8, kParseFullPrecisionFlag = 16, kParseNanAndInfFlag = 256 };
  class Value;
  struct Member;
  struct MemberRange { const Member* begin() const { return nullptr; } const Member* end() const { return nullptr; } };
  struct ValueRange { const Value* begin() const { return nullptr; } const Value* end() const { return nullptr; } SizeType Size() const { return 0; } };
  class Value {
  public:
    bool HasMember(const char*) const { return false; }
    bool HasMember(const std::string&) const { return false; }
    const Value& operator[](const char*) const { return *this; }
    const Value& operator[](const std::string&) const { return *this; }
    const Value& operator[](SizeType) const { return *this; }
    const Value& operator[](int) const { return *this; }
    bool IsNull() const { return text_.empty() || text_ == "null"; }
    bool IsBool() const { return text_ == "true" || text_ == "false"; }
    bool IsTrue() const { return text_ == "true"; }
    bool IsFalse() const { return text_ == "false"; }
    bool IsInt() const { return false; }
    bool IsUint() const { return false; }
    bool IsInt64() const { return false; }
    bool IsUint64() const { return false; }
    bool IsNumber() const { return false; }
    bool IsDouble() const { return false; }
    bool IsString() const { return text_.size() >= 2 && text_[0] == '"'; }
    bool IsArray() const { return false; }
    bool IsObject() const { return false; }
    bool GetBool() const { return IsTrue(); }
    int GetInt() const { return 0; }
    unsigned GetUint() const { return 0; }
    int64_t GetInt64() const { return 0; }
    uint64_t GetUint64() const { return 0; }
    double GetDouble() const { return 0; }
    const char* GetString() const {
      unquoted_ = IsString() ? text_.substr(1, text_.size() - 2) : std::string();
      return unquoted_.c_str();
    }
    SizeType GetStringLength() const { return IsString() ? (SizeType)(text_.size() - 2) : 0; }
    SizeType Size() const { return 0; }
    ValueRange GetArray() const { return ValueRange(); }
    MemberRange GetObject() const { return MemberRange(); }
    template <typename W> bool Accept(W&) const { return true; }
    bool operator==(const Value& other) const { return text_ == other.text_; }
    bool operator!=(const Value& other) const { return text_ != other.text_; }
  protected:
    std::string text_;
    mutable std::string unquoted_;
  };
  struct Member { Value name; Value value; };
  class Document : public Value {
  public:
    template <unsigned FLAGS> Document& Parse(const char* data) { return Parse(data); }
    Document& Parse(const char* data) {
      text_.clear();
      bool instring = false;
      for (const char* c = data; *c != 0; c++) {
        if (*c == '"' && (c == data || c[-1] != '\\')) instring = !instring;
        if (instring || (*c != ' ' && *c != '\n' && *c != '\t' && *c != '\r')) text_ += *c;
      }
      return *this;
    }
    bool HasParseError() const { return false; }
    size_t GetErrorOffset() const { return 0; }
  };
}
#endif
