// Stand-in for src/libawkward/io/json.cpp (a rapidjson client; the rapidjson submodule is absent here).  The four ToJson writers
// are a small hand-written compact emitter so that Content::tojson() can print native replay results; FromJson* throw.
// Part of the replay harness only: no solver verdict depends on it.
#include <cmath>
#include <cstdio>
#include <stdexcept>
#include <string>
#include <vector>
#include "awkward/io/json.h"

namespace awkward {
  ToJson::~ToJson() = default;
  void ToJson::string(const std::string& x) { string(x.c_str(), (int64_t)x.length()); }
  void ToJson::field(const std::string& x) { field(x.c_str()); }

  namespace {
    struct Emit {
      std::string out;
      std::vector<bool> first;
      bool after_key = false;
      FILE* dest = nullptr;
      void sep() {
        if (after_key) { after_key = false; return; }
        if (!first.empty()) { if (!first.back()) out += ","; first.back() = false; }
      }
      void raw(const std::string& x) { sep(); out += x; }
      void quoted(const char* x, int64_t n) {
        out += "\"";
        for (int64_t i = 0; i < n; i++) { if (x[i] == '"' || x[i] == '\\') out += "\\"; out += x[i]; }
        out += "\"";
      }
      void open(const char* c) { sep(); out += c; first.push_back(true); }
      void close(const char* c) { first.pop_back(); out += c; }
      void key(const char* x) { sep(); quoted(x, (int64_t)std::string(x).length()); out += ":"; after_key = true; }
    };
    std::string realstr(double x) {
      if (std::isnan(x)) return "NaN";
      if (std::isinf(x)) return x > 0 ? "Infinity" : "-Infinity";
      char buf[64]; snprintf(buf, sizeof(buf), "%.17g", x); return buf;
    }
  }
#define VF_TOJSON(CLS) \
  class CLS::Impl : public Emit { }; \
  void CLS::null() { impl_->raw("null"); } \
  void CLS::boolean(bool x) { impl_->raw(x ? "true" : "false"); } \
  void CLS::integer(int64_t x) { impl_->raw(std::to_string(x)); } \
  void CLS::real(double x) { impl_->raw(realstr(x)); } \
  void CLS::complex(std::complex<double> x) { impl_->open("{"); impl_->key("r"); impl_->raw(realstr(x.real())); impl_->key("i"); impl_->raw(realstr(x.imag())); impl_->close("}"); } \
  void CLS::string(const char* x, int64_t length) { impl_->sep(); impl_->quoted(x, length); } \
  void CLS::beginlist() { impl_->open("["); } \
  void CLS::endlist() { impl_->close("]"); } \
  void CLS::beginrecord() { impl_->open("{"); } \
  void CLS::field(const char* x) { impl_->key(x); } \
  void CLS::endrecord() { impl_->close("}"); } \
  void CLS::json(const char* data) { impl_->raw(data); }
  VF_TOJSON(ToJsonString)
  VF_TOJSON(ToJsonPrettyString)
  VF_TOJSON(ToJsonFile)
  VF_TOJSON(ToJsonPrettyFile)
  ToJsonString::ToJsonString(int64_t, const char*, const char*, const char*, const char*, const char*) : impl_(new ToJsonString::Impl()) { }
  ToJsonString::~ToJsonString() { delete impl_; }
  const std::string ToJsonString::tostring() { return impl_->out; }
  ToJsonPrettyString::ToJsonPrettyString(int64_t, const char*, const char*, const char*, const char*, const char*) : impl_(new ToJsonPrettyString::Impl()) { }
  ToJsonPrettyString::~ToJsonPrettyString() { delete impl_; }
  const std::string ToJsonPrettyString::tostring() { return impl_->out; }
  ToJsonFile::ToJsonFile(FILE* d, int64_t, int64_t, const char*, const char*, const char*, const char*, const char*) : impl_(new ToJsonFile::Impl()) { impl_->dest = d; }
  ToJsonFile::~ToJsonFile() { if (impl_->dest != nullptr) fputs(impl_->out.c_str(), impl_->dest); delete impl_; }
  ToJsonPrettyFile::ToJsonPrettyFile(FILE* d, int64_t, int64_t, const char*, const char*, const char*, const char*, const char*) : impl_(new ToJsonPrettyFile::Impl()) { impl_->dest = d; }
  ToJsonPrettyFile::~ToJsonPrettyFile() { if (impl_->dest != nullptr) fputs(impl_->out.c_str(), impl_->dest); delete impl_; }
  const ContentPtr FromJsonString(const char*, const ArrayBuilderOptions&, const char*, const char*, const char*) { throw std::runtime_error("FromJsonString: rapidjson is absent"); }
  const ContentPtr FromJsonFile(FILE*, const ArrayBuilderOptions&, int64_t, const char*, const char*, const char*) { throw std::runtime_error("FromJsonFile: rapidjson is absent"); }
}
