"""C12 (kernel and leaf-C++ level): no out-of-extent access, no division trap, no store to a read-only argument, every
loop terminates within the unwinding bound - for every kernel on documented-valid inputs (footprint inside the extent its
specification touches), for the validity kernels on arbitrary contents, for the sizing pairs with the capacities the C++
allocates, and for zero-length inputs."""
import z3
from . import kspec, runner, c13
from .oracle import Harness, discharge, guard, summarize
from .hlib import BV, decl_lists

ASSUMPTIONS = [
    'safety sweep: every specialization with an executable definition is encoded from IR with capacities constrained only by "every access '
    'the definition makes is in bounds"; obligations: every kernel access in bounds, no store to a Const argument, no division by zero / '
    'INT_MIN/-1 / over-wide shift, unwinding assertions (loops terminate within the bound)',
    'validity kernels are run on arbitrary (invalid) contents (harnesses of C11); sizing pairs use the capacity expression of the C++ caller '
    '(harnesses of C01, C07, C09, C03)',
    'outside: whole-operation purity/lifetime (shared_ptr ownership), Python-level crashes, anything behind _ext, allocation failure',
]


@guard
def h_min_range_empty(w):
    """ListArray::rpad calls min_range with starts_.length() == 0 on an empty array"""
    cname = 'awkward_ListArray%s_min_range' % w
    ct = {'32': 'int32_t', 'U32': 'uint32_t', '64': 'int64_t'}[w]
    h = Harness(cname, unwind=4)
    h.scalar('lenstarts', 'int64_t', 0)
    h.arr('tomin', 'int64_t', 1); h.arr('fromstarts', ct, 0, const=True); h.arr('fromstops', ct, 0, const=True)
    h.kcall(cname, [('buf', 'tomin'), ('buf', 'fromstarts'), ('buf', 'fromstops'), 'lenstarts'])
    return discharge(h, '%s on a zero-length array' % cname, lambda io: [('no error', io.err())], [], extra=dict(bounds='lenstarts = 0'))


@guard
def h_broadcast_nonmonotone(w, n):
    """broadcast_tooffsets64 with user-supplied offsets that start at 0 but are not monotone: carry buffer has offsets[-1] entries"""
    cname = 'awkward_ListArray%s_broadcast_tooffsets_64' % w
    ct = {'32': 'int32_t', 'U32': 'uint32_t', '64': 'int64_t'}[w]
    h = Harness(cname, unwind=n * 5 + 4)
    h.scalar('offsetslength', 'int64_t', n + 1); h.scalar('lencontent', 'int64_t')
    h.assume(h.scalars['lencontent'][0] >= 0, h.scalars['lencontent'][0] <= 2 ** 40)
    h.arr('fromoffsets', 'int64_t', n + 1, const=True)
    h.assume(h.init('fromoffsets', 0) == 0)
    for i in range(n + 1):
        h.assume(h.init('fromoffsets', i) >= 0, h.init('fromoffsets', i) <= 4)
    decl_lists(h, n, 4, ct)
    carrylen = h.init('fromoffsets', n)
    h.arr('tocarry', 'int64_t', carrylen)
    h.kcall(cname, [('buf', 'tocarry'), ('buf', 'fromoffsets'), 'offsetslength', ('buf', 'fromstarts'), ('buf', 'fromstops'), 'lencontent'])
    return discharge(h, '%s with non-monotone target offsets n=%d' % (cname, n), lambda io: [], [], extra=dict(bounds=dict(n=n)))


@guard
def h_outstartsstops_zero():
    cname = 'awkward_ListOffsetArray_reduce_nonlocal_outstartsstops_64'
    h = Harness(cname, unwind=6)
    h.scalar('lendistincts', 'int64_t', 0); h.scalar('outlength', 'int64_t', 0)
    for nm in ('outstarts', 'outstops', 'distincts', 'gaps'):
        h.arr(nm, 'int64_t', 0)
    h.kcall(cname, [('buf', 'outstarts'), ('buf', 'outstops'), ('buf', 'distincts'), 'lendistincts', ('buf', 'gaps'), 'outlength'])
    return discharge(h, '%s with outlength = 0' % cname, lambda io: [('no error', io.err())], [], extra=dict(bounds='outlength = 0'))


def sweep_result_to_harness(r):
    """adapt a c13.check_spec(safety_only) result to the summarize() shape"""
    out = dict(unit='safety sweep %s case %s' % (r['unit'], r.get('fixed')), status='ok', obligations=[], twins=r.get('twins', {}),
               violations=[], unreproduced=[], funcs=r.get('funcs', []))
    st = r['status']
    for o in r.get('obligations', []):
        out['obligations'].append(dict(kind=o['kind'], name=o['desc'], result=o['result'], t=o['t']))
    if st == 'disagree':
        cex = r.get('cex') or {}
        rp = None
        if cex.get('inputs'):
            try:
                rp = c13.replay(r['unit'], cex['inputs'])
            except Exception as e:      # noqa
                rp = dict(confirmed=False, why='replay failed: %s' % e)
        ob = cex.get('obligation', {})
        ent = dict(kind=ob.get('kind', '?'), name=ob.get('desc', ''), result='sat', t=ob.get('t', 0))
        if rp and rp.get('confirmed'):
            out['status'] = 'violation'
            out['violations'].append(dict(obligation=ent, why=rp.get('why'), inputs=cex.get('inputs'), native=rp.get('native')))
        else:
            out['status'] = 'unreproduced'
            out['unreproduced'].append(dict(obligation=ent, why=(rp or {}).get('why')))
    elif st in ('inconclusive', 'timeout'):
        out['status'] = 'inconclusive'
    elif st == 'vacuous':
        out['status'] = 'ok'          # this size case admits no input satisfying the definition's own bounds: nothing to check
    elif st in ('unsupported', 'harness-error'):
        out['status'] = 'unsupported'; out['detail'] = r.get('detail')
    return out


def jobs(tier):
    from . import c11, c01, c07, c09
    js = []
    for w in ('64', '32', 'U32'):
        js.append((h_min_range_empty, (w,), 300))
        js.append((h_broadcast_nonmonotone, (w, 2), 600))
    js.append((h_outstartsstops_zero, (), 300))
    js += c11.jobs(tier)                                  # validity kernels on arbitrary contents
    pick = lambda j, names: j[0].__name__ in names
    js += [j for j in c01.jobs(tier) if pick(j, ('h_next_range', 'h_boolean'))]
    js += [j for j in c09.jobs(tier) if pick(j, ('h_listarray_rpad', 'h_listoffset_rpad'))][:60 if tier == 'quick' else None]
    js += [j for j in c07.jobs(tier) if pick(j, ('h_list',))][:80 if tier == 'quick' else None]
    js += [j for j in c07.jobs(tier) if pick(j, ('h_regular',))]           # scratch buffers sized by RegularArray::combinations
    from . import c03, c06
    js += [j for j in c03.jobs(tier) if pick(j, ('h_option',))]            # numnull sizes the buffers the projection kernels fill
    js += [j for j in c06.jobs(tier) if pick(j, ('h_comparator',))]        # std::sort needs a strict weak ordering (else UB / hang)
    return js


def main(report, tier):
    N = 2 if tier == 'quick' else 3
    kernels = kspec.load()
    if tier == 'quick':
        specs = [s for k in kernels for s in c13.representative(k)]
    else:
        specs = [s for k in kernels for s in k.specs]
    plans = runner.run_tasks([(c13.check_spec, (s.name, N, None, 10000, True, False, True), 60) for s in specs])
    sweep = []
    for p in plans:
        if p['status'] == 'plan':
            for case in c13.plan_cases(p, N):
                sweep.append((c13.check_spec, (p['unit'], N, case, 15000, True, True, False, True), 90 if tier == 'quick' else 600))
    from . import mnode
    res = runner.run_tasks(sweep + jobs(tier) + mnode.jobs_for('C12', tier))
    results = [sweep_result_to_harness(r) if 'kernel' in r and 'N' in r else r for r in res]
    cov = summarize(report, results, 'C12')
    cov['kernels_swept'] = len(specs)
    return cov
