"""More C01 harnesses: carry (gather) kernels of the node classes and the NumpyArray position arithmetic."""
import z3
from . import kspec
from .oracle import Harness, discharge, guard
from .hlib import BV


def gather(io, src, j, m):
    v = BV(0)
    for k in range(m):
        v = z3.If(j == k, io.x(src, k), v)
    return v


@guard
def h_node_carry(cname, n, m):
    """X_getitem_carry: out[i] = in[carry[i]] for every index buffer of the node; a carry beyond the node length raises"""
    sp = kspec.spec_by_name()[cname]
    outs = [a for a in sp.args if a.depth == 1 and a.dir == 'out']
    ins = [a for a in sp.args if a.depth == 1 and a.dir != 'out' and a.name != 'fromcarry']
    lenname = [a.name for a in sp.args if a.depth == 0 and a.name != 'lencarry'][0]
    h = Harness(cname, unwind=n + 4)
    call = []
    for a in sp.args:
        if a.depth == 0:
            h.scalar(a.name, 'int64_t', n if a.name == 'lencarry' else m)
            call.append(a.name)
        else:
            if a.dir == 'out':
                h.arr(a.name, a.ctype, n)
            elif a.name == 'fromcarry':
                h.arr(a.name, a.ctype, n, const=True)
            else:
                h.arr(a.name, a.ctype, m, const=True)
            call.append(('buf', a.name))
    for i in range(n):
        h.assume(h.init('fromcarry', i) >= 0)          # carries are produced by kernels and never negative
    h.kcall(cname, call)

    def oracle(io):
        out, bad = [], []
        for i in range(n):
            j = io.x('fromcarry', i)
            bad.append(j >= m)
            for o, s in zip(outs, ins):
                out.append(('%s[%d] = %s[carry[%d]]' % (o.name, i, s.name, i), z3.And(z3.Not(io.err()), io.y(o.name, i) != gather(io, s.name, j, m))))
        out.append(('error iff some carry is beyond the node length (never returns data)', io.err() != z3.Or(bad + [z3.BoolVal(False)])))
        return out
    return discharge(h, '%s n=%d m=%d' % (cname, n, m), oracle, [('ok', z3.Not(h.errs[-1][2])), ('error', h.errs[-1][2])] if n else [], extra=dict(bounds=dict(n=n, m=m)))


@guard
def h_numpy_next(kind, n, lenhead):
    """NumpyArray position arithmetic: next position = skip * carried position + (at | start + j*step | head[j] | head[advanced[i]])"""
    cname = 'awkward_NumpyArray_getitem_next_%s_64' % kind
    h = Harness(cname, unwind=n * max(1, lenhead) + n + lenhead + 4)
    h.scalar('lencarry', 'int64_t', n); h.scalar('skip', 'int64_t')
    sk = h.scalars['skip'][0]
    h.assume(sk >= 0, sk <= 2 ** 20)
    h.arr('carryptr', 'int64_t', n, const=True)
    for i in range(n):
        h.assume(h.init('carryptr', i) >= 0, h.init('carryptr', i) <= 2 ** 20)
    two = kind in ('range', 'range_advanced', 'array')
    size = n * lenhead if two else n
    h.arr('nextcarryptr', 'int64_t', size)
    if kind == 'at':
        h.scalar('at', 'int64_t'); h.assume(h.scalars['at'][0] >= 0, h.scalars['at'][0] <= 2 ** 20)
        h.kcall(cname, [('buf', 'nextcarryptr'), ('buf', 'carryptr'), 'lencarry', 'skip', 'at'])
    elif kind in ('range', 'range_advanced'):
        h.scalar('lenhead', 'int64_t', lenhead); h.scalar('start', 'int64_t'); h.scalar('step', 'int64_t')
        h.assume(h.scalars['start'][0] >= -(2 ** 20), h.scalars['start'][0] <= 2 ** 20, h.scalars['step'][0] >= -8, h.scalars['step'][0] <= 8)
        if kind == 'range':
            h.kcall(cname, [('buf', 'nextcarryptr'), ('buf', 'carryptr'), 'lencarry', 'lenhead', 'skip', 'start', 'step'])
        else:
            h.arr('nextadvancedptr', 'int64_t', size); h.arr('advancedptr', 'int64_t', n, const=True)
            h.kcall(cname, [('buf', 'nextcarryptr'), ('buf', 'nextadvancedptr'), ('buf', 'carryptr'), ('buf', 'advancedptr'), 'lencarry', 'lenhead', 'skip', 'start', 'step'])
    elif kind == 'array':
        h.scalar('lenflathead', 'int64_t', lenhead)
        h.arr('nextadvancedptr', 'int64_t', size); h.arr('flatheadptr', 'int64_t', lenhead, const=True)
        h.kcall(cname, [('buf', 'nextcarryptr'), ('buf', 'nextadvancedptr'), ('buf', 'carryptr'), ('buf', 'flatheadptr'), 'lencarry', 'lenflathead', 'skip'])
    else:   # array_advanced
        h.arr('advancedptr', 'int64_t', n, const=True); h.arr('flatheadptr', 'int64_t', lenhead, const=True)
        for i in range(n):
            h.assume(h.init('advancedptr', i) >= 0, h.init('advancedptr', i) < lenhead)
        h.kcall(cname, [('buf', 'nextcarryptr'), ('buf', 'carryptr'), ('buf', 'advancedptr'), ('buf', 'flatheadptr'), 'lencarry', 'skip'])

    def oracle(io):
        out = [('no error', io.err())]
        sk = io.sc('skip')
        for i in range(n):
            base = sk * io.x('carryptr', i)
            if kind == 'at':
                out.append(('position %d' % i, io.y('nextcarryptr', i) != base + io.sc('at')))
            elif kind in ('range', 'range_advanced'):
                for j in range(lenhead):
                    out.append(('position (%d,%d)' % (i, j), io.y('nextcarryptr', i * lenhead + j) != base + io.sc('start') + j * io.sc('step')))
                    if kind == 'range_advanced':
                        out.append(('advanced (%d,%d)' % (i, j), io.y('nextadvancedptr', i * lenhead + j) != io.x('advancedptr', i)))
            elif kind == 'array':
                for j in range(lenhead):
                    out.append(('position (%d,%d)' % (i, j), io.y('nextcarryptr', i * lenhead + j) != base + io.x('flatheadptr', j)))
                    out.append(('advanced (%d,%d)' % (i, j), io.y('nextadvancedptr', i * lenhead + j) != j))
            else:
                out.append(('position %d' % i, io.y('nextcarryptr', i) != base + gather(io, 'flatheadptr', io.x('advancedptr', i), lenhead)))
        return out
    return discharge(h, '%s n=%d lenhead=%d' % (cname, n, lenhead), oracle, [], extra=dict(bounds=dict(n=n, lenhead=lenhead)))


@guard
def h_carry_arange(cname, n):
    sp = kspec.spec_by_name()[cname]
    h = Harness(cname, unwind=n + 3)
    h.scalar('length', 'int64_t', n)
    h.arr('toptr', sp.args[0].ctype, n)
    h.kcall(cname, [('buf', 'toptr'), 'length'])
    return discharge(h, '%s n=%d' % (cname, n), lambda io: [('no error', io.err())] + [('toptr[%d] = %d' % (i, i), io.y('toptr', i) != i) for i in range(n)], [],
                     extra=dict(bounds=dict(n=n)))


@guard
def h_slicejagged_offsets(n, m, L):
    """carried jagged slice: list i of the result is list carry[i] of the slice (lengths), compact offsets"""
    from .hlib import decl_offsets
    cname = 'awkward_carry_SliceJagged64_offsets'
    h = Harness(cname, unwind=n + 4)
    h.scalar('carrylen', 'int64_t', n)
    decl_offsets(h, m, L, 'int64_t', name='fromoffsets')
    h.arr('fromcarry', 'int64_t', n, const=True)
    for i in range(n):
        h.assume(h.init('fromcarry', i) >= 0, h.init('fromcarry', i) < m)
    h.arr('tooffsets', 'int64_t', n + 1)
    h.kcall(cname, [('buf', 'tooffsets'), ('buf', 'fromoffsets'), ('buf', 'fromcarry'), 'carrylen'])

    def oracle(io):
        out = [('no error', io.err()), ('offsets[0] = 0', io.y('tooffsets', 0) != 0)]
        for i in range(n):
            c = io.x('fromcarry', i)
            ln = BV(0)
            for k in range(m):
                ln = z3.If(c == k, io.x('fromoffsets', k + 1) - io.x('fromoffsets', k), ln)
            out.append(('length of result list %d = length of slice list carry[%d]' % (i, i), io.y('tooffsets', i + 1) - io.y('tooffsets', i) != ln))
        return out
    return discharge(h, '%s n=%d m=%d' % (cname, n, m), oracle, [], extra=dict(bounds=dict(n=n, m=m, L=L)))


def jobs(tier):
    K = kspec.by_name()
    js = []
    N = 2 if tier == 'quick' else 3
    for kn in ('awkward_ListArray_getitem_carry', 'awkward_IndexedArray_getitem_carry', 'awkward_ByteMaskedArray_getitem_carry'):
        for s in K[kn].specs:
            for n in range(0, N + 1):
                js.append((h_node_carry, (s.name, n, 2), 600))
    for kind in ('at', 'range', 'range_advanced', 'array', 'array_advanced'):
        for n in range(0, N + 1):
            for lh in ((1,) if kind == 'at' else (0, 1, 2) if kind != 'array_advanced' else (1, 2)):
                js.append((h_numpy_next, (kind, n, lh), 600))
    for s in K['awkward_carry_arange'].specs:
        js.append((h_carry_arange, (s.name, 3), 300))
    for n in range(0, N + 1):
        js.append((h_slicejagged_offsets, (n, 2, 3), 600))
    return js
