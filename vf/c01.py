"""C01: slicing kernels select what Python/NumPy indexing selects (oracle = CPython slice/index semantics on
nested lists, stated independently of the YAML definitions)."""
import itertools
import z3
from . import kspec, runner
from .oracle import Harness, discharge, guard, summarize
from .hlib import BV, KNONE, decl_lists, decl_offsets, py_slice_indices, selected, wrap_index, type_max

ASSUMPTIONS = [
    'layouts obey the documented ListArray/ListOffsetArray/RegularArray/IndexedArray rules (docs-sphinx/ak.layout.*.rst)',
    'oracle: CPython PySlice_AdjustIndices and negative-index wrapping applied per list; kSliceNone (2^63-1) means None',
    'bounds (quick/thorough): lists n <= 2/3, list length <= 3/4, |step| <= 3, index arrays <= 2/3 entries; start/stop/at '
    'and all offsets full width of the specialization',
    'buffer capacities are what the C++ callers allocate (lenstarts, lenstarts+1, carrylength, lenstarts*lenarray)',
    'outside: Content::getitem tuple orchestration, toslice() (pybind11), field/ellipsis/newaxis items',
]


def wid(cname, k='ListArray'):
    return '32' if k + '32' in cname else 'U32' if k + 'U32' in cname else '64'


def ctype_of(cname, k='ListArray'):
    if cname in ('ListArray64', 'ListArray32', 'ListArrayU32'):
        return {'ListArray64': 'int64_t', 'ListArray32': 'int32_t', 'ListArrayU32': 'uint32_t'}[cname]
    return {'32': 'int32_t', 'U32': 'uint32_t', '64': 'int64_t'}[wid(cname, k)]


# ---------------------------------------------------------------------------------------------------------------
@guard
def h_regularize_rangeslice(unit):
    """all 2^64 values of start/stop, all lengths in [0, 2^62]: no loop, unbounded-in-value claim"""
    h = Harness('awkward_regularize_rangeslice')
    for n in ('start', 'stop', 'length'):
        h.scalar(n, 'int64_t')
    for n in ('posstep', 'hasstart', 'hasstop'):
        h.scalar(n, 'bool')
    L = h.scalars['length'][0]
    h.assume(L >= 0, L <= 2 ** 62)
    h.arr('pstart', 'int64_t', 1); h.arr('pstop', 'int64_t', 1)
    h.assume(h.init('pstart', 0) == h.scalars['start'][0], h.init('pstop', 0) == h.scalars['stop'][0])
    # the callers pass hasstart = (start != kSliceNone); a value that is present is never the sentinel
    h.assume((h.scalars['hasstart'][0] == 1) == (h.scalars['start'][0] != BV(KNONE)))
    h.assume((h.scalars['hasstop'][0] == 1) == (h.scalars['stop'][0] != BV(KNONE)))
    h.kcall('awkward_regularize_rangeslice', [('buf', 'pstart'), ('buf', 'pstop'), 'posstep', 'hasstart', 'hasstop', 'length'], void=True)

    def oracle(io):
        pos, L = io.sc('posstep'), io.sc('length')
        st, sp = py_slice_indices(io.x('pstart', 0), io.x('pstop', 0), pos, L)
        ks, ke = io.y('pstart', 0), io.y('pstop', 0)
        # same selection: same first position, and the stop clamped to "empty" where CPython's range is empty
        exp_stop = z3.If(pos, z3.If(sp < st, st, sp), z3.If(sp > st, st, sp))
        return [('regularized start equals CPython slice.indices start', ks != st),
                ('regularized stop selects the same positions as CPython', ke != exp_stop)]
    tw = [('negative step with None start', z3.And(h.scalars['posstep'][0] == 0, h.scalars['hasstart'][0] == 0, L > 3)),
          ('overshooting stop', z3.And(h.scalars['stop'][0] > L, h.scalars['hasstop'][0] == 1))]
    return discharge(h, unit, oracle, tw, extra=dict(bounds='all int64 start/stop, 0 <= length <= 2^62'))


@guard
def h_next_at(cname, n, L):
    ct = ctype_of(cname)
    h = Harness(cname, unwind=n + 3)
    h.scalar('lenstarts', 'int64_t', n); h.scalar('at', 'int64_t')
    lists = decl_lists(h, n, L, ct)
    h.arr('tocarry', 'int64_t', n)
    h.kcall(cname, [('buf', 'tocarry'), ('buf', 'fromstarts'), ('buf', 'fromstops'), 'lenstarts', 'at'])

    def oracle(io):
        at = io.sc('at')
        out, bad = [], []
        for i in range(n):
            a, b = io.x('fromstarts', i), io.x('fromstops', i)
            r, ok = wrap_index(at, b - a)
            bad.append(z3.Not(ok))
            out.append(('tocarry[%d] = start + wrapped index' % i, z3.And(z3.Not(io.err()), io.y('tocarry', i) != a + r)))
        out.append(('error iff the index is out of range for some list', io.err() != z3.Or(bad + [z3.BoolVal(False)])))
        return out
    tw = [('ok', z3.Not(h.errs[-1][2])), ('negative at accepted', z3.And(z3.Not(h.errs[-1][2]), h.scalars['at'][0] < 0))] if n else []
    if n:
        tw.append(('error', h.errs[-1][2]))
    return discharge(h, '%s n=%d' % (cname, n), oracle, tw, extra=dict(bounds=dict(n=n, L=L)))


def _range_args(h, SB):
    for nm in ('start', 'stop', 'step'):
        h.scalar(nm, 'int64_t')
    st = h.scalars['step'][0]
    h.assume(st != 0, st >= -SB, st <= SB)


@guard
def h_next_range(cname, n, L, SB=3):
    """carrylength kernel sizes tocarry; range kernel fills it (P-harness: capacity = carrylength[0] as in ListArray.cpp)"""
    ct = ctype_of(cname)
    w = wid(cname)
    clen = 'awkward_ListArray%s_getitem_next_range_carrylength' % w
    h = Harness([cname, clen], unwind=n * (L + 1) + L + 4)
    h.scalar('lenstarts', 'int64_t', n)
    _range_args(h, SB)
    lists = decl_lists(h, n, L, ct)
    h.arr('carrylength', 'int64_t', 1)
    h.kcall(clen, [('buf', 'carrylength'), ('buf', 'fromstarts'), ('buf', 'fromstops'), 'lenstarts', 'start', 'stop', 'step'])
    cl = h.out('carrylength', 0)
    h.arr('tooffsets', ct, n + 1)
    h.arr('tocarry', 'int64_t', cl, cap_c='carrylength[0]')
    h.kcall(cname, [('buf', 'tooffsets'), ('buf', 'tocarry'), ('buf', 'fromstarts'), ('buf', 'fromstops'), 'lenstarts', 'start', 'stop', 'step'])

    def oracle(io):
        start, stop, step = io.sc('start'), io.sc('stop'), io.sc('step')
        out = [('no error', z3.Or(io.err(0), io.err(1))), ('tooffsets[0] = 0', io.y('tooffsets', 0) != 0)]
        k = BV(0)
        for i in range(n):
            a, b = io.x('fromstarts', i), io.x('fromstops', i)
            sel, cnt = selected(start, stop, step, b - a, L)
            for p, (inr, j) in enumerate(sel):
                out.append(('list %d selected position %d' % (i, p), z3.And(inr, io.y('tocarry', k + p) != a + j)))
            k = k + cnt
            out.append(('tooffsets[%d] = number selected so far' % (i + 1), io.y('tooffsets', i + 1) != k))
        out.append(('carrylength = total selected', io.y('carrylength', 0) != k))
        return out
    S = h.scalars
    tw = []
    if n:
        tw = [('negative step selecting >= 2', z3.And(S['step'][0] < 0, cl >= 2)), ('None start', S['start'][0] == BV(KNONE)),
              ('empty selection', cl == 0), ('overshooting negative start', S['start'][0] < -100)]
    return discharge(h, '%s n=%d' % (cname, n), oracle, tw, extra=dict(bounds=dict(n=n, L=L, step=SB)))


@guard
def h_next_array(cname, n, L, M):
    ct = ctype_of(cname)
    adv = cname.endswith('array_advanced_64')
    h = Harness(cname, unwind=n * M + n + M + 4)
    h.scalar('lenstarts', 'int64_t', n); h.scalar('lenarray', 'int64_t', M); h.scalar('lencontent', 'int64_t')
    LC = h.scalars['lencontent'][0]
    h.assume(LC >= 0, LC <= type_max(ct) if ct != 'int64_t' else LC <= 2 ** 62)
    lists = decl_lists(h, n, L, ct, lencontent=LC)
    h.arr('fromarray', 'int64_t', M, const=True)
    if adv:
        h.arr('fromadvanced', 'int64_t', n, const=True)
        for i in range(n):
            h.assume(h.init('fromadvanced', i) >= 0, h.init('fromadvanced', i) < M)
        h.arr('tocarry', 'int64_t', n); h.arr('toadvanced', 'int64_t', n)
        h.kcall(cname, [('buf', 'tocarry'), ('buf', 'toadvanced'), ('buf', 'fromstarts'), ('buf', 'fromstops'), ('buf', 'fromarray'),
                        ('buf', 'fromadvanced'), 'lenstarts', 'lenarray', 'lencontent'])
    else:
        h.arr('tocarry', 'int64_t', n * M); h.arr('toadvanced', 'int64_t', n * M)
        h.kcall(cname, [('buf', 'tocarry'), ('buf', 'toadvanced'), ('buf', 'fromstarts'), ('buf', 'fromstops'), ('buf', 'fromarray'),
                        'lenstarts', 'lenarray', 'lencontent'])

    def oracle(io):
        out, bad = [], []
        for i in range(n):
            a, b = io.x('fromstarts', i), io.x('fromstops', i)
            if adv:
                ai = io.x('fromadvanced', i)
                at = BV(0)
                for j in range(M):
                    at = z3.If(ai == j, io.x('fromarray', j), at)
                r, ok = wrap_index(at, b - a)
                bad.append(z3.Not(ok))
                out.append(('tocarry[%d] = start + array[advanced[%d]]' % (i, i), z3.And(z3.Not(io.err()), io.y('tocarry', i) != a + r)))
                out.append(('toadvanced[%d] = %d' % (i, i), z3.And(z3.Not(io.err()), io.y('toadvanced', i) != i)))
            else:
                for j in range(M):
                    r, ok = wrap_index(io.x('fromarray', j), b - a)
                    bad.append(z3.Not(ok))
                    out.append(('tocarry[%d*M+%d]' % (i, j), z3.And(z3.Not(io.err()), io.y('tocarry', i * M + j) != a + r)))
                    out.append(('toadvanced[%d*M+%d] = %d' % (i, j, j), z3.And(z3.Not(io.err()), io.y('toadvanced', i * M + j) != j)))
        out.append(('error iff some index is out of range for its list', io.err() != z3.Or(bad + [z3.BoolVal(False)])))
        return out
    tw = [('ok', z3.Not(h.errs[-1][2])), ('error', h.errs[-1][2])] if n and M else []
    return discharge(h, '%s n=%d M=%d' % (cname, n, M), oracle, tw, extra=dict(bounds=dict(n=n, L=L, M=M)))


@guard
def h_spreadadvanced(cname, n, L):
    ct = ctype_of(cname)
    h = Harness(cname, unwind=n * (L + 1) + 4)
    h.scalar('lenstarts', 'int64_t', n)
    offs = decl_offsets(h, n, L, ct, zero_based=True)
    h.arr('fromadvanced', 'int64_t', n, const=True)
    tot = h.init('fromoffsets', n)
    h.arr('toadvanced', 'int64_t', tot)
    h.kcall(cname, [('buf', 'toadvanced'), ('buf', 'fromadvanced'), ('buf', 'fromoffsets'), 'lenstarts'])

    def oracle(io):
        out = [('no error', io.err())]
        for i in range(n):
            a, b = io.x('fromoffsets', i), io.x('fromoffsets', i + 1)
            for p in range(L):
                out.append(('element %d of list %d carries advanced[%d]' % (p, i, i), z3.And(p < b - a, io.y('toadvanced', a + p) != io.x('fromadvanced', i))))
        return out
    return discharge(h, '%s n=%d' % (cname, n), oracle, [('nonempty', tot >= 2)] if n else [], extra=dict(bounds=dict(n=n, L=L)))


@guard
def h_range_counts(cname, n, L):
    ct = ctype_of(cname)
    h = Harness(cname, unwind=n + 4)
    h.scalar('lenstarts', 'int64_t', n)
    decl_offsets(h, n, L, ct)
    h.arr('total', 'int64_t', 1)
    h.kcall(cname, [('buf', 'total'), ('buf', 'fromoffsets'), 'lenstarts'])

    def oracle(io):
        return [('no error', io.err()), ('total = last offset - first offset', io.y('total', 0) != io.x('fromoffsets', n) - io.x('fromoffsets', 0))]
    return discharge(h, '%s n=%d' % (cname, n), oracle, [], extra=dict(bounds=dict(n=n, L=L)))


@guard
def h_jagged_apply(w, n, L, lens):
    """jagged integer-array index: list i of the slice holds the positions to take from list i of the array
    (carrylen sizes the carry buffer as in ListArrayOf<T>::getitem_next_jagged).  lens = lengths of the slice lists (case split)."""
    ct = ctype_of('ListArray' + w)
    cname, clen = 'awkward_ListArray%s_getitem_jagged_apply_64' % w, 'awkward_ListArray_getitem_jagged_carrylen_64'
    tot = sum(lens)
    h = Harness([cname, clen], unwind=n + tot + 6)
    h.scalar('sliceouterlen', 'int64_t', n); h.scalar('sliceinnerlen', 'int64_t', tot); h.scalar('contentlen', 'int64_t')
    CL = h.scalars['contentlen'][0]
    h.assume(CL >= 0, CL <= type_max(ct) if ct != 'int64_t' else CL <= 2 ** 62)
    offs = [sum(lens[:i]) for i in range(n + 1)]
    h.array('slicestarts', 'int64_t', n, const=True, values=offs[:n]); h.array('slicestops', 'int64_t', n, const=True, values=offs[1:])
    h.arr('sliceindex', 'int64_t', tot, const=True)
    decl_lists(h, n, L, ct, lencontent=CL)
    h.arr('carrylen', 'int64_t', 1)
    h.kcall(clen, [('buf', 'carrylen'), ('buf', 'slicestarts'), ('buf', 'slicestops'), 'sliceouterlen'])
    h.arr('tooffsets', 'int64_t', n + 1)
    h.arr('tocarry', 'int64_t', h.out('carrylen', 0), cap_c='carrylen[0]')
    h.kcall(cname, [('buf', 'tooffsets'), ('buf', 'tocarry'), ('buf', 'slicestarts'), ('buf', 'slicestops'), 'sliceouterlen', ('buf', 'sliceindex'),
                    'sliceinnerlen', ('buf', 'fromstarts'), ('buf', 'fromstops'), 'contentlen'])

    def oracle(io):
        out, bad = [('carrylen kernel reports no error', io.err(0))], []
        ok = z3.Not(io.err(1))
        for i in range(n):
            a, b = io.x('fromstarts', i), io.x('fromstops', i)
            for p in range(lens[i]):
                r, inr = wrap_index(io.x('sliceindex', offs[i] + p), b - a)
                bad.append(z3.Not(inr))
                out.append(('list %d, jagged index %d selects start + wrapped index' % (i, p), z3.And(ok, io.y('tocarry', offs[i] + p) != a + r)))
            out.append(('tooffsets[%d]' % (i + 1), z3.And(ok, io.y('tooffsets', i + 1) != offs[i + 1])))
        out.append(('error iff some jagged index is out of range for the list it addresses (never returns data)', io.err(1) != z3.Or(bad + [z3.BoolVal(False)])))
        return out
    tw = [('ok', z3.Not(h.errs[1][2])), ('error', h.errs[1][2])] if tot else []
    return discharge(h, '%s n=%d slice lens=%s' % (cname, n, lens), oracle, tw, extra=dict(bounds=dict(n=n, L=L, slice_lens=list(lens))))


# ------------------------------------------------------------------------------------------------- more carry / jagged kernels
@guard
def h_index_carry(cname, n, m):
    """Index carry: toindex[i] = fromindex[carry[i]]; an out-of-range carry raises and never reads outside fromindex"""
    ct = {'Index8': 'int8_t', 'IndexU8': 'uint8_t', 'Index32': 'int32_t', 'IndexU32': 'uint32_t', 'Index64': 'int64_t'}[cname.split('_')[1]]
    nocheck = 'nocheck' in cname
    h = Harness(cname, unwind=n + 4)
    h.scalar('lenfromindex', 'int64_t', m); h.scalar('length', 'int64_t', n)
    h.arr('toindex', ct, n); h.arr('fromindex', ct, m, const=True); h.arr('carry', 'int64_t', n, const=True)
    if nocheck:
        for i in range(n):
            h.assume(h.init('carry', i) >= 0, h.init('carry', i) < m)
        h.kcall(cname, [('buf', 'toindex'), ('buf', 'fromindex'), ('buf', 'carry'), 'length'])
    else:
        h.kcall(cname, [('buf', 'toindex'), ('buf', 'fromindex'), ('buf', 'carry'), 'lenfromindex', 'length'])

    def oracle(io):
        out, bad = [], []
        for i in range(n):
            j = io.x('carry', i)
            bad.append(z3.Or(j < 0, j >= m))
            v = BV(0)
            for k in range(m):
                v = z3.If(j == k, io.x('fromindex', k), v)
            out.append(('toindex[%d] = fromindex[carry[%d]]' % (i, i), z3.And(z3.Not(io.err()), z3.Not(bad[-1]), io.y('toindex', i) != v)))
        out.append(('error iff some carry is outside [0, len(fromindex))', io.err() != z3.Or(bad + [z3.BoolVal(False)])) if not nocheck else ('no error', io.err()))
        return out
    return discharge(h, '%s n=%d m=%d' % (cname, n, m), oracle, [('ok', z3.Not(h.errs[-1][2]))], extra=dict(bounds=dict(n=n, m=m)))


@guard
def h_regular_range(n, size, nextsize):
    cname = 'awkward_RegularArray_getitem_next_range_64'
    h = Harness(cname, unwind=n * nextsize + n + nextsize + 4)
    h.scalar('regular_start', 'int64_t'); h.scalar('step', 'int64_t'); h.scalar('length', 'int64_t', n); h.scalar('size', 'int64_t', size)
    h.scalar('nextsize', 'int64_t', nextsize)
    rs, st = h.scalars['regular_start'][0], h.scalars['step'][0]
    # as RegularArray::getitem_next(SliceRange) establishes: the nextsize positions start, start+step, ... lie inside [0, size)
    h.assume(st != 0, st >= -4, st <= 4)
    for j in range(nextsize):
        h.assume(rs + j * st >= 0, rs + j * st < size)
    h.arr('tocarry', 'int64_t', n * nextsize)
    h.kcall(cname, [('buf', 'tocarry'), 'regular_start', 'step', 'length', 'size', 'nextsize'])

    def oracle(io):
        return [('no error', io.err())] + [('row %d selection %d = i*size + start + j*step' % (i, j), io.y('tocarry', i * nextsize + j) != i * size + io.sc('regular_start') + j * io.sc('step'))
                                           for i in range(n) for j in range(nextsize)]
    return discharge(h, '%s n=%d size=%d nextsize=%d' % (cname, n, size, nextsize), oracle, [], extra=dict(bounds=dict(n=n, size=size, nextsize=nextsize)))


@guard
def h_regular_carry(n, size):
    cname = 'awkward_RegularArray_getitem_carry_64'
    h = Harness(cname, unwind=n * size + n + size + 4)
    h.scalar('lencarry', 'int64_t', n); h.scalar('size', 'int64_t', size)
    h.arr('tocarry', 'int64_t', n * size); h.arr('fromcarry', 'int64_t', n, const=True)
    for i in range(n):
        h.assume(h.init('fromcarry', i) >= 0, h.init('fromcarry', i) <= 2 ** 40)
    h.kcall(cname, [('buf', 'tocarry'), ('buf', 'fromcarry'), 'lencarry', 'size'])

    def oracle(io):
        return [('no error', io.err())] + [('carried row %d element %d' % (i, j), io.y('tocarry', i * size + j) != io.x('fromcarry', i) * size + j) for i in range(n) for j in range(size)]
    return discharge(h, '%s n=%d size=%d' % (cname, n, size), oracle, [], extra=dict(bounds=dict(n=n, size=size)))


@guard
def h_union_project(cname, n):
    sp = kspec.spec_by_name()[cname]
    A = {a.name: a for a in sp.args}
    h = Harness(cname, unwind=n + 4)
    h.scalar('length', 'int64_t', n); h.scalar('which', 'int64_t')
    h.assume(h.scalars['which'][0] >= 0, h.scalars['which'][0] <= 127)
    h.arr('lenout', 'int64_t', 1); h.arr('tocarry', 'int64_t', n)
    h.arr('fromtags', A['fromtags'].ctype, n, const=True); h.arr('fromindex', A['fromindex'].ctype, n, const=True)
    h.kcall(cname, [('buf', 'lenout'), ('buf', 'tocarry'), ('buf', 'fromtags'), ('buf', 'fromindex'), 'length', 'which'])

    def oracle(io):
        out = [('no error', io.err())]
        k = BV(0)
        for i in range(n):
            hit = io.x('fromtags', i) == io.sc('which')
            out.append(('element %d of the projected content is carried in order' % i, z3.And(hit, io.y('tocarry', k) != io.x('fromindex', i))))
            k = z3.If(hit, k + 1, k)
        out.append(('lenout = number of elements with that tag', io.y('lenout', 0) != k))
        return out
    return discharge(h, '%s n=%d' % (cname, n), oracle, [], extra=dict(bounds=dict(n=n)))


@guard
def h_jagged_descend_expand(w, n, L, lens):
    """jagged slice of lists: descend requires equal inner lengths and returns compact offsets; expand replicates the single jagged
    slice over every list of a regular-length dimension and carries start..start+size"""
    ct = ctype_of('ListArray' + w)
    c1, c2 = 'awkward_ListArray%s_getitem_jagged_descend_64' % w, 'awkward_ListArray%s_getitem_jagged_expand_64' % w
    h = Harness([c1, c2], unwind=n * (L + 2) + 6)
    h.scalar('sliceouterlen', 'int64_t', n)
    h.arr('slicestarts', 'int64_t', n, const=True); h.arr('slicestops', 'int64_t', n, const=True)
    for i in range(n):
        a, b = h.init('slicestarts', i), h.init('slicestops', i)
        h.assume(a >= 0, b >= a, b - a <= L, b <= 2 ** 40)
    decl_lists(h, n, L, ct, lens=lens)
    h.arr('tooffsets', 'int64_t', n + 1)
    h.kcall(c1, [('buf', 'tooffsets'), ('buf', 'slicestarts'), ('buf', 'slicestops'), 'sliceouterlen', ('buf', 'fromstarts'), ('buf', 'fromstops')])
    js = lens[0] if lens else 0
    h.scalar('jaggedsize', 'int64_t', js); h.scalar('length', 'int64_t', n)
    h.arr('singleoffsets', 'int64_t', js + 1, const=True)
    for nm in ('multistarts', 'multistops', 'tocarry'):
        h.arr(nm, 'int64_t', n * js)
    h.kcall(c2, [('buf', 'multistarts'), ('buf', 'multistops'), ('buf', 'singleoffsets'), ('buf', 'tocarry'), ('buf', 'fromstarts'), ('buf', 'fromstops'), 'jaggedsize', 'length'])

    def oracle(io):
        out = []
        mism = [io.x('slicestops', i) - io.x('slicestarts', i) != lens[i] for i in range(n)]
        out.append(('descend: error iff some slice list length differs from the array list length', io.err(0) != z3.Or(mism + [z3.BoolVal(False)])))
        ok = z3.Not(io.err(0))
        if n:
            out.append(('descend: offsets start at the first slice start', z3.And(ok, io.y('tooffsets', 0) != io.x('slicestarts', 0))))
        for i in range(n):
            out.append(('descend: offsets[%d] - offsets[%d] = list length' % (i + 1, i), z3.And(ok, io.y('tooffsets', i + 1) - io.y('tooffsets', i) != lens[i])))
        irregular = any(l != js for l in lens)
        out.append(('expand: error iff some list length differs from the jagged size', io.err(1) != z3.BoolVal(irregular)))
        if not irregular:
            for i in range(n):
                for j in range(js):
                    out.append(('expand: (%d,%d) carries start + j' % (i, j), io.y('tocarry', i * js + j) != io.x('fromstarts', i) + j))
                    out.append(('expand: (%d,%d) slice bounds repeat per list' % (i, j), z3.Or(io.y('multistarts', i * js + j) != io.x('singleoffsets', j),
                                                                                         io.y('multistops', i * js + j) != io.x('singleoffsets', j + 1))))
        return out
    return discharge(h, 'ListArray%s jagged descend/expand n=%d lens=%s' % (w, n, lens), oracle, [], extra=dict(bounds=dict(n=n, lens=list(lens))))


@guard
def h_jagged_missing(n, lens, M):
    """jagged slice with missing values: numvalid counts, shrink keeps the positions of the non-missing entries per list"""
    c1, c2 = 'awkward_ListArray_getitem_jagged_numvalid_64', 'awkward_ListArray_getitem_jagged_shrink_64'
    tot = sum(lens)
    offs = [sum(lens[:i]) for i in range(n + 1)]
    h = Harness([c1, c2], unwind=n + tot + 6)
    h.scalar('length', 'int64_t', n); h.scalar('missinglength', 'int64_t', tot)
    h.array('slicestarts', 'int64_t', n, const=True, values=offs[:n]); h.array('slicestops', 'int64_t', n, const=True, values=offs[1:])
    h.arr('missing', 'int64_t', tot, const=True)
    h.arr('numvalid', 'int64_t', 1)
    h.kcall(c1, [('buf', 'numvalid'), ('buf', 'slicestarts'), ('buf', 'slicestops'), 'length', ('buf', 'missing'), 'missinglength'])
    nv = h.out('numvalid', 0)
    h.arr('tocarry', 'int64_t', nv, cap_c='numvalid[0]'); h.arr('tosmalloffsets', 'int64_t', n + 1); h.arr('tolargeoffsets', 'int64_t', n + 1)
    h.kcall(c2, [('buf', 'tocarry'), ('buf', 'tosmalloffsets'), ('buf', 'tolargeoffsets'), ('buf', 'slicestarts'), ('buf', 'slicestops'), 'length', ('buf', 'missing')])

    def oracle(io):
        out = [('no error', z3.Or(io.err(0), io.err(1)))]
        k = BV(0)
        for i in range(n):
            for p in range(lens[i]):
                j = offs[i] + p
                valid = io.x('missing', j) >= 0
                out.append(('list %d entry %d: position of a non-missing entry is kept in order' % (i, p), z3.And(valid, io.y('tocarry', k) != j)))
                k = z3.If(valid, k + 1, k)
            out.append(('small offsets[%d] = non-missing entries so far' % (i + 1), io.y('tosmalloffsets', i + 1) - io.y('tosmalloffsets', 0) != k))
            out.append(('large offsets[%d] = all entries so far' % (i + 1), io.y('tolargeoffsets', i + 1) - io.y('tolargeoffsets', 0) != offs[i + 1]))
        out.append(('numvalid = number of non-missing entries', io.y('numvalid', 0) != k))
        return out
    return discharge(h, 'jagged slice with missing values n=%d lens=%s' % (n, lens), oracle, [], extra=dict(bounds=dict(n=n, lens=list(lens))))


# ------------------------------------------------------------------------------------------------- RegularArray
@guard
def h_regular_at(n):
    cname = 'awkward_RegularArray_getitem_next_at_64'
    h = Harness(cname, unwind=n + 3)
    h.scalar('at', 'int64_t'); h.scalar('length', 'int64_t', n); h.scalar('size', 'int64_t')
    S = h.scalars['size'][0]
    h.assume(S >= 0, S <= 2 ** 40)
    h.arr('tocarry', 'int64_t', n)
    h.kcall(cname, [('buf', 'tocarry'), 'at', 'length', 'size'])

    def oracle(io):
        r, ok = wrap_index(io.sc('at'), io.sc('size'))
        out = [('error iff index out of range for the regular size (decided by the type)', io.err() != z3.Not(ok))]
        for i in range(n):
            out.append(('tocarry[%d] = i*size + wrapped index' % i, z3.And(z3.Not(io.err()), io.y('tocarry', i) != i * io.sc('size') + r)))
        return out
    return discharge(h, '%s n=%d' % (cname, n), oracle, [('ok', z3.Not(h.errs[-1][2])), ('error', h.errs[-1][2])], extra=dict(bounds=dict(n=n)))


@guard
def h_regular_array(n, M, adv):
    cname = 'awkward_RegularArray_getitem_next_array_advanced_64' if adv else 'awkward_RegularArray_getitem_next_array_64'
    reg = 'awkward_RegularArray_getitem_next_array_regularize_64'
    h = Harness([cname, reg], unwind=n * M + n + M + 4)
    h.scalar('length', 'int64_t', n); h.scalar('lenarray', 'int64_t', M); h.scalar('size', 'int64_t')
    S = h.scalars['size'][0]
    h.assume(S >= 0, S <= 2 ** 40)
    h.arr('fromarray', 'int64_t', M, const=True)
    h.arr('regular', 'int64_t', M)
    e1 = h.kcall(reg, [('buf', 'regular'), ('buf', 'fromarray'), 'lenarray', 'size'])
    h.continue_if(z3.Not(e1))      # RegularArray::getitem_next throws on error before the second kernel
    if adv:
        h.arr('fromadvanced', 'int64_t', n, const=True)
        for i in range(n):
            h.assume(h.init('fromadvanced', i) >= 0, h.init('fromadvanced', i) < M)
        h.arr('tocarry', 'int64_t', n); h.arr('toadvanced', 'int64_t', n)
        h.kcall(cname, [('buf', 'tocarry'), ('buf', 'toadvanced'), ('buf', 'fromadvanced'), ('buf', 'regular'), 'length', 'lenarray', 'size'])
    else:
        h.arr('tocarry', 'int64_t', n * M); h.arr('toadvanced', 'int64_t', n * M)
        h.kcall(cname, [('buf', 'tocarry'), ('buf', 'toadvanced'), ('buf', 'regular'), 'length', 'lenarray', 'size'])

    def oracle(io):
        size = io.sc('size')
        out = []
        oks = []
        for j in range(M):
            r, ok = wrap_index(io.x('fromarray', j), size)
            oks.append(ok)
        out.append(('regularize: error iff some index out of range for the regular size', io.err(0) != z3.Not(z3.And(oks + [z3.BoolVal(True)]))))
        good = z3.Not(io.err(0))
        out.append(('fill kernel reports no error', z3.And(good, io.err(1))))
        for i in range(n):
            if adv:
                ai = io.x('fromadvanced', i)
                at = BV(0)
                for j in range(M):
                    at = z3.If(ai == j, io.x('fromarray', j), at)
                r, ok = wrap_index(at, size)
                out.append(('tocarry[%d]' % i, z3.And(good, io.y('tocarry', i) != i * size + r)))
                out.append(('toadvanced[%d]' % i, z3.And(good, io.y('toadvanced', i) != i)))
            else:
                for j in range(M):
                    r, ok = wrap_index(io.x('fromarray', j), size)
                    out.append(('tocarry[%d*M+%d]' % (i, j), z3.And(good, io.y('tocarry', i * M + j) != i * size + r)))
                    out.append(('toadvanced[%d*M+%d]' % (i, j), z3.And(good, io.y('toadvanced', i * M + j) != j)))
        return out
    return discharge(h, '%s n=%d M=%d' % (cname, n, M), oracle, [('ok reachable', z3.BoolVal(True))], extra=dict(bounds=dict(n=n, M=M)))


@guard
def h_regularize_arrayslice(M):
    cname = 'awkward_regularize_arrayslice_64'
    h = Harness(cname, unwind=M + 3)
    h.scalar('lenflathead', 'int64_t', M); h.scalar('length', 'int64_t')
    Ln = h.scalars['length'][0]
    h.assume(Ln >= 0, Ln <= 2 ** 62)
    h.arr('flatheadptr', 'int64_t', M)
    h.kcall(cname, [('buf', 'flatheadptr'), 'lenflathead', 'length'])

    def oracle(io):
        out, bad = [], []
        seen_bad = z3.BoolVal(False)
        for j in range(M):
            r, ok = wrap_index(io.x('flatheadptr', j), io.sc('length'))
            out.append(('entry %d wrapped' % j, z3.And(z3.Not(io.err()), io.y('flatheadptr', j) != r)))
            bad.append(z3.Not(ok))
        out.append(('error iff some index out of range', io.err() != z3.Or(bad + [z3.BoolVal(False)])))
        return out
    return discharge(h, '%s M=%d' % (cname, M), oracle, [('ok', z3.Not(h.errs[-1][2])), ('error', h.errs[-1][2])] if M else [], extra=dict(bounds=dict(M=M)))


@guard
def h_slicearray_ravel(shape, transposed=False):
    """awkward_slicearray_ravel: the index array of a slice (any number of dimensions, any strides) laid out flat in row-major order:
    flat[(i0, i1, ...)] = from[i0 * s0 + i1 * s1 + ...], every flat position written exactly once"""
    cname = 'awkward_slicearray_ravel_64'
    shape = tuple(shape)
    nd = len(shape)
    total = 1
    for x in shape:
        total *= x
    strides, acc = [0] * nd, 1
    order = range(nd) if transposed else reversed(range(nd))
    for k in order:
        strides[k] = acc
        acc *= shape[k]
    h = Harness(cname, unwind=max(shape + (1,)) * nd + total + 6)
    h.scalar('ndim', 'int64_t', nd)
    h.arr('toptr', 'int64_t', total)
    h.arr('fromptr', 'int64_t', max(total, 1), const=True)
    h.array('shape', 'int64_t', nd, const=True, values=list(shape))
    h.array('strides', 'int64_t', nd, const=True, values=strides)
    h.kcall(cname, [('buf', 'toptr'), ('buf', 'fromptr'), 'ndim', ('buf', 'shape'), ('buf', 'strides')])

    def oracle(io):
        out = [('no error', io.err())]
        for flat, pos in enumerate(itertools.product(*[range(x) for x in shape])):
            src = sum(p_ * s_ for p_, s_ in zip(pos, strides))
            out.append(('flat position %d holds entry %s of the index array' % (flat, pos), io.y('toptr', flat) != io.x('fromptr', src)))
        return out
    return discharge(h, '%s shape=%s%s' % (cname, ','.join(map(str, shape)), ' transposed' if transposed else ''), oracle, [], extra=dict(bounds=dict(shape=shape)))


# ------------------------------------------------------------------------------------------------- boolean / carry
@guard
def h_boolean(n):
    """numtrue sizes the output of nonzero (capacity = numtrue[0] as NumpyArray::asslice / getitem allocate it)"""
    c1, c2 = 'awkward_NumpyArray_getitem_boolean_numtrue', 'awkward_NumpyArray_getitem_boolean_nonzero_64'
    h = Harness([c1, c2], unwind=n + 4)
    h.scalar('length', 'int64_t', n); h.scalar('stride', 'int64_t', 1)
    h.arr('fromptr', 'int8_t', n, const=True)
    h.arr('numtrue', 'int64_t', 1)
    h.kcall(c1, [('buf', 'numtrue'), ('buf', 'fromptr'), 'length', 'stride'])
    nt = h.out('numtrue', 0)
    h.arr('toptr', 'int64_t', nt, cap_c='numtrue[0]')
    h.kcall(c2, [('buf', 'toptr'), ('buf', 'fromptr'), 'length', 'stride'])

    def oracle(io):
        out = [('no error', z3.Or(io.err(0), io.err(1)))]
        k = BV(0)
        for i in range(n):
            t = io.x('fromptr', i) != 0
            out.append(('position of true entry %d' % i, z3.And(t, io.y('toptr', k) != i)))
            k = z3.If(t, k + 1, k)
        out.append(('numtrue = number of true entries', io.y('numtrue', 0) != k))
        return out
    return discharge(h, 'NumpyArray_getitem_boolean n=%d' % n, oracle, [('some true', nt >= 1)] if n else [], extra=dict(bounds=dict(n=n)))


@guard
def h_indexed_nextcarry(cname, n):
    """IndexedArray_getitem_nextcarry(_outindex): project the index, keep missing as -1"""
    sp = kspec.spec_by_name()[cname]
    outindex = 'outindex' in cname
    ict = [a for a in sp.args if a.name == 'fromindex'][0].ctype
    h = Harness(cname, unwind=n + 4)
    h.scalar('lenindex', 'int64_t', n); h.scalar('lencontent', 'int64_t')
    LC = h.scalars['lencontent'][0]
    h.assume(LC >= 0, LC <= 2 ** 40)
    h.arr('fromindex', ict, n, const=True)
    h.arr('tocarry', 'int64_t', n)       # callers allocate lenindex (nextcarry) or lenindex - numnull
    args = [('buf', 'tocarry')]
    if outindex:
        h.arr('toindex', ict, n)
        args.append(('buf', 'toindex'))
    h.kcall(cname, args + [('buf', 'fromindex'), 'lenindex', 'lencontent'])

    def oracle(io):
        out, bad = [], []
        k = BV(0)
        LC = io.sc('lencontent')
        for i in range(n):
            x = io.x('fromindex', i)
            if outindex:
                bad.append(x >= LC)
                valid = x >= 0
                out.append(('carry of valid entry %d' % i, z3.And(z3.Not(io.err()), valid, io.y('tocarry', k) != x)))
                out.append(('outindex[%d]' % i, z3.And(z3.Not(io.err()), io.y('toindex', i) != z3.If(valid, k, BV(-1)))))
                k = z3.If(valid, k + 1, k)
            else:
                bad.append(z3.Or(x < 0, x >= LC))
                out.append(('carry[%d] = index[%d]' % (i, i), z3.And(z3.Not(io.err()), io.y('tocarry', i) != x)))
        out.append(('error iff an index is outside the content', io.err() != z3.Or(bad + [z3.BoolVal(False)])))
        return out
    return discharge(h, '%s n=%d' % (cname, n), oracle, [('ok', z3.Not(h.errs[-1][2])), ('error', h.errs[-1][2])] if n else [], extra=dict(bounds=dict(n=n)))


@guard
def h_bytemasked_nextcarry(outindex, n):
    cname = 'awkward_ByteMaskedArray_getitem_nextcarry_outindex_64' if outindex else 'awkward_ByteMaskedArray_getitem_nextcarry_64'
    h = Harness(cname, unwind=n + 4)
    h.scalar('length', 'int64_t', n); h.scalar('validwhen', 'bool')
    h.arr('mask', 'int8_t', n, const=True)
    h.arr('tocarry', 'int64_t', n)
    args = [('buf', 'tocarry')]
    if outindex:
        h.arr('outindex', 'int64_t', n)
        args.append(('buf', 'outindex'))
    h.kcall(cname, args + [('buf', 'mask'), 'length', 'validwhen'])

    def oracle(io):
        out = [('no error', io.err())]
        k = BV(0)
        vw = io.sc('validwhen')
        for i in range(n):
            valid = (io.x('mask', i) != 0) == vw
            out.append(('carry of valid entry %d' % i, z3.And(valid, io.y('tocarry', k) != i)))
            if outindex:
                out.append(('outindex[%d]' % i, io.y('outindex', i) != z3.If(valid, k, BV(-1))))
            k = z3.If(valid, k + 1, k)
        return out
    return discharge(h, '%s n=%d' % (cname, n), oracle, [], extra=dict(bounds=dict(n=n)))


# ------------------------------------------------------------------------------------------------- job list
def jobs(tier):
    N, L, M = (2, 3, 2) if tier == 'quick' else (3, 4, 3)
    K = kspec.by_name()
    js = [(h_regularize_rangeslice, ('awkward_regularize_rangeslice',), 900)]
    widths = ['64', '32', 'U32'] if tier == 'thorough' else ['64', 'U32']
    for w in ['64', '32', 'U32']:
        for n in range(N + 1):
            js.append((h_next_at, ('awkward_ListArray%s_getitem_next_at_64' % w, n, L), 900))
    for w in widths:
        for n in range(N + 1):
            js.append((h_next_range, ('awkward_ListArray%s_getitem_next_range_64' % w, n, L, 3 if tier == 'thorough' else 2), 1800))
            js.append((h_spreadadvanced, ('awkward_ListArray%s_getitem_next_range_spreadadvanced_64' % w, n, L), 900))
            js.append((h_range_counts, ('awkward_ListArray%s_getitem_next_range_counts_64' % w, n, L), 900))
            for m in range(M + 1):
                js.append((h_next_array, ('awkward_ListArray%s_getitem_next_array_64' % w, n, L, m), 900))
            js.append((h_next_array, ('awkward_ListArray%s_getitem_next_array_advanced_64' % w, n, L, M), 900))
    import itertools
    for w in ['64', '32', 'U32']:
        for n in range(1, N + 1):
            for lens in itertools.product(range(3), repeat=n):
                js.append((h_jagged_apply, (w, n, L, lens), 900))
    for ix in ('Index8', 'IndexU8', 'Index32', 'IndexU32', 'Index64'):       # not listed in kernel-specification.yml at all
        for suffix in ('carry_64', 'carry_nocheck_64'):
            for n in (1, 2):
                js.append((h_index_carry, ('awkward_%s_%s' % (ix, suffix), n, 2), 600))
    for s_ in K['awkward_UnionArray_project'].specs:
        js.append((h_union_project, (s_.name, 3), 600))
    for n in range(N + 1):
        for size in range(0, 4):
            js.append((h_regular_carry, (n, size), 300))
            for nextsize in range(0, size + 1):
                js.append((h_regular_range, (n, size, nextsize), 300))
    for w in ['64', '32', 'U32']:
        for n in range(0, N + 1):
            for lens in itertools.product(range(3), repeat=n):
                js.append((h_jagged_descend_expand, (w, n, 2, lens), 600))
    for n in range(1, N + 1):
        for lens in itertools.product(range(3), repeat=n):
            js.append((h_jagged_missing, (n, lens, 0), 600))
    for n in range(N + 1):
        js.append((h_regular_at, (n,), 600))
        for m in range(M + 1):
            js.append((h_regular_array, (n, m, False), 600))
        js.append((h_regular_array, (n, M, True), 600))
        js.append((h_boolean, (n + 1,), 600))
        for s in K['awkward_IndexedArray_getitem_nextcarry'].specs + K['awkward_IndexedArray_getitem_nextcarry_outindex'].specs:
            js.append((h_indexed_nextcarry, (s.name, n + 1), 600))
        js.append((h_bytemasked_nextcarry, (False, n + 1), 600))
        js.append((h_bytemasked_nextcarry, (True, n + 1), 600))
    for m in range(M + 2):
        js.append((h_regularize_arrayslice, (m,), 600))
    for shp in ([(3,), (2, 3), (2, 2, 2)] if tier == 'quick' else [(0,), (3,), (2, 3), (3, 1), (2, 2, 2), (2, 3, 2), (1, 2, 3), (2, 1, 2, 2)]):
        js.append((h_slicearray_ravel, (shp,), 600))
        if len(shp) >= 2:
            js.append((h_slicearray_ravel, (shp, True), 600))
    from . import extra01, cpp01
    js += extra01.jobs(tier)
    js += cpp01.jobs(tier)          # C++ method level: getitem_at / getitem_range / getitem_at_nowrap of the list nodes
    return js


def main(report, tier):
    from . import mnode
    results = runner.run_tasks(jobs(tier) + mnode.jobs_for('C01', tier))
    return summarize(report, results, 'C01')
