"""Task pool, verdict bookkeeping, evidence files, known findings, exit codes."""
import json, os, sys, time, traceback, multiprocessing as mp, signal, hashlib
from . import build

VERIF = build.VERIF
EXIT_OK, EXIT_VIOLATION, EXIT_HARNESS = 0, 1, 3


def tier():
    t = os.environ.get('VERIF_TIER', 'quick')
    return t if t in ('quick', 'thorough') else 'quick'


def seed():
    try:
        return int(os.environ.get('VERIF_SEED', '0'))
    except ValueError:
        return 0


class TaskTimeout(BaseException):
    pass


def _alarm(signum, frame):
    raise TaskTimeout()


def _run_task(job):
    fn, args, limit = job
    t0 = time.time()
    import threading
    use_alarm = threading.current_thread() is threading.main_thread()
    if use_alarm:
        old = signal.signal(signal.SIGALRM, _alarm)
        signal.alarm(int(limit))
    try:
        res = fn(*args)
        if isinstance(res, dict) and res.get('status') == 'unreproduced' and not res.get('violations'):
            # a counterexample the native run does not confirm is inconclusive: branch-feasibility queries that time out on a loaded machine keep
            # infeasible paths alive and can produce one.  Run the harness once more; a clean second run is a full verdict of its own.
            res2 = fn(*args)
            if isinstance(res2, dict) and res2.get('status') in ('ok', 'violation'):
                res2['retried_after_unreproduced'] = True
                res = res2
    except TaskTimeout:
        res = dict(status='timeout', detail='task exceeded %ds' % limit)
    except BaseException as e:      # noqa - report everything from workers
        res = dict(status='harness-error', detail='%s: %s' % (type(e).__name__, e), tb=traceback.format_exc()[-1500:])
    finally:
        if use_alarm:
            signal.alarm(0)
            signal.signal(signal.SIGALRM, old)
    res.setdefault('unit', str(args[0]) if args else fn.__name__)
    res['wall_s'] = round(time.time() - t0, 2)
    return res


def run_tasks(jobs, procs=None, progress=None):
    """jobs: list of (function, args tuple, time limit s). Functions must be module-level (picklable)."""
    procs = procs or int(os.environ.get('VERIF_PROCS', '16'))
    out = []
    if procs <= 1 or len(jobs) <= 1:
        for j in jobs:
            out.append(_run_task(j))
        return out
    ctx = mp.get_context('fork')
    with ctx.Pool(procs, maxtasksperchild=8) as pool:
        for k, r in enumerate(pool.imap_unordered(_run_task, jobs, chunksize=1)):
            out.append(r)
            if progress:
                progress(k + 1, len(jobs), r)
    return out


# ------------------------------------------------------------------------------------------- known findings
def load_known():
    p = os.path.join(VERIF, 'known_findings.json')
    if not os.path.exists(p):
        return []
    with open(p) as f:
        return json.load(f).get('findings', [])


def match_known(prop, key):
    """key: string identifying the failing unit/input class. A listed finding matches when its property is
    the same and its 'key' equals the key (exact) - a different failure of the same property is still reported."""
    for k in load_known():
        if k.get('status', 'open') != 'open':
            continue
        if k['property'] == prop and (k['key'] == key or (k['key'].endswith('*') and key.startswith(k['key'][:-1]))):
            return k
    return None


# ------------------------------------------------------------------------------------------- report
class Report:
    def __init__(self, prop, level):
        self.prop, self.level = prop, level
        self.t0 = time.time()
        self.results = []
        self.violations = []      # (key, replay path, text)
        self.known = []
        self.harness_errors = []
        self.assumptions = []
        self.extra = {}
        self.samples = []

    def add_results(self, rs):
        self.results.extend(rs)

    def violation(self, key, replay, text):
        k = match_known(self.prop, key)
        if k is not None:
            self.known.append((k['key'], k.get('text', text)))
        else:
            self.violations.append((key, replay, text))

    def save_replay(self, name, payload):
        d = os.path.join(VERIF, 'replay')
        os.makedirs(d, exist_ok=True)
        p = os.path.join(d, '%s_%s.json' % (self.prop, name))
        with open(p, 'w') as f:
            json.dump(payload, f, indent=1, default=str)
        return p

    def finish(self, coverage, assumptions=None):
        wall = time.time() - self.t0
        ev = dict(property_id=self.prop, tier=tier(), seed=seed(), level=self.level, coverage=coverage,
                  assumptions=(assumptions or []) + self.assumptions, wall_s=round(wall, 1),
                  violations=len(self.violations))
        ev.update(self.extra)
        os.makedirs(os.path.join(VERIF, 'evidence'), exist_ok=True)
        with open(os.path.join(VERIF, 'evidence', '%s.json' % self.prop), 'w') as f:
            json.dump(ev, f, indent=1, default=str)
        seen = set()
        for key, text in self.known:
            if key not in seen:
                print('KNOWN-FINDING: property=%s %s' % (self.prop, text))
                seen.add(key)
        for key, replay, text in self.violations:
            print('VIOLATION property=%s replay=%s' % (self.prop, replay))
            print('  ' + text)
        for h in self.harness_errors[:20]:
            print('HARNESS-NOTE: ' + h)
        print('%s %s: %s in %.1fs' % (self.prop, tier(), 'VIOLATED' if self.violations else 'held on everything explored', wall))
        sys.stdout.flush()
        return EXIT_VIOLATION if self.violations else EXIT_OK
