"""Task pool, verdict bookkeeping, evidence files, known findings, exit codes."""
import json, os, sys, time, traceback, multiprocessing as mp, signal, hashlib
from . import build

VERIF = build.VERIF
EXIT_OK, EXIT_VIOLATION, EXIT_HARNESS = 0, 1, 3


def tier():
    t = os.environ.get('VERIF_TIER', 'quick')
    return t if t in ('quick', 'thorough') else 'quick'


def seed():
    try:
        return int(os.environ.get('VERIF_SEED', '0'))
    except ValueError:
        return 0


class TaskTimeout(BaseException):
    pass


def _alarm(signum, frame):
    raise TaskTimeout()


def _run_task(job):
    fn, args, limit = job
    t0 = time.time()
    import threading
    use_alarm = threading.current_thread() is threading.main_thread()
    if use_alarm:
        old = signal.signal(signal.SIGALRM, _alarm)
        signal.alarm(int(limit))
    try:
        res = fn(*args)
        if isinstance(res, dict) and res.get('status') == 'unreproduced' and not res.get('violations'):
            # a counterexample the native run does not confirm is inconclusive: branch-feasibility queries that time out on a loaded machine keep
            # infeasible paths alive and can produce one.  Run the harness once more; a clean second run is a full verdict of its own.
            res2 = fn(*args)
            if isinstance(res2, dict) and res2.get('status') in ('ok', 'violation'):
                res2['retried_after_unreproduced'] = True
                res = res2
    except TaskTimeout:
        res = dict(status='timeout', detail='task exceeded %ds' % limit)
    except BaseException as e:      # noqa - report everything from workers
        res = dict(status='harness-error', detail='%s: %s' % (type(e).__name__, e), tb=traceback.format_exc()[-1500:])
    finally:
        if use_alarm:
            signal.alarm(0)
            signal.signal(signal.SIGALRM, old)
    res.setdefault('unit', str(args[0]) if args else fn.__name__)
    res['wall_s'] = round(time.time() - t0, 2)
    return res


def _worker(wid, inq, outq, maxtasks):
    done = 0
    while True:
        item = inq.get()
        if item is None:
            break
        k, job = item
        outq.put(('start', wid, k, None))
        res = _run_task(job)
        done += 1
        outq.put(('last' if done >= maxtasks else 'done', wid, k, res))
        if done >= maxtasks:
            break


GRACE_S = 90


def run_tasks(jobs, procs=None, progress=None):
    """jobs: list of (function, args tuple, time limit s). Functions must be module-level (picklable).  Every job runs in a worker process; a
    worker that overruns its job's limit by more than GRACE_S (a solver call that does not come back: the in-process alarm cannot interrupt
    native code) is killed and the job reported as 'timeout' - inconclusive, never a verdict."""
    procs = procs or int(os.environ.get('VERIF_PROCS', '16'))
    out = []
    if procs <= 1 or len(jobs) <= 1:
        for j in jobs:
            out.append(_run_task(j))
        return out
    ctx = mp.get_context('fork')
    outq = ctx.Queue()
    workers = {}            # wid -> dict(proc, inq, job index or None, start)
    nextwid = [0]
    pending = list(range(len(jobs)))[::-1]

    def spawn():
        wid = nextwid[0]; nextwid[0] += 1
        inq = ctx.Queue()
        pr = ctx.Process(target=_worker, args=(wid, inq, outq, 8), daemon=True)
        pr.start()
        workers[wid] = dict(proc=pr, inq=inq, k=None, start=None)
        return wid

    def feed(wid):
        w = workers[wid]
        if pending:
            k = pending.pop()
            w['k'], w['start'] = k, time.time()
            w['inq'].put((k, jobs[k]))
        else:
            w['k'] = None
            w['inq'].put(None)

    def record(k, r):
        out.append(r)
        if progress:
            progress(len(out), len(jobs), r)
    for _ in range(min(procs, len(jobs))):
        feed(spawn())
    import queue as _q
    while len(out) < len(jobs):
        try:
            kind, wid, k, res = outq.get(timeout=2)
        except _q.Empty:
            kind = None
        if kind in ('done', 'last') and wid in workers and workers[wid]['k'] == k:
            record(k, res)
            workers[wid]['k'] = None
            if kind == 'done':
                feed(wid)
            else:                       # the worker retires after this task (bounded life: memory of the solver contexts)
                w = workers.pop(wid)
                w['proc'].join(timeout=5)
                if pending:
                    feed(spawn())
        now = time.time()
        for wid in list(workers):
            w = workers[wid]
            if w['k'] is None:
                continue
            limit = jobs[w['k']][2]
            dead = not w['proc'].is_alive()
            if dead:
                # a worker that retires exits right after queueing its last result: that message may still be in flight - wait for it
                w.setdefault('dead_since', now)
                if now - w['dead_since'] < 6:
                    continue
            if dead or now - w['start'] > limit + GRACE_S:
                k = w['k']
                try:
                    w['proc'].kill()
                except Exception:       # noqa
                    pass
                w['proc'].join(timeout=5)
                workers.pop(wid)
                fn, args, lim = jobs[k]
                record(k, dict(unit=str(args[0]) if args else fn.__name__, status='timeout' if not dead else 'harness-error',
                               detail=('worker killed: job exceeded %ds + %ds grace (a native solver call did not return)' % (lim, GRACE_S)) if not dead else 'worker process died',
                               wall_s=round(now - w['start'], 2)))
                if pending:
                    feed(spawn())
    for w in workers.values():
        try:
            w['inq'].put(None)
        except Exception:               # noqa
            pass
    for w in workers.values():
        w['proc'].join(timeout=5)
        if w['proc'].is_alive():
            w['proc'].kill()
    return out


# ------------------------------------------------------------------------------------------- known findings
def load_known():
    p = os.path.join(VERIF, 'known_findings.json')
    if not os.path.exists(p):
        return []
    with open(p) as f:
        return json.load(f).get('findings', [])


def match_known(prop, key):
    """key: string identifying the failing unit/input class. A listed finding matches when its property is
    the same and its 'key' equals the key (exact) - a different failure of the same property is still reported."""
    for k in load_known():
        if k.get('status', 'open') != 'open':
            continue
        if k['property'] == prop and (k['key'] == key or (k['key'].endswith('*') and key.startswith(k['key'][:-1]))):
            return k
    return None


# ------------------------------------------------------------------------------------------- report
class Report:
    def __init__(self, prop, level):
        self.prop, self.level = prop, level
        self.t0 = time.time()
        self.results = []
        self.violations = []      # (key, replay path, text)
        self.known = []
        self.harness_errors = []
        self.assumptions = []
        self.extra = {}
        self.samples = []

    def add_results(self, rs):
        self.results.extend(rs)

    def violation(self, key, replay, text):
        k = match_known(self.prop, key)
        if k is not None:
            self.known.append((k['key'], k.get('text', text)))
        else:
            self.violations.append((key, replay, text))

    def save_replay(self, name, payload):
        d = os.path.join(VERIF, 'replay')
        os.makedirs(d, exist_ok=True)
        p = os.path.join(d, '%s_%s.json' % (self.prop, name))
        with open(p, 'w') as f:
            json.dump(payload, f, indent=1, default=str)
        return p

    def finish(self, coverage, assumptions=None):
        wall = time.time() - self.t0
        ev = dict(property_id=self.prop, tier=tier(), seed=seed(), level=self.level, coverage=coverage,
                  assumptions=(assumptions or []) + self.assumptions, wall_s=round(wall, 1),
                  violations=len(self.violations))
        ev.update(self.extra)
        # evidence describes runs against /repo itself; a run against another tree (VERIF_REPO = a scratch worktree with a seeded change) keeps its
        # record apart
        evdir = 'evidence' if os.environ.get('VERIF_REPO', '/repo') == '/repo' else 'evidence_scratch'
        os.makedirs(os.path.join(VERIF, evdir), exist_ok=True)
        with open(os.path.join(VERIF, evdir, '%s.json' % self.prop), 'w') as f:
            json.dump(ev, f, indent=1, default=str)
        seen = set()
        for key, text in self.known:
            if key not in seen:
                print('KNOWN-FINDING: property=%s %s' % (self.prop, text))
                seen.add(key)
        for key, replay, text in self.violations:
            print('VIOLATION property=%s replay=%s' % (self.prop, replay))
            print('  ' + text)
        for h in self.harness_errors[:20]:
            print('HARNESS-NOTE: ' + h)
        print('%s %s: %s in %.1fs' % (self.prop, tier(), 'VIOLATED' if self.violations else 'held on everything explored', wall))
        sys.stdout.flush()
        return EXIT_VIOLATION if self.violations else EXIT_OK
