"""Node-method harness kit (M-level orchestration): a libawkward node object (ListOffsetArray64, ListArray64, RegularArray,
IndexedArray / IndexedOptionArray, ...) is built as raw memory at the field offsets of the IR type table, with real Index objects
over symbolic buffers and an *opaque* content: a test double whose virtual methods are observation points with the documented
contract.  Every opaque content carries the sequence of atoms (positions of the original content) it stands for, so results - real
node objects constructed by the real constructors, decoded back from memory - can be read as nested lists of atom terms and
compared with plain Python list semantics applied to the input's nested list of atoms."""
import re, z3
from .mharness import MCtx, module_of, stub_noop
from .llbmc import Ptr, NULL, State, ptr_cases, GPtr, Unsupported, ArrayObj, RecObj
from .cpp01 import vtable_slots, struct_of

SRC = dict(
    LOA='src/libawkward/array/ListOffsetArray.cpp', LA='src/libawkward/array/ListArray.cpp', RA='src/libawkward/array/RegularArray.cpp',
    IA='src/libawkward/array/IndexedArray.cpp', NA='src/libawkward/array/NumpyArray.cpp', BMA='src/libawkward/array/ByteMaskedArray.cpp',
    UNI='src/libawkward/array/UnionArray.cpp', REC='src/libawkward/array/RecordArray.cpp', UMA='src/libawkward/array/UnmaskedArray.cpp', BIT='src/libawkward/array/BitMaskedArray.cpp', IDX='src/libawkward/Index.cpp', CNT='src/libawkward/Content.cpp', UTL='src/libawkward/util.cpp', KD='src/libawkward/kernel-dispatch.cpp',
    IDS='src/libawkward/Identities.cpp', SLC='src/libawkward/Slice.cpp', EA='src/libawkward/array/EmptyArray.cpp', KU='src/cpu-kernels/kernel-utils.cpp')


def BV(x, bits=64):
    return z3.BitVecVal(x, bits)


def kernel_src(name):
    return 'src/cpu-kernels/%s.cpp' % name


# ------------------------------------------------------------------------------------------------ generic stubs
def s_empty_string(eng, fr, ins, st, name, argv):
    """functions returning std::string by sret (classname(), error-message builders): an empty small string; message text is not the
    subject of any claimed property"""
    sret = argv[0]
    o = st.mem.o[sret.obj]
    o.cells[sret.off] = (Ptr(sret.obj, sret.off + 16), 8)
    o.cells[sret.off + 8] = (BV(0), 8)
    o.cells[sret.off + 16] = (BV(0, 8), 1)
    return None


def _strlen_of(eng, fr, ins, st, p):
    """length of a C string literal or of a modelled std::string (strings are modelled by their length only)"""
    cs = [(g, q) for g, q in ptr_cases(p) if q.obj is not None]
    if len(cs) != 1:
        return z3.FreshConst(z3.BitVecSort(64), 'strlen')
    q = cs[0][1]
    o = st.mem.o.get(q.obj)
    if isinstance(o, ArrayObj):
        return s_strlen(eng, fr, ins, st, 'strlen', [q])
    if isinstance(o, RecObj) and isinstance(q.off, int) and (q.off + 8) in o.cells:
        return o.cells[q.off + 8][0]
    return z3.FreshConst(z3.BitVecSort(64), 'strlen')


def _set_string(eng, st, sret, length):
    o = st.mem.o[sret.obj]
    buf = eng.new_array(st.mem, eng.fresh_name('str'), ('i', 8), z3.BitVecVal(1 << 20, 64), tag='heap')
    o.cells[sret.off] = (buf, 8)
    o.cells[sret.off + 8] = (z3.simplify(length), 8)
    o.cells[sret.off + 16] = (z3.simplify(length), 8)


def s_lit_string(eng, fr, ins, st, name, argv):
    """std::string(const char*): only the length is modelled (the characters are not the subject of any claim)"""
    _set_string(eng, st, argv[0], _strlen_of(eng, fr, ins, st, argv[1]))
    return None


def s_concat_string(eng, fr, ins, st, name, argv):
    """operator+ on strings / literals: length = sum of the lengths"""
    _set_string(eng, st, argv[0], _strlen_of(eng, fr, ins, st, argv[1]) + _strlen_of(eng, fr, ins, st, argv[2]))
    return None


def s_some_string(eng, fr, ins, st, name, argv):
    """to_string / quote / classname: a non-empty string of unknown text"""
    n = z3.FreshConst(z3.BitVecSort(64), 'len')
    eng.s.add(n >= 1, n <= 64)
    _set_string(eng, st, argv[0], n)
    return None


def s_string_append(eng, fr, ins, st, name, argv):
    """std::string::_M_append(const char*, n): length grows by n"""
    this, n = argv[0], argv[2]
    o = st.mem.o[this.obj]
    cur = o.cells.get(this.off + 8, (BV(0), 8))[0]
    _set_string(eng, st, this, cur + n)
    return this


def s_string_replace(eng, fr, ins, st, name, argv):
    """std::string::_M_replace(pos, len1, s, len2): length changes by len2 - len1"""
    this, n1, n2 = argv[0], argv[2], argv[4]
    o = st.mem.o[this.obj]
    cur = o.cells.get(this.off + 8, (BV(0), 8))[0]
    _set_string(eng, st, this, cur - n1 + n2)
    return this


def s_string_fill_len(eng, fr, ins, st, name, argv):
    """std::string::_M_construct(n, c) - what the inlined std::to_string starts from: a string of n characters (length only)"""
    _set_string(eng, st, argv[0], argv[1])
    return None


STRING_LENGTH_STUBS = {
    '_ZNSt7__cxx1112basic_stringIcSt11char_traitsIcESaIcEE12_M_constructEmc': s_string_fill_len,
    '_ZNSt7__cxx1112basic_stringIcSt11char_traitsIcESaIcEE9_M_appendEPKcm': s_string_append,
    '_ZNSt7__cxx1112basic_stringIcSt11char_traitsIcESaIcEE10_M_replaceEmmPKcm': s_string_replace,
    '_ZNSt7__cxx1112basic_stringIcSt11char_traitsIcESaIcEEC1EPKcRKS3_': s_lit_string, '_ZNSt7__cxx1112basic_stringIcSt11char_traitsIcESaIcEEC2EPKcRKS3_': s_lit_string,
    '_ZStplIcSt11char_traitsIcESaIcEENSt7__cxx1112basic_stringIT_T0_T1_EE*': s_concat_string, '_ZNSt7__cxx119to_stringEl': s_some_string,
    '*9classnameB5cxx11Ev': s_some_string,
}


def s_handle_error(eng, fr, ins, st, name, argv):
    err = argv[0]
    cell = st.mem.o[err.obj].cells.get(err.off)
    isnull = eng.is_null(cell[0]) if cell is not None else z3.BoolVal(True)
    c = z3.simplify(z3.Not(isnull))
    if z3.is_false(c):
        return None
    # util::handle_error throws std::invalid_argument for every kernel failure (a caller may catch exactly that)
    eng.set_thrown(st, '_ZTISt16invalid_argument')
    if z3.is_true(c):
        return ('raise',)
    return ('split', c)


def s_new(eng, fr, ins, st, name, argv):
    return eng.new_record(st.mem, eng.fresh_name('heap'), None, tag='heap')


def vtable_class(eng, st, vptr):
    """class (mangled vtable global name) a vptr value points into, or None"""
    cs = ptr_cases(vptr)
    if len(cs) != 1 or cs[0][1].obj is None:
        return None
    return eng.global_names.get(cs[0][1].obj) if hasattr(eng, 'global_names') else cs[0][1].obj


def s_dynamic_cast(eng, fr, ins, st, name, argv):
    """__dynamic_cast(src, src_type, dst_type, hint) for the single-inheritance Content hierarchy: the dynamic class is read off the object's
    vptr (which vtable global it points into).  An opaque content (test-double vtable) is of a class no cast in the library matches."""
    src, dst_ti = argv[0], argv[2]
    res = None
    for g, q in ptr_cases(src):
        if q.obj is None:
            r = NULL
        else:
            cell = st.mem.o[q.obj].cells.get(q.off) if isinstance(st.mem.o[q.obj], RecObj) else None
            vobj = None
            if cell is not None:
                vc = ptr_cases(cell[0])
                if len(vc) == 1:
                    vobj = vc[0][1].obj
            dname = dst_ti.obj[1] if isinstance(dst_ti.obj, tuple) else str(dst_ti.obj)
            dcls = dname.split('_ZTI')[-1]
            if isinstance(vobj, str) and vobj.startswith('G@_ZTV'):
                cls = vobj[len('G@_ZTV'):]
                r = q if (cls == dcls or dcls == 'N7awkward7ContentE') else NULL
            else:
                r = NULL            # opaque content
        from .llbmc import ite
        res = r if res is None else ite(g, r, res)
    return res


def s_strlen(eng, fr, ins, st, name, argv):
    p = argv[0]
    cs = [(g, q) for g, q in ptr_cases(p) if q.obj is not None]
    if len(cs) == 1 and isinstance(st.mem.o.get(cs[0][1].obj), ArrayObj):
        o, q = st.mem.o[cs[0][1].obj], cs[0][1]
        off = z3.simplify(q.off)
        cap = z3.simplify(o.cap)
        if z3.is_bv_value(off) and z3.is_bv_value(cap):
            for k in range(off.as_long(), cap.as_long()):
                c = z3.simplify(z3.Select(o.arr, BV(k)))
                if not z3.is_bv_value(c):
                    break
                if c.as_long() == 0:
                    return BV(k - off.as_long())
    return z3.FreshConst(z3.BitVecSort(64), 'strlen')


def s_string_create(eng, fr, ins, st, name, argv):
    """std::string::_M_create(size_type& capacity, size_type old_capacity): a fresh character buffer"""
    capref = argv[1]
    cap = eng.load(st, capref, 'i64', fr.mod, 'std::string::_M_create')
    nm = eng.fresh_name('str')
    return eng.new_array(st.mem, nm, ('i', 8), cap + 1, tag='heap')


def s_false(eng, fr, ins, st, name, argv):
    return z3.BitVecVal(0, 1)


COMMON_STUBS = {
    # error-message construction: strings are empty, exception objects are not built (the raise itself is modelled by __cxa_throw)
    '_ZNSt7__cxx1112basic_stringIcSt11char_traitsIcESaIcEEC1EPKcRKS3_': s_empty_string, '_ZNSt7__cxx1112basic_stringIcSt11char_traitsIcESaIcEEC2EPKcRKS3_': s_empty_string,
    '_ZStplIcSt11char_traitsIcESaIcEENSt7__cxx1112basic_stringIT_T0_T1_EE*': s_empty_string, '_ZNSt7__cxx119to_stringEl': s_empty_string,
    '_ZNSt16invalid_argumentC1ERKNSt7__cxx1112basic_stringIcSt11char_traitsIcESaIcEEE': stub_noop, '_ZNSt13runtime_errorC1ERKNSt7__cxx1112basic_stringIcSt11char_traitsIcESaIcEEE': stub_noop,
    # harness nodes carry no parameters: parameter_equals(key, "<some non-null JSON>") is false (the JSON comparison itself is rapidjson's)
    '_ZNK7awkward7Content16parameter_equalsERKNSt7__cxx1112basic_stringIcSt11char_traitsIcESaIcEEES8_': s_false,
    '_ZN7awkward4util16parameter_equalsE*': s_false,
    '_ZNSt7__cxx1112basic_stringIcSt11char_traitsIcESaIcEE9_M_createERmm': s_string_create,
    'strlen': s_strlen,
    '__dynamic_cast': s_dynamic_cast,
    '*9classnameB5cxx11Ev': s_empty_string,
    '_ZN7awkward4util12handle_error*': s_handle_error,
    '_Znwm': s_new, '_Znam': s_new,
}


# ------------------------------------------------------------------------------------------------ values as nested lists of elements
class Elem:
    """one leaf position of a nested-list value: `none` (z3 Bool) says it is missing, `val` identifies which atom it is"""
    def __init__(self, val, none=None):
        self.val, self.none = val, (z3.BoolVal(False) if none is None else none)

    def __repr__(self):
        return 'Elem(%s,%s)' % (self.val, z3.simplify(self.none))


NONE = Elem(BV(-1), z3.BoolVal(True))


class Opt:
    """a list-typed value that may be missing (an option node over a list-typed content)"""
    def __init__(self, none, value):
        self.none, self.value = none, value


def compare(actual, expected, path='value'):
    """-> list of (description, violation condition) ; shapes are concrete, elements symbolic"""
    out = []
    if isinstance(actual, Opt):
        if isinstance(expected, Elem):
            if z3.is_true(z3.simplify(expected.none)):
                return [('%s is None' % path, z3.Not(actual.none))]
            return [('%s: a list where an element is expected' % path, z3.Not(actual.none))]
        return [('%s is not None' % path, actual.none)] + compare(actual.value, expected, path)
    if isinstance(expected, list) != isinstance(actual, list):
        if isinstance(expected, list) and isinstance(actual, Elem):
            return [('%s: None or an element where a list is expected' % path, z3.BoolVal(True))]
        return [('%s: a list where an element is expected (or the reverse)' % path, z3.BoolVal(True))]
    if isinstance(expected, list):
        if len(actual) != len(expected):
            return [('%s has %d entries, %d expected' % (path, len(actual), len(expected)), z3.BoolVal(True))]
        for i, (a, e) in enumerate(zip(actual, expected)):
            out += compare(a, e, '%s[%d]' % (path, i))
        return out
    out.append(('%s is None exactly when expected' % path, z3.Xor(actual.none, expected.none)))
    out.append(('%s is the expected element' % path, z3.And(z3.Not(expected.none), z3.Not(actual.none), actual.val != expected.val)))
    return out


_SOLVER = [None]
_UNDER = [None]        # "the last call returned normally": what decoding a result may assume (results exist only on those paths)


def concrete(term, what, under=None):
    """the single value a term can take under the harness premises (after the size case split): by simplification, else by asking the
    solver for a value and proving it unique"""
    t = z3.simplify(term)
    if z3.is_bv_value(t):
        return t.as_signed_long()
    s0 = _SOLVER[0]
    if s0 is not None:
        s = z3.Solver()
        s.set('timeout', 20000)
        s.add(s0.assertions())
        if under is None:
            under = _UNDER[0]
        if under is not None:
            s.add(under)
        if s.check() == z3.sat:
            v = s.model().eval(t, model_completion=True)
            s.add(t != v)
            if s.check() == z3.unsat:
                return v.as_signed_long()
    raise Unsupported('%s is not concrete after the size case split: %s' % (what, str(t)[:80]))


# ------------------------------------------------------------------------------------------------ the harness context
class NodeCtx:
    """symbolic memory with one opaque input content (atoms = positions 0..lencontent-1) and helpers to build node objects"""
    def __init__(self, sources, kernels=(), unwind=16, extra_stubs=None):
        from . import c18
        self.K, self.nslots = c18.content_slots()
        self.contents = {}                  # opaque content object name -> dict(length, atoms (z3 array 64->64), derived)
        self.trace = []
        stubs = dict(COMMON_STUBS)
        stubs.update(self._content_stubs())
        stubs.update(extra_stubs or {})
        rels = [SRC[s] if s in SRC else s for s in sources] + [kernel_src(k) for k in kernels]
        self.m = MCtx(rels, unwind=unwind, stubs=stubs, max_instrs=1500000)
        _SOLVER[0] = self.m.s
        _UNDER[0] = None
        call0 = self.m.call

        def call(fname, args):
            out = call0(fname, args)
            raised = getattr(out, 'raised', None)
            _UNDER[0] = z3.Not(raised) if raised is not None else None
            return out
        self.m.call = call

        def lazy(name):
            # extern "C" kernels are loaded on demand from the file that defines them
            if not name.startswith('awkward_'):
                return None
            from . import kspec
            rel = kspec.source_of(name)
            return module_of(rel) if rel else None
        self.m.eng.lazy_loader = lazy
        self.m.record('fakevt', {8 * k: (Ptr(('func', 'vf$slot%d' % k), 0), 8) for k in range(self.nslots)}, const=True)
        self.st0 = State({}, self.m.mem, z3.BoolVal(True))
        self.lencontent = self.m.bv('lencontent')
        self.m.assume(self.lencontent >= 0, self.lencontent <= 2 ** 40)
        ident = z3.Lambda([z3.BitVec('k!', 64)], z3.BitVec('k!', 64))
        self.content0 = self.new_content_in(self.m.mem, 'content0', self.lencontent, ident, const=True)

    # ---- opaque contents
    def new_content_in(self, mem, name, length, atoms, const=False, derived=None):
        cells = {0: (Ptr('fakevt', 0), 8), 8: (NULL, 8), 16: (NULL, 8), 128: (length, 8)}      # a Content header (null identities, empty parameters); private data beyond it
        self.empty_map(cells, 24, name)
        mem.o[name] = RecObj(cells, None, const, 'content')
        self.contents[name] = dict(length=length, atoms=atoms, derived=derived)
        return Ptr(name, 0)

    def fresh_content(self, eng, st, length, atoms, derived=None):
        return self.new_content_in(st.mem, eng.fresh_name('content'), z3.simplify(length), atoms, derived=derived)

    def content_info(self, p, st=None, eng=None):
        cs = [(g, q) for g, q in ptr_cases(p)]
        live = [(g, q) for g, q in cs if q.obj is not None]
        if st is not None:
            for g, q in cs:
                if q.obj is None:
                    eng.add_obl('null-deref', st, g, 'virtual call on a null content pointer', 'observation stub')
        if not live or any(q.obj not in self.contents for g, q in live):
            raise Unsupported('content pointer does not designate opaque contents: %s' % (p,))
        if len(live) == 1:
            return live[0][1].obj, self.contents[live[0][1].obj]
        # a pointer merged over several paths (e.g. "already zero-based: the content itself, else: the trimmed content"): ite over the cases
        length, atoms, derived = None, None, None
        for g, q in live:
            info = self.contents[q.obj]
            length = info['length'] if length is None else z3.If(g, info['length'], length)
            atoms = info['atoms'] if atoms is None else z3.If(g, info['atoms'], atoms)
            derived = info['derived']
        return '(merged)', dict(length=z3.simplify(length), atoms=atoms, derived=derived)

    def _ret(self, st, sret, p):
        rec = st.mem.o[sret.obj]
        rec.cells[sret.off] = (p, 8)
        rec.cells[sret.off + 8] = (NULL, 8)

    def index_terms(self, mem, ip, what='index'):
        """IndexOf<T> object at pointer ip -> (list of element terms (sign/zero-extended to 64 bits), length)"""
        o = mem.o[ip.obj]
        data, off, ln = o.cells[ip.off + 8][0], o.cells[ip.off + 32][0], o.cells[ip.off + 40][0]
        n = concrete(ln, 'length of ' + what)
        dc = [(g, q) for g, q in ptr_cases(data) if q.obj is not None]
        if not dc and n:
            raise Unsupported('%s buffer pointer is null' % what)
        # IndexOf<uint32_t> / IndexOf<uint8_t> hold unsigned elements: the element class is read off the Index object's own vptr
        vp = o.cells.get(ip.off)
        vnames = [str(q.obj) for g, q in ptr_cases(vp[0]) if q.obj is not None] if vp else []
        unsigned = any('IndexOfIjE' in v or 'IndexOfIhE' in v for v in vnames)
        out = []
        for i in range(n):
            v = None
            for g, q in dc:          # a merged pointer (e.g. "reuse offsets_ when it already starts at zero, else a fresh buffer"): ite over its cases
                arr = mem.o[q.obj]
                e = z3.Select(arr.arr, z3.simplify(q.off + off + i))
                if e.size() < 64:
                    e = z3.ZeroExt(64 - e.size(), e) if unsigned else z3.SignExt(64 - e.size(), e)
                v = e if v is None else z3.If(g, e, v)
            out.append(z3.simplify(v))
        return out, n

    def _content_stubs(self):
        K = self.K

        def s_length(eng, fr, ins, st, name, argv):
            return self.content_info(argv[0], st, eng)[1]['length']

        def s_carry(eng, fr, ins, st, name, argv):
            sret, selfp, idx = argv[0], argv[1], argv[2]
            nm, info = self.content_info(selfp, st, eng)
            o = st.mem.o[idx.obj]
            data, off, ln = o.cells[idx.off + 8][0], o.cells[idx.off + 32][0], o.cells[idx.off + 40][0]
            dc = [(g, q) for g, q in ptr_cases(data) if q.obj is not None]
            k = z3.BitVec('k!', 64)
            body = None
            for g, q in dc:
                e = z3.Select(st.mem.o[q.obj].arr, q.off + off + k)
                if e.size() < 64:
                    e = z3.SignExt(64 - e.size(), e)
                body = e if body is None else z3.If(g, e, body)
            if body is None:
                body = BV(0)
            kk = z3.FreshConst(z3.BitVecSort(64), 'carrypos')
            at_kk = z3.substitute(body, (k, kk))
            eng.add_obl('contract', st, z3.And(kk >= 0, kk < ln, z3.Or(at_kk < 0, at_kk >= info['length'])),
                        'a carry index entry lies outside the content it is applied to', eng.where(fr, ins))
            self._ret(st, sret, self.fresh_content(eng, st, ln, z3.Lambda([k], z3.Select(info['atoms'], body))))
            return None

        def s_rnw(eng, fr, ins, st, name, argv):
            sret, selfp, a, b = argv
            nm, info = self.content_info(selfp, st, eng)
            eng.add_obl('contract', st, z3.Not(z3.And(a >= 0, a <= b, b <= info['length'])), 'getitem_range_nowrap of the content outside 0 <= start <= stop <= length', eng.where(fr, ins))
            k = z3.BitVec('k!', 64)
            self._ret(st, sret, self.fresh_content(eng, st, b - a, z3.Lambda([k], z3.Select(info['atoms'], k + a))))
            return None

        def s_nothing(eng, fr, ins, st, name, argv):
            self._ret(st, argv[0], self.fresh_content(eng, st, BV(0), z3.K(z3.BitVecSort(64), BV(-7))))
            return None

        def s_shallow_copy(eng, fr, ins, st, name, argv):
            nm, info = self.content_info(argv[1], st, eng)
            self._ret(st, argv[0], self.fresh_content(eng, st, info['length'], info['atoms'], info['derived']))
            return None
        def s_getitem_next(eng, fr, ins, st, name, argv):
            sret, selfp, head = argv[0], argv[1], argv[2]
            hp = st.mem.o[head.obj].cells.get(head.off)
            if hp is None or not z3.is_true(z3.simplify(eng.is_null(hp[0]))):
                raise Unsupported('getitem_next on the opaque content with a non-empty slice tail')
            nm, info = self.content_info(selfp, st, eng)
            st.trace = st.trace + ((st.pc, 'getitem_next(null head)', (argv[4] if len(argv) > 4 else None,)),)
            self._ret(st, sret, self.fresh_content(eng, st, info['length'], info['atoms'], info['derived']))
            return None
        self._getitem_next_stub = s_getitem_next

        def s_referentially_equal(eng, fr, ins, st, name, argv):
            # two opaque contents are referentially equal iff they are the same object
            other = eng.load(st, argv[1], '%"class.awkward::Content"*', fr.mod, 'stub')
            a = [q.obj for g, q in ptr_cases(argv[0]) if q.obj is not None]
            b = [q.obj for g, q in ptr_cases(other) if q.obj is not None]
            return BV(1 if (len(a) == 1 and a == b) else 0, 1)
        self._refeq = s_referentially_equal
        return {'vf$slot%d' % K['length']: s_length, 'vf$slot%d' % K['rnw']: s_rnw, 'vf$slot%d' % K['nothing']: s_nothing,
                'vf$slot%d' % self.slot('5carryERKNS_7IndexOfIlEEb'): s_carry, 'vf$slot%d' % self.slot('12shallow_copyEv'): s_shallow_copy,
                'vf$slot%d' % self.slot('12getitem_nextERKSt10shared_ptrINS_9SliceItemEERKNS_5SliceERKNS_7IndexOfIlEE'): s_getitem_next,
                'vf$slot%d' % self.slot('19referentially_equalERKSt10shared_ptr'): s_referentially_equal,
                'vf$slot%d' % self.slot('9classnameB5cxx11Ev'): s_empty_string,
                'vf$slot%d' % self.slot('6cachesERSt6vector'): stub_noop,                 # an opaque content holds no virtual-array caches
                'vf$slot%d' % self.slot('7kernelsEv'): (lambda eng, fr, ins, st, name, argv: BV(0, 32))}

    def slot(self, frag):
        from .mharness import module_of
        slots, _ = vtable_slots(module_of(SRC['EA']), 'N7awkward10EmptyArrayE')
        for s, k in slots.items():
            if frag in s:
                return k
        raise Unsupported('Content vtable slot %s not found' % frag)

    def derived_stub(self, frag, label, elementwise=True):
        """a Content virtual method applied to an opaque content at a deeper axis: observation point; result = opaque content whose element
        k is F_label(element k of the receiver) (same length) when elementwise"""
        F = z3.Function('F_' + label, z3.BitVecSort(64), z3.BitVecSort(64))

        def stub(eng, fr, ins, st, name, argv):
            sret, selfp = argv[0], argv[1]
            nm, info = self.content_info(selfp, st, eng)
            st.trace = st.trace + ((st.pc, label, tuple(argv[2:])),)
            k = z3.BitVec('k!', 64)
            self._ret(st, sret, self.fresh_content(eng, st, info['length'], z3.Lambda([k], F(z3.Select(info['atoms'], k))), derived=label))
            return None
        self.m.eng.stubs['vf$slot%d' % self.slot(frag)] = stub
        return F

    # ---- building node objects
    def empty_map(self, cells, base, objname):
        cells[base] = (BV(0, 8), 1)
        cells[base + 8] = (BV(0, 32), 4)
        cells[base + 16] = (NULL, 8)
        cells[base + 24] = (Ptr(objname, base + 8), 8)
        cells[base + 32] = (Ptr(objname, base + 8), 8)
        cells[base + 40] = (BV(0), 8)

    def vptr_of(self, mangled, src):
        vt = self.m.eng.global_ptr(self.st0, '@_ZTV' + mangled, module_of(SRC[src]))
        return Ptr(vt.obj, 16)

    def index_cells(self, cells, io, data_ptr, offset, length, mangled_T='l'):
        cells.update({io: (self.vptr_of('N7awkward7IndexOfI%sEE' % mangled_T, 'IDX'), 8), io + 8: (data_ptr, 8), io + 16: (NULL, 8), io + 24: (BV(0, 32), 4),
                      io + 32: (offset, 8), io + 40: (length, 8), io + 48: (BV(0, 8), 1)})

    def layout_of(self, src, method):
        mod = module_of(SRC[src])
        return mod.types.struct_layout(struct_of(mod, method))

    def content_header(self, name, vptr):
        cells = {0: (vptr, 8), 8: (NULL, 8), 16: (NULL, 8)}
        self.empty_map(cells, 24, name)
        return cells


CLASSES = {
    'N7awkward12RegularArrayE': ('RA', '_ZNK7awkward12RegularArray6lengthEv', 'regular'),
    'N7awkward17ListOffsetArrayOfIlEE': ('LOA', '_ZNK7awkward17ListOffsetArrayOfIlE6lengthEv', 'listoffset'),
    'N7awkward11ListArrayOfIlEE': ('LA', '_ZNK7awkward11ListArrayOfIlE6lengthEv', 'list'),
    'N7awkward11ListArrayOfIiEE': ('LA', '_ZNK7awkward11ListArrayOfIiE6lengthEv', 'list'), 'N7awkward11ListArrayOfIjEE': ('LA', '_ZNK7awkward11ListArrayOfIjE6lengthEv', 'list'),
    'N7awkward17ListOffsetArrayOfIiEE': ('LOA', '_ZNK7awkward17ListOffsetArrayOfIiE6lengthEv', 'listoffset'), 'N7awkward17ListOffsetArrayOfIjEE': ('LOA', '_ZNK7awkward17ListOffsetArrayOfIjE6lengthEv', 'listoffset'),
    'N7awkward14IndexedArrayOfIlLb1EEE': ('IA', '_ZNK7awkward14IndexedArrayOfIlLb1EE6lengthEv', 'option'),
    'N7awkward14IndexedArrayOfIlLb0EEE': ('IA', '_ZNK7awkward14IndexedArrayOfIlLb0EE6lengthEv', 'indexed'),
    'N7awkward13UnmaskedArrayE': ('UMA', '_ZNK7awkward13UnmaskedArray6lengthEv', 'unmasked'),
    'N7awkward15ByteMaskedArrayE': ('BMA', '_ZNK7awkward15ByteMaskedArray6lengthEv', 'bytemasked'),
    'N7awkward14BitMaskedArrayE': ('BIT', '_ZNK7awkward14BitMaskedArray6lengthEv', 'bitmasked'),
    'N7awkward11RecordArrayE': ('REC', '_ZNK7awkward11RecordArray6lengthEv', 'record'),
    'N7awkward12UnionArrayOfIalEE': ('UNI', '_ZNK7awkward12UnionArrayOfIalE6lengthEv', 'union'),
    'N7awkward12UnionArrayOfIaiEE': ('UNI', '_ZNK7awkward12UnionArrayOfIaiE6lengthEv', 'union'), 'N7awkward12UnionArrayOfIajEE': ('UNI', '_ZNK7awkward12UnionArrayOfIajE6lengthEv', 'union'),
}


def _ptr_vector(nc, mem, o, base):
    """std::vector<ContentPtr> at o.cells[base..] -> decoded contents"""
    b, e = o.cells[base][0], o.cells[base + 8][0]
    bc = [(g, p_) for g, p_ in ptr_cases(b) if p_.obj is not None]
    ec = [(g, p_) for g, p_ in ptr_cases(e) if p_.obj is not None]
    conts = []
    if bc:
        if len(bc) != 1 or len(ec) != 1:
            raise Unsupported('contents vector is not a single buffer')
        qb, qe = bc[0][1], ec[0][1]
        buf = mem.o[qb.obj]
        if isinstance(buf, RecObj):
            for i in range((qe.off - qb.off) // 16):
                conts.append(decode(nc, mem, buf.cells[qb.off + 16 * i][0]))
        else:
            nn = concrete(qe.off - qb.off, 'size of the contents vector') // 2
            for i in range(nn):
                conts.append(decode(nc, mem, buf.arr[concrete(qb.off, 'contents offset') + 2 * i]))
    return conts


def decode(nc, mem, p):
    """node object in memory -> description dict (recursively), opaque contents by registry"""
    cs = [(g, q) for g, q in ptr_cases(p) if q.obj is not None]
    if len(cs) != 1:
        raise Unsupported('result pointer is not a single object: %s' % (p,))
    q = cs[0][1]
    if q.obj in nc.contents:
        return dict(cls='opaque', name=q.obj, **nc.contents[q.obj])
    o = mem.o[q.obj]
    vp = o.cells.get(q.off)
    vc = ptr_cases(vp[0]) if vp else []
    vobj = vc[0][1].obj if len(vc) == 1 else None
    if not (isinstance(vobj, str) and vobj.startswith('G@_ZTV')):
        raise Unsupported('result object of unknown class (vptr %s)' % (vp,))
    cls = vobj[len('G@_ZTV'):]
    if cls == 'N7awkward10NumpyArrayE':
        return decode_numpy(nc, mem, q, o)
    if cls not in CLASSES:
        raise Unsupported('decoding of class %s is not implemented' % cls)
    src, meth, kind = CLASSES[cls]
    fo, sz, al, fields = nc.layout_of(src, meth)
    cell = lambda off: o.cells[q.off + off][0]
    if kind == 'regular':
        return dict(cls=kind, content=decode(nc, mem, cell(fo[1])), size=cell(fo[2]), length=cell(fo[3]))
    if kind == 'listoffset':
        return dict(cls=kind, offsets=nc.index_terms(mem, Ptr(q.obj, q.off + fo[1]), 'offsets')[0], content=decode(nc, mem, cell(fo[2])))
    if kind == 'list':
        return dict(cls=kind, starts=nc.index_terms(mem, Ptr(q.obj, q.off + fo[1]), 'starts')[0], stops=nc.index_terms(mem, Ptr(q.obj, q.off + fo[2]), 'stops')[0],
                    content=decode(nc, mem, cell(fo[3])))
    if kind == 'unmasked':
        return dict(cls=kind, content=decode(nc, mem, cell(fo[1])))
    if kind == 'union':
        tags = nc.index_terms(mem, Ptr(q.obj, q.off + fo[1]), 'tags')[0]
        index = nc.index_terms(mem, Ptr(q.obj, q.off + fo[2]), 'union index')[0]
        return dict(cls=kind, tags=tags, index=index, contents=_ptr_vector(nc, mem, o, q.off + fo[3]))
    if kind == 'record':
        b, e = cell(fo[2]), cell(fo[2] + 8)
        bc = [(g, p_) for g, p_ in ptr_cases(b) if p_.obj is not None]
        ec = [(g, p_) for g, p_ in ptr_cases(e) if p_.obj is not None]
        conts = []
        if bc:
            if len(bc) != 1 or len(ec) != 1:
                raise Unsupported('RecordArray contents vector is not a single buffer')
            qb, qe = bc[0][1], ec[0][1]
            buf = mem.o[qb.obj]
            if isinstance(buf, RecObj):
                for i in range((qe.off - qb.off) // 16):
                    conts.append(decode(nc, mem, buf.cells[qb.off + 16 * i][0]))
            else:
                nn = concrete(qe.off - qb.off, 'size of the contents vector') // 2
                for i in range(nn):
                    conts.append(decode(nc, mem, buf.arr[concrete(qb.off, 'contents offset') + 2 * i]))
        return dict(cls=kind, contents=conts, length=cell(fo[4]), recordlookup=cell(fo[3]))
    if kind == 'bytemasked':
        return dict(cls=kind, mask=nc.index_terms(mem, Ptr(q.obj, q.off + fo[1]), 'mask')[0], content=decode(nc, mem, cell(fo[2])), valid_when=cell(fo[3]))
    if kind == 'bitmasked':
        return dict(cls=kind, mask=nc.index_terms(mem, Ptr(q.obj, q.off + fo[1]), 'bit mask')[0], content=decode(nc, mem, cell(fo[2])), valid_when=cell(fo[3]),
                    length=cell(fo[5]), lsb_order=cell(fo[6]))
    if kind in ('option', 'indexed'):
        return dict(cls=kind, index=nc.index_terms(mem, Ptr(q.obj, q.off + fo[1]), 'index')[0], content=decode(nc, mem, cell(fo[2])))
    raise Unsupported(kind)


def _vec_terms(mem, o, base, what):
    """std::vector<int64-like> stored at o.cells[base..]: (begin, end, cap) -> element terms"""
    b, e = o.cells[base][0], o.cells[base + 8][0]
    bc = [(g, q) for g, q in ptr_cases(b) if q.obj is not None]
    ec = [(g, q) for g, q in ptr_cases(e) if q.obj is not None]
    if not bc and not ec:
        return []
    if len(bc) != 1 or len(ec) != 1 or bc[0][1].obj != ec[0][1].obj:
        raise Unsupported('%s vector is not a single buffer' % what)
    qb, qe = bc[0][1], ec[0][1]
    buf = mem.o[qb.obj]
    if isinstance(buf, ArrayObj):
        n = concrete(qe.off - qb.off, 'size of ' + what)
        return [z3.simplify(z3.Select(buf.arr, qb.off + i)) for i in range(n)]
    n = (qe.off - qb.off) // 8
    return [buf.cells[qb.off + 8 * i][0] for i in range(n)]


def decode_numpy(nc, mem, q, o):
    """one-dimensional NumpyArray of 8-byte integers (what num / localindex / Index-backed results are)"""
    mod = module_of(SRC['NA'])
    fo, sz, al, fields = mod.types.struct_layout(struct_of(mod, '_ZNK7awkward10NumpyArray6lengthEv'))
    cell = lambda off: o.cells[q.off + off][0]
    shape = _vec_terms(mem, o, q.off + fo[4], 'shape')
    strides = _vec_terms(mem, o, q.off + fo[5], 'strides')
    dims = [concrete(x, 'NumpyArray shape') for x in shape]
    strs = [concrete(x, 'NumpyArray stride') for x in strides]
    if not dims and not strs:
        # a zero-dimensional NumpyArray (a scalar in array clothing): it has no entries, which is what any comparison with a list reports
        return dict(cls='numpy', values=[], byteoffset=cell(fo[6]), itemsize=concrete(cell(fo[7]), 'itemsize'), scalar=True)
    if len(dims) != len(strs) or not dims:
        raise Unsupported('NumpyArray result with shape %s and strides %s' % (dims, strs))
    itemsize = concrete(cell(fo[7]), 'itemsize')
    byteoffset = cell(fo[6])
    dc = [(g, p) for g, p in ptr_cases(cell(fo[1])) if p.obj is not None]
    total = 1
    for x in dims:
        total *= x
    if total and len(dc) != 1:
        raise Unsupported('NumpyArray buffer pointer is not a single object')

    def elem(byteoff):
        p = dc[0][1]
        buf = mem.o[p.obj]
        es = buf.ebytes
        if es == 1 and itemsize > 1:
            # a void* buffer (kernel::malloc<void>) holding wider items: little-endian assembly of the bytes
            base_ = z3.simplify(p.off + byteoffset + byteoff)
            v = z3.Concat(*[z3.Select(buf.arr, base_ + b) for b in reversed(range(itemsize))])
            return z3.simplify(v if v.size() == 64 else z3.SignExt(64 - v.size(), v))
        if itemsize != es or byteoff % es:
            raise Unsupported('NumpyArray itemsize %d over a buffer of %d-byte cells' % (itemsize, es))
        v = z3.Select(buf.arr, z3.simplify(p.off + z3.UDiv(byteoffset, BV(es)) + byteoff // es))
        return z3.simplify(v if v.size() == 64 else z3.SignExt(64 - v.size(), v))

    def build(d, base):
        if d == len(dims) - 1:
            return [elem(base + i * strs[d]) for i in range(dims[d])]
        return [build(d + 1, base + i * strs[d]) for i in range(dims[d])]
    vals = build(0, 0)
    return dict(cls='numpy', values=vals, byteoffset=byteoffset, itemsize=itemsize)


def decode_cases(nc, mem, p):
    """result pointer merged over several paths -> [(guard, decoded)]; a result slot that was never written (every path raised) is 'no result'"""
    out = []
    if p is None:
        return [(z3.BoolVal(True), None)]
    for g, q in ptr_cases(p):
        if q.obj is None:
            out.append((g, None))
        else:
            out.append((g, decode(nc, mem, q)))
    return out


def length_of(d):
    if d['cls'] == 'numpy':
        return len(d['values'])
    if d['cls'] == 'opaque':
        return concrete(d['length'], 'length of an opaque content')
    if d['cls'] == 'regular':
        return concrete(d['length'], 'RegularArray length')
    if d['cls'] == 'listoffset':
        return len(d['offsets']) - 1
    if d['cls'] == 'list':
        return len(d['starts'])
    if d['cls'] == 'unmasked':
        return length_of(d['content'])
    if d['cls'] == 'bytemasked':
        return len(d['mask'])
    if d['cls'] == 'bitmasked':
        return concrete(d['length'], 'BitMaskedArray length')
    if d['cls'] == 'record':
        return concrete(d['length'], 'RecordArray length')
    if d['cls'] == 'union':
        return len(d['tags'])
    return len(d['index'])


class Malformed(Exception):
    """the decoded result addresses something that is not there (a structure no valid array has)"""


def at(d, k):
    """element k (z3 term or int) of a decoded node as a nested list of Elem"""
    k = BV(k) if isinstance(k, int) else k
    c = d['cls']
    if c == 'numpy':
        def wrap(v):
            return [wrap(x) for x in v] if isinstance(v, list) else Elem(v)
        kk_ = concrete(k, 'position in a NumpyArray')
        if not 0 <= kk_ < len(d['values']):
            raise Malformed('position %d of a NumpyArray of %d entries%s' % (kk_, len(d['values']), ' (zero-dimensional)' if d.get('scalar') else ''))
        return wrap(d['values'][kk_])
    if c == 'opaque':
        return Elem(z3.simplify(z3.Select(d['atoms'], k)))
    if c == 'regular':
        size = concrete(d['size'], 'RegularArray size')
        return [at(d['content'], z3.simplify(k * size + j)) for j in range(size)]
    if c == 'unmasked':
        return at(d['content'], k)
    if c == 'record':
        return [at(x, k) for x in d['contents']]
    kk = concrete(k, 'position in a list/index node')
    if c == 'union':
        tg = z3.simplify(d['tags'][kk])
        if z3.is_bv_value(tg):
            t = tg.as_signed_long()
            if not (0 <= t < len(d['contents'])):
                raise Unsupported('union tag %d outside the %d contents' % (t, len(d['contents'])))
            return at(d['contents'][t], d['index'][kk])
        # data-dependent tag: ite over the contents (leaf-valued contents only); a tag outside the contents is 'no element'
        val, none = BV(-11), z3.BoolVal(False)
        for t, cd in enumerate(d['contents']):
            e = at(cd, d['index'][kk])
            if not isinstance(e, Elem):
                raise Unsupported('union with a data-dependent tag over list-typed contents')
            val = z3.If(tg == t, e.val, val)
            none = z3.If(tg == t, e.none, none)
        return Elem(z3.simplify(val), z3.simplify(none))
    if c == 'bytemasked':
        vw = d['valid_when']
        vw = vw if vw.size() == 8 else z3.ZeroExt(8 - vw.size(), vw)
        return _mask(at(d['content'], BV(kk)), (z3.Extract(7, 0, d['mask'][kk]) != 0) != (vw != 0))
    if c == 'bitmasked':
        vw, lsb = d['valid_when'], d['lsb_order']
        byte = z3.Extract(7, 0, d['mask'][kk // 8])
        bit_l = z3.Extract(kk % 8, kk % 8, byte)
        bit_m = z3.Extract(7 - kk % 8, 7 - kk % 8, byte)
        bit = z3.If(z3.Extract(0, 0, lsb) == 1, bit_l, bit_m) if lsb.size() >= 1 else bit_l
        return _mask(at(d['content'], BV(kk)), (bit == 1) != (z3.Extract(0, 0, vw) == 1))
    if c == 'listoffset':
        a, b = d['offsets'][kk], d['offsets'][kk + 1]
        return [at(d['content'], z3.simplify(a + j)) for j in range(concrete(b - a, 'list length'))]
    if c == 'list':
        a, b = d['starts'][kk], d['stops'][kk]
        return [at(d['content'], z3.simplify(a + j)) for j in range(concrete(b - a, 'list length'))]
    idx = d['index'][kk]
    if c == 'option' and z3.is_true(z3.simplify(idx < 0)):
        return NONE
    inner = at(d['content'], idx)
    if c == 'indexed':
        return inner
    return _mask(inner, idx < 0)


def _mask(v, cond):
    if isinstance(v, list):
        return Opt(z3.simplify(cond), v)
    if isinstance(v, Opt):
        return Opt(z3.simplify(z3.Or(v.none, cond)), v.value)
    return Elem(v.val, z3.simplify(z3.Or(v.none, cond)))


def value(d):
    return [at(d, i) for i in range(length_of(d))]


def symbolic_length(d):
    if d['cls'] in ('opaque', 'regular', 'record'):
        return d['length']
    if d['cls'] == 'unmasked':
        return symbolic_length(d['content'])
    return BV(length_of(d))


OPTIONLIKE = ('indexed', 'option', 'bytemasked', 'bitmasked', 'unmasked')


def validity(d, path='result', strict=False):
    """(strict: also the rule that no indexed / option-type node sits directly on another one - the final result of an operation has been through
    simplify_optiontype; intermediate results inside a recursion need not be.)  the documented structural rules (what validityerror checks) as violation conditions over a decoded result: C11's "operations on valid
    arrays return valid arrays" for every harness that decodes a result.  Lengths of opaque contents are their symbolic length terms."""
    out = []
    c = d['cls']
    if c in ('opaque', 'numpy'):
        return out
    if c == 'record':
        for i, x in enumerate(d['contents']):
            out.append(('%s: field %d is at least as long as the record array' % (path, i), symbolic_length(x) < d['length']))
            out += validity(x, '%s.field(%d)' % (path, i), strict)
        return out
    if c == 'union':
        for i, (t, ix) in enumerate(zip(d['tags'], d['index'])):
            t8 = t if t.size() == 8 else z3.Extract(7, 0, t)
            bad = z3.Or(t8 < 0, t8 >= len(d['contents']), ix < 0)
            for k, x in enumerate(d['contents']):
                bad = z3.Or(bad, z3.And(t8 == k, ix >= symbolic_length(x)))
            out.append(('%s: tag / index %d address an element of a content' % (path, i), bad))
        for k, x in enumerate(d['contents']):
            if x['cls'] == 'union':
                out.append(('%s: no union directly inside a union' % path, z3.BoolVal(True)))
            out += validity(x, '%s.content(%d)' % (path, k), strict)
        return out
    L = symbolic_length(d['content'])
    if c == 'regular':
        out.append(('%s: size * length fits in the content' % path, z3.Or(d['size'] < 0, d['length'] < 0, d['size'] * d['length'] > L)))
    elif c == 'listoffset':
        offs = d['offsets']
        if offs:
            out.append(('%s: offsets start at a non-negative position' % path, offs[0] < 0))
            for i in range(len(offs) - 1):
                out.append(('%s: offsets[%d] <= offsets[%d]' % (path, i, i + 1), offs[i] > offs[i + 1]))
            out.append(('%s: the last offset is inside the content' % path, offs[-1] > L))
    elif c == 'list':
        for i, (a, b) in enumerate(zip(d['starts'], d['stops'])):
            out.append(('%s: list %d has start <= stop inside the content (unless empty)' % (path, i), z3.Or(a > b, z3.And(a != b, z3.Or(a < 0, b > L)))))
    elif c == 'indexed':
        for i, t in enumerate(d['index']):
            out.append(('%s: index[%d] addresses the content' % (path, i), z3.Or(t < 0, t >= L)))
    elif c == 'option':
        for i, t in enumerate(d['index']):
            out.append(('%s: index[%d] is missing or addresses the content' % (path, i), t >= L))
        if d['content']['cls'] in ('option', 'bytemasked', 'bitmasked', 'unmasked'):
            pass          # produced by intermediate steps; simplify_optiontype harnesses state the no-nesting rule where it is promised
    elif c == 'bytemasked':
        out.append(('%s: the content is at least as long as the mask' % path, L < len(d['mask'])))
    elif c == 'bitmasked':
        out.append(('%s: the content is at least as long as the declared length' % path, L < d['length']))
        out.append(('%s: the bit mask covers the declared length' % path, z3.BitVecVal(8 * len(d['mask']), 64) < d['length']))
    if strict and c in OPTIONLIKE and d['content']['cls'] in OPTIONLIKE:
        out.append(('%s: no indexed / option-type node directly on another one (simplify_optiontype)' % path, z3.BoolVal(True)))
    out += validity(d['content'], path + '.content', strict)
    return out


VALIDITY = [True]


def compare_value(res, want, path='value', strict=False):
    """compare(value(res), want) plus the structural validity of the result; when the shape of the result is not determined by the case split (a result whose length is a free symbolic
    term - which is already wrong when `want` has a fixed length), compare the length symbolically and the leading entries by position"""
    extra = []
    if VALIDITY[0]:
        try:
            extra = validity(res, strict=strict)
        except Unsupported:
            extra = []
    try:
        try:
            return compare(value(res), want, path) + extra
        except Unsupported:
            L = symbolic_length(res)
            out = [('%s has %d entries' % (path, len(want)), L != len(want))]
            for i, w in enumerate(want):
                out += compare(at(res, i), w, '%s[%d]' % (path, i))
            return out + extra
    except Malformed as err:
        return [('%s is a well-formed array (reading it needs %s)' % (path, err), z3.BoolVal(True))] + extra
