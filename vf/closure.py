"""C11 closure obligations (operations on valid arrays return valid arrays) - filled in by the property modules."""


def jobs(tier):
    return []
