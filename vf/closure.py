"""C11 closure obligations (operations on valid arrays return valid arrays), at kernel granularity: the functional oracles of the
slicing / padding / flattening / combinations pipelines pin every produced offset, carry and index to a value inside the documented
range, so holding them on documented-valid inputs implies that the produced index buffers again satisfy the documented rules.  A
representative subset of those harnesses is re-run here as part of C11."""


def jobs(tier):
    from . import c01, c05, c09, c07
    pick = lambda js, names, k: [j for j in js if j[0].__name__ in names and True not in j[1][4:]][:k]      # not the 'degenerate' variants (known finding of C05)
    out = []
    out += pick(c01.jobs(tier), ('h_next_range', 'h_next_array', 'h_indexed_nextcarry'), 30)
    out += pick(c05.jobs(tier), ('h_flatten_offsets', 'h_none2empty', 'h_localindex'), 30)
    out += pick(c09.jobs(tier), ('h_listarray_rpad', 'h_listoffset_rpad'), 30)
    out += pick(c07.jobs(tier), ('h_list',), 20)
    return out
