"""kernel-specification.yml loader: kernels, specializations, argument types; kernel source lookup."""
import os, re, glob, functools
import yaml
from .build import REPO

CT = {  # ctype -> (kind, bits, signed)
    'int8_t': ('i', 8, True), 'uint8_t': ('i', 8, False), 'int16_t': ('i', 16, True), 'uint16_t': ('i', 16, False),
    'int32_t': ('i', 32, True), 'uint32_t': ('i', 32, False), 'int64_t': ('i', 64, True), 'uint64_t': ('i', 64, False),
    'bool': ('b', 8, False), 'float': ('f', 32, True), 'double': ('f', 64, True),
}


class Arg:
    __slots__ = ('name', 'ctype', 'depth', 'const', 'dir', 'role', 'kind', 'bits', 'signed')

    def __init__(self, d):
        self.name = d['name']
        t = d['type']
        self.const = 'Const[' in t
        self.depth = t.count('List[')
        self.ctype = re.sub(r'(Const|List)\[|\]', '', t)
        self.dir = d.get('dir')
        self.role = d.get('role')
        self.kind, self.bits, self.signed = CT[self.ctype]

    def __repr__(self):
        return '%s:%s%s' % (self.name, self.ctype, '*' * self.depth)


class Spec:
    def __init__(self, kernel, d):
        self.kernel = kernel
        self.name = d['name']
        self.args = [Arg(a) for a in d['args']]


class Kernel:
    def __init__(self, d):
        self.name = d['name']
        self.definition = d.get('definition') or ''
        self.automatic = bool(d.get('automatic-tests'))
        self.specs = [Spec(self, s) for s in d['specializations']]
        self.tests = d.get('manual-tests') or []


@functools.lru_cache(None)
def load():
    with open(os.path.join(REPO, 'kernel-specification.yml')) as f:
        Y = yaml.safe_load(f)
    return [Kernel(k) for k in Y['kernels']]


@functools.lru_cache(None)
def by_name():
    return {k.name: k for k in load()}


@functools.lru_cache(None)
def spec_by_name():
    return {s.name: s for k in load() for s in k.specs}


@functools.lru_cache(None)
def source_index():
    """extern "C" name -> source file (relative to repo) by scanning the kernel sources' text"""
    idx = {}
    for p in sorted(glob.glob(os.path.join(REPO, 'src', 'cpu-kernels', '*.cpp'))):
        txt = open(p).read()
        for m in re.finditer(r'\b(awkward_\w+)\s*\(', txt):
            idx.setdefault(m.group(1), []).append(os.path.relpath(p, REPO))
    return idx


def source_of(cname):
    """file that defines cname: prefer a file whose text has 'ERROR cname(' definition"""
    cands = source_index().get(cname, [])
    for rel in cands:
        txt = open(os.path.join(REPO, rel)).read()
        if re.search(r'ERROR\s+%s\s*\(' % re.escape(cname), txt) or re.search(r'\b%s\s*\([^;{]*\)\s*\{' % re.escape(cname), txt):
            return rel
    return cands[0] if cands else None
