"""C03, Reducer level: every Reducer*::apply_<dtype> of src/libawkward/Reducer.cpp, run from its IR together with the kernel it dispatches to
(kernel-dispatch.cpp + the cpu kernel, loaded on demand), on symbolic data with a concrete group assignment (parents) that includes an empty
group.  The oracle is stated per group and independently of the code: the members of group g are the elements whose parent is g, in order;
count / count_nonzero / sum / prod / any / all fold them from the reducer's identity in the documented output type, min / max return a member
no other member beats (the identity of the type for an empty group), argmin / argmax the position of the first such member (-1 if empty).
Counterexamples are replayed on the natively built library (same Reducer object, same buffers)."""
import os, subprocess, struct
import z3
from .llbmc import Ptr, NULL, Unsupported
from .oracle import guard
from .mharness import mdischarge
from . import nodeh, fullnative
from .nodeh import NodeCtx, BV

nodeh.SRC.setdefault('RED', 'src/libawkward/Reducer.cpp')

# dtype -> (mangled pointee, bits, kind) ; kind: b bool, s signed, u unsigned, f float
DTYPES = {'bool': ('b', 8, 'b'), 'int8': ('a', 8, 's'), 'uint8': ('h', 8, 'u'), 'int16': ('s', 16, 's'), 'uint16': ('t', 16, 'u'), 'int32': ('i', 32, 's'),
          'uint32': ('j', 32, 'u'), 'int64': ('l', 64, 's'), 'uint64': ('m', 64, 'u'), 'float32': ('f', 32, 'f'), 'float64': ('d', 64, 'f'),
          'datetime': ('l', 64, 's'), 'timedelta': ('l', 64, 's')}
REDUCERS = {'count': 'ReducerCount', 'count_nonzero': 'ReducerCountNonzero', 'sum': 'ReducerSum', 'prod': 'ReducerProd', 'any': 'ReducerAny', 'all': 'ReducerAll',
            'min': 'ReducerMin', 'max': 'ReducerMax', 'argmin': 'ReducerArgmin', 'argmax': 'ReducerArgmax'}


def out_type(red, dtype):
    """documented output type (64-bit Linux): (bits, kind)"""
    bits, kind = DTYPES[dtype][1], DTYPES[dtype][2]
    if red in ('count', 'count_nonzero', 'argmin', 'argmax'):
        return 64, 's'
    if red in ('any', 'all'):
        return 8, 'b'
    if red in ('sum', 'prod'):
        if kind in ('b', 's'):
            return 64, 's'
        if kind == 'u':
            return 64, 'u'
        return bits, 'f'
    return bits, kind        # min / max keep the type


def _fsort(bits):
    return z3.Float32() if bits == 32 else z3.Float64()


def _ext(x, kind, to):
    if x.size() == to:
        return x
    return z3.SignExt(to - x.size(), x) if kind == 's' else z3.ZeroExt(to - x.size(), x)


def _less(a, b, kind):
    if kind == 'f':
        return z3.fpLT(a, b)
    if kind == 's':
        return a < b
    return z3.ULT(a, b)


def _nonzero(x, kind):
    if kind == 'f':
        return z3.Not(z3.fpEQ(x, z3.FPVal(0.0, x.sort())))
    return x != 0


def _same(a, b, kind):
    """equal values (for floats: numerically equal, both NaN counts as equal; the sign of a zero is not distinguished)"""
    if kind == 'f':
        return z3.Or(z3.fpEQ(a, b), z3.And(z3.fpIsNaN(a), z3.fpIsNaN(b)))
    return a == b


def _identity(red, bits, kind):
    if kind == 'f':
        return z3.fpPlusInfinity(_fsort(bits)) if red == 'min' else z3.fpMinusInfinity(_fsort(bits))
    if kind == 'u':
        return z3.BitVecVal((1 << bits) - 1 if red == 'min' else 0, bits)
    if kind == 's':
        return z3.BitVecVal((1 << (bits - 1)) - 1 if red == 'min' else -(1 << (bits - 1)), bits)
    raise Unsupported('identity of ' + kind)


@guard
def h_reducer(red, dtype, parents, outlength):
    """Reducer<red>::apply_<dtype>(data, parents, outlength) on symbolic data"""
    cls = REDUCERS[red]
    code, bits, kind = DTYPES[dtype]
    n = len(parents)
    nc = NodeCtx(['RED', 'KD', 'UTL', 'IDX', 'CNT', 'IDS'], [], unwind=max(12, n + outlength + 8),
                 extra_stubs={'_ZN7awkward4util5quoteE*': nodeh.s_empty_string, '*4nameB5cxx11Ev': nodeh.s_empty_string})
    m = nc.m
    ekind = ('f', bits) if kind == 'f' else ('i', bits)
    data = m.array('data', ekind, max(1, n), const=True)
    a0 = z3.Array('data', z3.BitVecSort(64), _fsort(bits) if kind == 'f' else z3.BitVecSort(bits))
    xs = [z3.Select(a0, BV(i)) for i in range(n)]
    for x in xs:
        if kind == 'b':
            m.assume(z3.ULE(x, 1))                         # a valid bool byte
        if kind == 'f':
            m.assume(z3.Not(z3.fpIsNaN(x)))                # NaN data is outside this claim (ordering of NaN is unspecified)
    parr = z3.K(z3.BitVecSort(64), BV(0))
    for i, p in enumerate(parents):
        parr = z3.Store(parr, BV(i), BV(p))
    pdat = m.array('parents', ('i', 64), max(1, n), const=True, arr=parr)
    cells = {}
    nc.index_cells(cells, 0, pdat, BV(0), BV(n))
    pidx = m.record('parentsindex', cells, const=True)
    # the reducer object: vptr, then (min / max) initial_f64_, initial_u64_, initial_i64_, has_initial_ = false
    rc = {0: (nc.vptr_of('N7awkward%d%sE' % (len(cls), cls), 'RED'), 8)}
    if red in ('min', 'max'):
        rc.update({8: (z3.FPVal(0.0, z3.Float64()), 8), 16: (BV(0), 8), 24: (BV(0), 8), 32: (BV(0, 8), 1)})
    this = m.record('reducer', rc, const=True)
    m.record('ret', {})
    pref = '_ZNK7awkward%d%s%d%sE' % (len(cls), cls, len('apply_' + dtype), 'apply_' + dtype)
    cands = [f for mod_ in m.eng.mods for f in mod_.func_src if f.startswith(pref)]
    if not cands:
        raise Unsupported('%s::apply_%s not found in the IR' % (cls, dtype))
    out = m.call(cands[0], [Ptr('ret', 0), this, data, pidx, BV(outlength)])
    obits, okind = out_type(red, dtype)
    obls = [('apply does not raise', out.raised)]
    rp = m.cell('ret', 0)
    cs = [(g, q) for g, q in nodeh.ptr_cases(rp) if q.obj is not None] if rp is not None else []
    if len(cs) != 1:
        raise Unsupported('result buffer pointer has %d cases' % len(cs))
    ro = out.mem.o[cs[0][1].obj]
    want_elem = ('f', obits) if okind == 'f' else ('i', obits)
    if tuple(ro.kind) != want_elem:
        obls.append(('the result buffer has the documented output type (%s %d bits), not %s' % (okind, obits, (ro.kind,)), z3.BoolVal(True)))
        return mdischarge(m, '%s::apply_%s parents=%s' % (cls, dtype, list(parents)), obls, [], replay=None)
    res = [z3.Select(ro.arr, z3.simplify(cs[0][1].off + g)) for g in range(outlength)]
    for g in range(outlength):
        mem = [i for i, p in enumerate(parents) if p == g]
        r = res[g]
        tag = 'group %d (%d members)' % (g, len(mem))
        if red == 'count':
            obls.append((tag + ': the number of members', r != len(mem)))
        elif red == 'count_nonzero':
            c = BV(0)
            for i in mem:
                c = c + z3.If(_nonzero(xs[i], kind), BV(1), BV(0))
            obls.append((tag + ': the number of non-zero members', r != c))
        elif red in ('any', 'all'):
            t = (z3.Or if red == 'any' else z3.And)([_nonzero(xs[i], kind) for i in mem] + [z3.BoolVal(red == 'all')])
            obls.append((tag + ': %s member is non-zero' % ('some' if red == 'any' else 'every'), r != z3.If(t, z3.BitVecVal(1, 8), z3.BitVecVal(0, 8))))
        elif red in ('sum', 'prod'):
            if okind == 'f':
                acc = z3.FPVal(0.0 if red == 'sum' else 1.0, _fsort(obits))
                for i in mem:
                    acc = (z3.fpAdd if red == 'sum' else z3.fpMul)(z3.RNE(), acc, xs[i])
                obls.append((tag + ': the members %s in order from the identity' % ('added' if red == 'sum' else 'multiplied'), z3.Not(_same(r, acc, 'f'))))
            else:
                acc = z3.BitVecVal(0 if red == 'sum' else 1, 64)
                for i in mem:
                    acc = (acc + _ext(xs[i], 's' if kind == 's' else 'u', 64)) if red == 'sum' else (acc * _ext(xs[i], 's' if kind == 's' else 'u', 64))
                obls.append((tag + ': the %s of the members in the 64-bit output type' % red, r != acc))
        elif red in ('min', 'max'):
            if kind == 'b':
                t = (z3.Or if red == 'max' else z3.And)([xs[i] != 0 for i in mem] + [z3.BoolVal(red == 'min')])
                obls.append((tag + ': %s of booleans' % red, r != z3.If(t, z3.BitVecVal(1, 8), z3.BitVecVal(0, 8))))
            elif not mem:
                obls.append((tag + ': an empty group gives the identity of the type', z3.Not(_same(r, _identity(red, bits, kind), kind))))
            else:
                beats = (lambda a, b: _less(a, b, kind)) if red == 'min' else (lambda a, b: _less(b, a, kind))
                obls.append((tag + ': the result is one of the members', z3.Not(z3.Or([_same(r, xs[i], kind) for i in mem]))))
                obls.append((tag + ': no member beats the result', z3.Or([beats(xs[i], r) for i in mem])))
        else:
            if not mem:
                obls.append((tag + ': an empty group gives -1', r != BV(-1)))
            else:
                vs = [xs[i] if kind != 'b' else xs[i] for i in mem]
                k2 = 'u' if kind == 'b' else kind
                beats = (lambda a, b: _less(a, b, k2)) if red == 'argmin' else (lambda a, b: _less(b, a, k2))
                ok = []
                for i in mem:
                    ok.append(z3.And(r == i, z3.And([z3.Not(beats(xs[j], xs[i])) for j in mem] + [beats(xs[i], xs[j]) for j in mem if j < i] + [z3.BoolVal(True)])))
                obls.append((tag + ': the position of the first member that no member beats', z3.Not(z3.Or(ok))))

    def replay(model, ent):
        raw = []
        for x in xs:
            v = model.eval(z3.fpToIEEEBV(x) if kind == 'f' else x, model_completion=True)
            raw.append(v.as_long())
        got = native_apply(red, dtype, raw, list(parents), outlength)
        exp = py_expected(red, dtype, raw, list(parents), outlength)
        payload = dict(reducer=red, dtype=dtype, data_bits=raw, parents=list(parents), outlength=outlength, native=got, expected=exp)
        if got is None or any(not _py_ok(red, dtype, raw, list(parents), g, got[g], exp[g]) for g in range(outlength)):
            return True, '%s of %s data %s (raw bits) with parents %s: native library gives %s, the group-wise definition %s' % (red, dtype, raw, list(parents), got, exp), payload
        return False, 'native library agrees (%s)' % (got,), payload
    small = [z3.ULE(x, 5) for x in xs] if kind != 'f' else []
    return mdischarge(m, '%s::apply_%s parents=%s outlength=%d' % (cls, dtype, list(parents), outlength), obls, [], replay=replay, prefer=small, timeout_ms=120000,
                      extra=dict(bounds='%d data items (any values; floats: no NaN; bools: 0/1), parents %s (concrete: case split), %d groups' % (n, list(parents), outlength)))


# ------------------------------------------------------------------------------------------------ native side and the Python oracle
_CT = {'bool': 'bool', 'int8': 'int8_t', 'uint8': 'uint8_t', 'int16': 'int16_t', 'uint16': 'uint16_t', 'int32': 'int32_t', 'uint32': 'uint32_t', 'int64': 'int64_t',
       'uint64': 'uint64_t', 'float32': 'float', 'float64': 'double', 'datetime': 'int64_t', 'timedelta': 'int64_t'}

_DRIVER = r"""
#include <cstdio>
#include <cstdlib>
#include <cstring>
#include <string>
#include <vector>
#include <memory>
#include <limits>
#include "awkward/Reducer.h"
#include "awkward/Index.h"
using namespace awkward;
template <typename T> static void run(const Reducer& r, const std::string& dt, int n, char** argv, const Index64& parents, int64_t outlength, int obytes) {
  std::vector<T> data((size_t)(n > 0 ? n : 1));
  for (int i = 0; i < n; i++) { unsigned long long raw = strtoull(argv[i], nullptr, 10); memcpy(&data[(size_t)i], &raw, sizeof(T)); }
  std::shared_ptr<void> out;
  if (dt == "bool") out = r.apply_bool((const bool*)data.data(), parents, outlength);
  else if (dt == "int8") out = r.apply_int8((const int8_t*)data.data(), parents, outlength);
  else if (dt == "uint8") out = r.apply_uint8((const uint8_t*)data.data(), parents, outlength);
  else if (dt == "int16") out = r.apply_int16((const int16_t*)data.data(), parents, outlength);
  else if (dt == "uint16") out = r.apply_uint16((const uint16_t*)data.data(), parents, outlength);
  else if (dt == "int32") out = r.apply_int32((const int32_t*)data.data(), parents, outlength);
  else if (dt == "uint32") out = r.apply_uint32((const uint32_t*)data.data(), parents, outlength);
  else if (dt == "int64") out = r.apply_int64((const int64_t*)data.data(), parents, outlength);
  else if (dt == "uint64") out = r.apply_uint64((const uint64_t*)data.data(), parents, outlength);
  else if (dt == "float32") out = r.apply_float32((const float*)data.data(), parents, outlength);
  else if (dt == "float64") out = r.apply_float64((const double*)data.data(), parents, outlength);
  else if (dt == "datetime") out = r.apply_datetime((const int64_t*)data.data(), parents, outlength);
  else if (dt == "timedelta") out = r.apply_timedelta((const int64_t*)data.data(), parents, outlength);
  for (int64_t g = 0; g < outlength; g++) { unsigned long long raw = 0; memcpy(&raw, (char*)out.get() + g * obytes, (size_t)obytes); printf("%llu ", raw); }
  printf("\n");
}
int main(int argc, char** argv) {
  std::string red = argv[1], dt = argv[2]; int obytes = atoi(argv[3]); int64_t outlength = atoll(argv[4]); int n = atoi(argv[5]);
  Index64 parents(n);
  for (int i = 0; i < n; i++) parents.data()[i] = atoll(argv[6 + i]);
  char** dv = argv + 6 + n;
  std::shared_ptr<Reducer> r;
  if (red == "count") r = std::make_shared<ReducerCount>(); else if (red == "count_nonzero") r = std::make_shared<ReducerCountNonzero>();
  else if (red == "sum") r = std::make_shared<ReducerSum>(); else if (red == "prod") r = std::make_shared<ReducerProd>();
  else if (red == "any") r = std::make_shared<ReducerAny>(); else if (red == "all") r = std::make_shared<ReducerAll>();
  else if (red == "min") r = std::make_shared<ReducerMin>(); else if (red == "max") r = std::make_shared<ReducerMax>();
  else if (red == "argmin") r = std::make_shared<ReducerArgmin>(); else r = std::make_shared<ReducerArgmax>();
  try {
    if (dt == "bool") run<uint8_t>(*r, dt, n, dv, parents, outlength, obytes);
    else if (dt == "int8" || dt == "uint8") run<uint8_t>(*r, dt, n, dv, parents, outlength, obytes);
    else if (dt == "int16" || dt == "uint16") run<uint16_t>(*r, dt, n, dv, parents, outlength, obytes);
    else if (dt == "int32" || dt == "uint32" || dt == "float32") run<uint32_t>(*r, dt, n, dv, parents, outlength, obytes);
    else run<uint64_t>(*r, dt, n, dv, parents, outlength, obytes);
  } catch (std::exception& e) { printf("ERR %s\n", e.what()); }
  fflush(stdout); _Exit(0);
}
"""


def native_apply(red, dtype, raw, parents, outlength):
    """-> list of raw output bit patterns, or None when the native call raises / crashes"""
    exe = fullnative.link_driver(_DRIVER, 'reducer')
    obits = out_type(red, dtype)[0]
    env = dict(os.environ, ASAN_OPTIONS='detect_leaks=0:exitcode=86:allocator_may_return_null=1', UBSAN_OPTIONS='halt_on_error=1:exitcode=87')
    r = subprocess.run([exe, red, dtype, str(obits // 8), str(outlength), str(len(parents))] + [str(p) for p in parents] + [str(v) for v in raw],
                       capture_output=True, text=True, timeout=30, env=env, errors='replace')
    line = (r.stdout.strip().splitlines() or [''])[-1]
    if r.returncode != 0 or line.startswith('ERR') or not line:
        return None
    return [int(t) for t in line.split()]


def _val(dtype, raw):
    bits, kind = DTYPES[dtype][1], DTYPES[dtype][2]
    if kind == 'f':
        return struct.unpack('<f' if bits == 32 else '<d', struct.pack('<I' if bits == 32 else '<Q', raw))[0]
    if kind == 's' and raw >= 1 << (bits - 1):
        return raw - (1 << bits)
    return raw


def py_expected(red, dtype, raw, parents, outlength):
    """group-wise definition, in Python: per group a value (or for min / max / arg* of a non-empty group the set of acceptable answers is
    checked by _py_ok); returned as numbers, not bit patterns"""
    vals = [_val(dtype, r) for r in raw]
    obits, okind = out_type(red, dtype)
    out = []
    for g in range(outlength):
        mem = [i for i, p in enumerate(parents) if p == g]
        xs = [vals[i] for i in mem]
        if red == 'count':
            out.append(len(xs))
        elif red == 'count_nonzero':
            out.append(sum(1 for x in xs if x != 0))
        elif red == 'any':
            out.append(int(any(x != 0 for x in xs)))
        elif red == 'all':
            out.append(int(all(x != 0 for x in xs)))
        elif red in ('sum', 'prod'):
            if okind == 'f':
                import numpy as np
                T = np.float32 if obits == 32 else np.float64
                acc = T(0.0 if red == 'sum' else 1.0)
                with np.errstate(all='ignore'):
                    for x in xs:
                        acc = T(acc + T(x)) if red == 'sum' else T(acc * T(x))
                out.append(float(acc))
            else:
                acc = 0 if red == 'sum' else 1
                for x in xs:
                    acc = (acc + x) if red == 'sum' else (acc * x)
                acc &= (1 << 64) - 1
                out.append(acc - (1 << 64) if okind == 's' and acc >= 1 << 63 else acc)
        elif red in ('min', 'max'):
            kind = DTYPES[dtype][2]
            if kind == 'b':
                out.append(int(any(xs)) if red == 'max' else int(all(xs)))
            elif not xs:
                bits = DTYPES[dtype][1]
                if kind == 'f':
                    out.append(float('inf') if red == 'min' else float('-inf'))
                elif kind == 'u':
                    out.append((1 << bits) - 1 if red == 'min' else 0)
                else:
                    out.append((1 << (bits - 1)) - 1 if red == 'min' else -(1 << (bits - 1)))
            else:
                out.append(min(xs) if red == 'min' else max(xs))
        else:
            if not xs:
                out.append(-1)
            else:
                best = min(xs) if red == 'argmin' else max(xs)
                out.append([i for i in mem if vals[i] == best][0])
    return out


def _py_ok(red, dtype, raw, parents, g, got_raw, exp):
    obits, okind = out_type(red, dtype)
    if okind == 'f':
        got = struct.unpack('<f' if obits == 32 else '<d', struct.pack('<I' if obits == 32 else '<Q', got_raw))[0]
        return got == exp or (got != got and exp != exp)
    got = got_raw - (1 << obits) if okind == 's' and got_raw >= 1 << (obits - 1) else got_raw
    return got == exp


def jobs(tier):
    base = ['bool', 'int8', 'uint8', 'int16', 'uint16', 'int32', 'uint32', 'int64', 'uint64', 'float32', 'float64']
    P = [((0, 0, 2), 3), ((), 2)] if tier == 'quick' else [((0, 0, 2), 3), ((1, 1, 1), 2), ((0, 1, 1, 3), 4), ((), 2), ((2, 0, 2, 0), 3)]
    js = []
    for red in REDUCERS:
        for dt in base + (['datetime', 'timedelta'] if red in ('min', 'max', 'argmin', 'argmax', 'count') else []):
            for parents, outlength in P:
                if red == 'prod' and DTYPES[dt][2] == 'f' and max([parents.count(g) for g in set(parents)] + [0]) > 2:
                    continue           # three floating-point multiplications in one query do not finish in z3 (stated bound: groups of <= 2 for prod of floats)
                js.append((h_reducer, (red, dt, parents, outlength), 900))
    return js


# ------------------------------------------------------------------------------------------------ NumpyArray::reduce_next: the leaf of every reduction
def _group_obligations(red, dtype, xs, parents, outlength, res, pos_adjust=None):
    """violation conditions saying that res[g] is the reducer applied to group g (shared with h_reducer); pos_adjust(i) maps a member position
    to what a position reducer must report for it"""
    code, bits, kind = DTYPES[dtype]
    obits, okind = out_type(red, dtype)
    obls = []
    for g in range(outlength):
        mem = [i for i, p in enumerate(parents) if p == g]
        r = res[g]
        tag = 'group %d (%d members)' % (g, len(mem))
        if red == 'count':
            obls.append((tag + ': the number of members', r != len(mem)))
        elif red == 'count_nonzero':
            c = BV(0)
            for i in mem:
                c = c + z3.If(_nonzero(xs[i], kind), BV(1), BV(0))
            obls.append((tag + ': the number of non-zero members', r != c))
        elif red in ('any', 'all'):
            t = (z3.Or if red == 'any' else z3.And)([_nonzero(xs[i], kind) for i in mem] + [z3.BoolVal(red == 'all')])
            obls.append((tag + ': %s member is non-zero' % ('some' if red == 'any' else 'every'), r != z3.If(t, z3.BitVecVal(1, 8), z3.BitVecVal(0, 8))))
        elif red in ('sum', 'prod'):
            if okind == 'f':
                acc = z3.FPVal(0.0 if red == 'sum' else 1.0, _fsort(obits))
                for i in mem:
                    acc = (z3.fpAdd if red == 'sum' else z3.fpMul)(z3.RNE(), acc, xs[i])
                obls.append((tag + ': the members combined in order from the identity', z3.Not(_same(r, acc, 'f'))))
            else:
                acc = z3.BitVecVal(0 if red == 'sum' else 1, 64)
                for i in mem:
                    e = _ext(xs[i], 's' if kind == 's' else 'u', 64)
                    acc = (acc + e) if red == 'sum' else (acc * e)
                obls.append((tag + ': the %s of the members in the 64-bit output type' % red, r != acc))
        elif red in ('min', 'max'):
            if kind == 'b':
                t = (z3.Or if red == 'max' else z3.And)([xs[i] != 0 for i in mem] + [z3.BoolVal(red == 'min')])
                obls.append((tag + ': %s of booleans' % red, r != z3.If(t, z3.BitVecVal(1, 8), z3.BitVecVal(0, 8))))
            elif not mem:
                obls.append((tag + ': an empty group gives the identity of the type', z3.Not(_same(r, _identity(red, bits, kind), kind))))
            else:
                beats = (lambda a, b: _less(a, b, kind)) if red == 'min' else (lambda a, b: _less(b, a, kind))
                obls.append((tag + ': the result is one of the members', z3.Not(z3.Or([_same(r, xs[i], kind) for i in mem]))))
                obls.append((tag + ': no member beats the result', z3.Or([beats(xs[i], r) for i in mem])))
        else:
            if not mem:
                obls.append((tag + ': an empty group gives -1', r != BV(-1)))
            else:
                k2 = 'u' if kind == 'b' else kind
                beats = (lambda a, b: _less(a, b, k2)) if red == 'argmin' else (lambda a, b: _less(b, a, k2))
                ok = []
                for i in mem:
                    rep = BV(i) if pos_adjust is None else pos_adjust(i)
                    ok.append(z3.And(r == rep, z3.And([z3.Not(beats(xs[j], xs[i])) for j in mem] + [beats(xs[i], xs[j]) for j in mem if j < i] + [z3.BoolVal(True)])))
                obls.append((tag + ': the position (within its list) of the first member that no member beats', z3.Not(z3.Or(ok))))
    return obls


NPCODE = {('b', 8): 1, ('s', 8): 2, ('s', 16): 3, ('s', 32): 4, ('s', 64): 5, ('u', 8): 6, ('u', 16): 7, ('u', 32): 8, ('u', 64): 9, ('f', 32): 11, ('f', 64): 12}


@guard
def h_numpy_reduce(red, dtype, parents, outlength, mask, keepdims, shifted):
    """NumpyArray::reduce_next on a one-dimensional contiguous array: the group-wise reduction of h_reducer, delivered as a NumpyArray of the
    documented output type with one entry per group; position reducers report positions within the list (global position minus the list's start,
    plus the shift of missing values skipped before it); with mask_identity an empty group is None and no other; keepdims wraps the answer in a
    regular dimension of size 1"""
    from . import mnode
    from .mnode import build_numpy1d, NP_DTYPES
    from .cpp01 import struct_of
    from .mharness import module_of
    cls = REDUCERS[red]
    code, bits, kind = DTYPES[dtype]
    n = len(parents)
    nc = NodeCtx(['NA', 'RED', 'RA', 'BMA', 'KD', 'UTL', 'IDX', 'CNT', 'IDS'], [], unwind=max(16, 2 * n + 2 * outlength + 12),
                 extra_stubs={'_ZN7awkward4util5quoteE*': nodeh.s_empty_string, '*4nameB5cxx11Ev': nodeh.s_empty_string, '_ZN7awkward4util15dtype_to_formatB5cxx11ENS0_5dtypeERKNSt7__cxx1112basic_stringIcSt11char_traitsIcESaIcEEE': nodeh.s_empty_string})
    m = nc.m
    this, xs, fo = build_numpy1d(nc, 'node', n, dtype)
    for x in xs:
        if kind == 'f':
            m.assume(z3.Not(z3.fpIsNaN(x)))

    def index64(name, vals=None, n_=None, sym=None):
        if vals is not None:
            arr = z3.K(z3.BitVecSort(64), BV(0))
            for i, v in enumerate(vals):
                arr = z3.Store(arr, BV(i), BV(v))
            d = m.array(name + '_data', ('i', 64), max(1, len(vals)), const=True, arr=arr)
            ln = len(vals)
            terms = [BV(v) for v in vals]
        else:
            d = m.array(name + '_data', ('i', 64), max(1, n_), const=True)
            a0 = z3.Array(name + '_data', z3.BitVecSort(64), z3.BitVecSort(64))
            terms = [z3.Select(a0, BV(i)) for i in range(n_)]
            ln = n_
        cells = {}
        nc.index_cells(cells, 0, d, BV(0), BV(ln))
        return m.record(name, cells, const=True), terms
    pidx, _ = index64('parentsidx', list(parents))
    starts, sv = index64('starts', n_=outlength)
    for v in sv:
        m.assume(v >= -(2 ** 40), v <= 2 ** 40)
    if shifted:
        shifts, shv = index64('shifts', n_=n)
        for v in shv:
            m.assume(v >= 0, v <= 2 ** 40)
    else:
        shifts, shv = index64('shifts', [])
    rc = {0: (nc.vptr_of('N7awkward%d%sE' % (len(cls), cls), 'RED'), 8)}
    if red in ('min', 'max'):
        rc.update({8: (z3.FPVal(0.0, z3.Float64()), 8), 16: (BV(0), 8), 24: (BV(0), 8), 32: (BV(0, 8), 1)})
    reducer = m.record('reducer', rc, const=True)
    m.record('ret', {})
    cands = [f for mod_ in m.eng.mods for f in mod_.func_src if f.startswith('_ZNK7awkward10NumpyArray11reduce_nextE')]
    out = m.call(cands[0], [Ptr('ret', 0), this, reducer, BV(1), starts, shifts, pidx, BV(outlength), z3.BitVecVal(1 if mask else 0, 1), z3.BitVecVal(1 if keepdims else 0, 1)])
    obls = [('reduce_next does not raise', out.raised)]
    obits, okind = out_type(red, dtype)

    def obj(p, what):
        cs = [(g, q) for g, q in nodeh.ptr_cases(p) if q.obj is not None]
        if len(cs) != 1:
            raise Unsupported('%s pointer has %d cases' % (what, len(cs)))
        return out.mem.o[cs[0][1].obj], cs[0][1].off

    def cls_of(o, base):
        vp = o.cells.get(base)
        v = [str(q.obj) for g, q in nodeh.ptr_cases(vp[0]) if q.obj is not None] if vp else []
        return v[0] if v else ''
    top, tb = obj(m.cell('ret', 0), 'result')
    if keepdims:
        if 'RegularArray' not in cls_of(top, tb):
            obls.append(('keepdims wraps the answer in a regular dimension', z3.BoolVal(True)))
            return mdischarge(m, 'NumpyArray<%s>::reduce_next %s' % (dtype, red), obls, [], replay=None)
        rfo = nc.layout_of('RA', '_ZNK7awkward12RegularArray6lengthEv')[0]
        obls.append(('the kept dimension has size 1', top.cells[tb + rfo[2]][0] != 1))
        top, tb = obj(top.cells[tb + rfo[1]][0], 'content of the kept dimension')
    if mask:
        if 'ByteMaskedArray' not in cls_of(top, tb):
            obls.append(('mask_identity delivers an option-type answer', z3.BoolVal(True)))
            return mdischarge(m, 'NumpyArray<%s>::reduce_next %s' % (dtype, red), obls, [], replay=None)
        bfo = nc.layout_of('BMA', '_ZNK7awkward15ByteMaskedArray6lengthEv')[0]
        mterms, mlen = nc.index_terms(out.mem, Ptr(nodeh.ptr_cases(m.cell('ret', 0))[0][1].obj if False else [q for g, q in nodeh.ptr_cases(top.cells[tb][0])][0].obj, 0), 'mask') if False else (None, None)
        # the mask Index8 sits inside the ByteMaskedArray object
        bobj = [q for g, q in nodeh.ptr_cases(m.cell('ret', 0)) if q.obj is not None]
        mp = None
        for name_, o_ in out.mem.o.items():
            if o_ is top:
                mp = Ptr(name_, tb + bfo[1])
        mterms, mlen = nc.index_terms(out.mem, mp, 'mask')
        vw = top.cells[tb + bfo[3]][0]
        obls.append(('one mask entry per group', z3.BoolVal(mlen != outlength)))
        for g in range(min(outlength, mlen)):
            empty = not any(p == g for p in parents)
            valid = (z3.Extract(7, 0, mterms[g]) != 0) == (z3.Extract(0, 0, vw) == 1 if vw.size() >= 1 else z3.BoolVal(False))
            obls.append(('group %d is None exactly when it is empty' % g, valid == z3.BoolVal(empty)))
        top, tb = obj(top.cells[tb + bfo[2]][0], 'content of the option')
    if 'NumpyArray' not in cls_of(top, tb):
        obls.append(('the values are a NumpyArray', z3.BoolVal(True)))
        return mdischarge(m, 'NumpyArray<%s>::reduce_next %s' % (dtype, red), obls, [], replay=None)
    dp = top.cells[tb + fo[1]][0]
    buf, boff = obj(dp, 'result buffer')
    want_elem = ('f', obits) if okind == 'f' else ('i', obits)
    if tuple(buf.kind) != want_elem:
        obls.append(('the result buffer has the documented output type (%s %d bits), not %s' % (okind, obits, tuple(buf.kind)), z3.BoolVal(True)))
        return mdischarge(m, 'NumpyArray<%s>::reduce_next %s' % (dtype, red), obls, [], replay=None)
    obls.append(('the answer is labelled with the documented dtype', top.cells[tb + fo[9]][0] != NPCODE[(okind, obits)]))
    obls.append(('the answer is labelled with the item size of that dtype', top.cells[tb + fo[7]][0] != obits // 8))
    res = [z3.Select(buf.arr, z3.simplify(boff + g)) for g in range(outlength)]
    adj = (lambda i: BV(i) - sv[parents[i]] + (shv[i] if shifted else BV(0))) if red in ('argmin', 'argmax') else None
    obls += _group_obligations(red, dtype, xs, parents, outlength, res, pos_adjust=adj)

    def replay(model, ent):
        ev = lambda t: model.eval(t, model_completion=True)
        raw = [ev(z3.fpToIEEEBV(x) if kind == 'f' else x).as_long() for x in xs]
        svv = [ev(v).as_signed_long() for v in sv]
        shv_ = [ev(v).as_signed_long() for v in shv] if shifted else []
        got = native_reduce_next(red, dtype, raw, list(parents), outlength, svv, shv_, mask, keepdims)
        exp = py_expected(red, dtype, raw, list(parents), outlength)
        if red in ('argmin', 'argmax'):
            exp = [e if e < 0 else e - svv[parents[e]] + (shv_[e] if shifted else 0) for e in exp]
        payload = dict(reducer=red, dtype=dtype, data_bits=raw, parents=list(parents), starts=svv, shifts=shv_, mask=mask, keepdims=keepdims, native=got, expected=exp)
        bad = got is None or got.get('dtype') != NPCODE[(okind, obits)] or got.get('kept') != int(keepdims) or got.get('masked') != int(mask)
        if not bad:
            for g in range(outlength):
                empty = not any(p_ == g for p_ in parents)
                if mask and (got['none'][g] != int(empty)):
                    bad = True
                if not (mask and empty) and not _py_ok(red, dtype, raw, list(parents), g, got['values'][g], exp[g]):
                    bad = True
        if bad:
            return True, '%s of %s data %s (raw bits), parents %s, starts %s, shifts %s, mask_identity=%s, keepdims=%s: native library gives %s, the group-wise definition %s' % (
                red, dtype, raw, list(parents), svv, shv_, mask, keepdims, got, exp), payload
        return False, 'native library agrees (%s)' % (got,), payload
    return mdischarge(m, 'NumpyArray<%s>::reduce_next %s parents=%s mask=%s keepdims=%s%s' % (dtype, red, list(parents), mask, keepdims, ' shifts' if shifted else ''), obls, [], replay=replay, timeout_ms=120000,
                      prefer=([z3.ULE(x, 5) for x in xs] if kind != 'f' else []) + [z3.And(v >= 0, v <= 3) for v in sv] + [v <= 3 for v in shv],
                      extra=dict(bounds='%d items (any values; floats: no NaN), parents %s concrete (case split), starts%s symbolic' % (n, list(parents), ' and shifts' if shifted else '')))


_REDUCE_DRIVER = r"""
#include <cstdio>
#include <cstdlib>
#include <cstring>
#include <string>
#include <vector>
#include <memory>
#include "awkward/Reducer.h"
#include "awkward/Index.h"
#include "awkward/array/NumpyArray.h"
#include "awkward/array/RegularArray.h"
#include "awkward/array/ByteMaskedArray.h"
using namespace awkward;
int main(int argc, char** argv) {
  // argv: red dtypecode itemsize fmt outlength mask keepdims n parents... raw... starts(outlength)... nshifts shifts...
  std::string red = argv[1]; util::dtype dt = (util::dtype)atoi(argv[2]); ssize_t isz = atoi(argv[3]); std::string fmt = argv[4];
  int64_t outlength = atoll(argv[5]); bool mask = atoi(argv[6]) != 0, keep = atoi(argv[7]) != 0; int n = atoi(argv[8]);
  int a = 9;
  Index64 parents(n); for (int i = 0; i < n; i++) parents.data()[i] = atoll(argv[a++]);
  std::shared_ptr<void> ptr(malloc(n == 0 ? 8 : (size_t)(n * isz)), free);
  for (int i = 0; i < n; i++) { unsigned long long raw = strtoull(argv[a++], nullptr, 10); memcpy((char*)ptr.get() + i * isz, &raw, (size_t)isz); }
  Index64 starts(outlength); for (int64_t i = 0; i < outlength; i++) starts.data()[i] = atoll(argv[a++]);
  int ns = atoi(argv[a++]); Index64 shifts(ns); for (int i = 0; i < ns; i++) shifts.data()[i] = atoll(argv[a++]);
  std::vector<ssize_t> shape({(ssize_t)n}), strides({isz});
  NumpyArray arr(Identities::none(), util::Parameters(), ptr, shape, strides, 0, isz, fmt, dt, kernel::lib::cpu);
  std::shared_ptr<Reducer> r;
  if (red == "count") r = std::make_shared<ReducerCount>(); else if (red == "count_nonzero") r = std::make_shared<ReducerCountNonzero>();
  else if (red == "sum") r = std::make_shared<ReducerSum>(); else if (red == "prod") r = std::make_shared<ReducerProd>();
  else if (red == "any") r = std::make_shared<ReducerAny>(); else if (red == "all") r = std::make_shared<ReducerAll>();
  else if (red == "min") r = std::make_shared<ReducerMin>(); else if (red == "max") r = std::make_shared<ReducerMax>();
  else if (red == "argmin") r = std::make_shared<ReducerArgmin>(); else r = std::make_shared<ReducerArgmax>();
  try {
    ContentPtr out = arr.reduce_next(*r, 1, starts, shifts, parents, outlength, mask, keep);
    int kept = 0, masked = 0;
    if (RegularArray* ra = dynamic_cast<RegularArray*>(out.get())) { kept = 1; out = ra->content(); }
    std::vector<int> none((size_t)outlength, 0);
    if (ByteMaskedArray* bm = dynamic_cast<ByteMaskedArray*>(out.get())) { masked = 1; Index8 mk = bm->bytemask(); for (int64_t g = 0; g < outlength && g < mk.length(); g++) none[(size_t)g] = mk.getitem_at_nowrap(g) != 0; out = bm->content(); }
    NumpyArray* na = dynamic_cast<NumpyArray*>(out.get());
    if (na == nullptr) { printf("{\"error\": \"not a NumpyArray\"}\n"); return 0; }
    printf("{\"kept\": %d, \"masked\": %d, \"dtype\": %d, \"none\": [", kept, masked, (int)na->dtype());
    for (int64_t g = 0; g < outlength; g++) printf("%s%d", g ? ", " : "", none[(size_t)g]);
    printf("], \"values\": [");
    for (int64_t g = 0; g < outlength; g++) { unsigned long long raw = 0; memcpy(&raw, (char*)na->data() + g * na->itemsize(), (size_t)na->itemsize()); printf("%s%llu", g ? ", " : "", raw); }
    printf("]}\n");
  } catch (std::exception& e) { printf("{\"error\": \"raised\"}\n"); }
  fflush(stdout); _Exit(0);
}
"""


def native_reduce_next(red, dtype, raw, parents, outlength, starts, shifts, mask, keepdims):
    import json
    from .mnode import NP_DTYPES
    code, kind_, isz, fmt, sgn = NP_DTYPES[dtype]
    exe = fullnative.link_driver(_REDUCE_DRIVER, 'reducenext')
    env = dict(os.environ, ASAN_OPTIONS='detect_leaks=0:exitcode=86:allocator_may_return_null=1', UBSAN_OPTIONS='halt_on_error=1:exitcode=87')
    argv = [red, str(code), str(isz), fmt, str(outlength), str(int(mask)), str(int(keepdims)), str(len(parents))] + [str(p) for p in parents] + [str(v) for v in raw] + \
        [str(v) for v in starts] + [str(len(shifts))] + [str(v) for v in shifts]
    r = subprocess.run([exe] + argv, capture_output=True, text=True, timeout=30, env=env, errors='replace')
    try:
        d = json.loads((r.stdout.strip().splitlines() or [''])[-1])
    except ValueError:
        return None
    return None if 'error' in d or r.returncode != 0 else d


def jobs_numpy_reduce(tier):
    js = []
    P = ((0, 0, 2), 3)
    combos = [('sum', 'int64'), ('sum', 'int8'), ('sum', 'float32'), ('max', 'float32'), ('min', 'uint16'), ('argmax', 'int32'), ('argmin', 'float64'), ('count', 'bool'), ('any', 'int64'), ('all', 'uint8'), ('prod', 'uint32'), ('count_nonzero', 'float64')]
    if tier != 'quick':
        combos = [(r, d) for r in REDUCERS for d in ('bool', 'int8', 'uint16', 'int32', 'int64', 'uint64', 'float32', 'float64')]
    for k, (r, d) in enumerate(combos):
        for mask in ((False, True) if tier != 'quick' else ((k % 2 == 0),)):
            for keep in ((False, True) if tier != 'quick' else ((k % 3 == 0),)):
                js.append((h_numpy_reduce, (r, d, P[0], P[1], mask, keep, False), 900))
        if r in ('argmin', 'argmax'):
            js.append((h_numpy_reduce, (r, d, P[0], P[1], True, False, True), 900))
    return js
