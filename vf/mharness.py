"""M-harness: symbolic execution of leaf libawkward C++ methods from their IR (`this` and operands built as record /
array objects by field offset, environment through a stub table that is part of the claim)."""
import functools, re, subprocess, time, os, json
import z3
from . import build
from .irparse import Module
from .llbmc import Engine, Mem, Ptr, NULL, ArrayObj, RecObj, Unsupported, bv64, ptr_cases, State, GPtr


@functools.lru_cache(None)
def module_of(rel):
    return Module(build.compile_ir(rel))


# ---------------------------------------------------------------------------------------------- stubs
def stub_noop(eng, fr, ins, st, name, argv):
    return None


def stub_ceil(eng, fr, ins, st, name, argv):
    return z3.fpRoundToIntegral(z3.RTP(), argv[0])


def stub_floor(eng, fr, ins, st, name, argv):
    return z3.fpRoundToIntegral(z3.RTN(), argv[0])


def stub_abs(eng, fr, ins, st, name, argv):
    x = argv[0]
    return z3.If(x < 0, -x, x)


def stub_memcpy(eng, fr, ins, st, name, argv):
    eng.memcpy(fr, ins, st, argv[0], argv[1], argv[2])
    return argv[0]


def stub_memset(eng, fr, ins, st, name, argv):
    b = argv[1]
    eng.memset(fr, ins, st, argv[0], z3.Extract(7, 0, b) if b.size() > 8 else b, argv[2])
    return argv[0]


def make_malloc_stub(elem_kind_of):
    """kernel::malloc<T>(lib, bytelength) -> shared_ptr<T> via sret {T* ptr, ctrl* = null}; fresh array, never NULL"""
    def stub(eng, fr, ins, st, name, argv):
        sret, lib, nbytes = argv[0], argv[1], argv[2]
        kind = elem_kind_of(name)
        es = 8 if kind[0] == 'ptr' else kind[1] // 8
        nm = eng.fresh_name('heap')
        cap = z3.simplify(nbytes / z3.BitVecVal(es, 64)) if es > 1 else nbytes
        p = eng.new_array(st.mem, nm, kind, cap, tag='heap')
        eng.add_obl('alloc-size', st, nbytes < 0, 'allocation of a negative number of bytes', eng.where(fr, ins))
        eng.allocs.append((nm, cap, st.pc))
        rec = st.mem.o[sret.obj]
        rec.cells[sret.off] = (p, 8)
        rec.cells[sret.off + 8] = (NULL, 8)
        return None
    return stub


_THROWERS = {'_ZSt24__throw_invalid_argumentPKc': '_ZTISt16invalid_argument', '_ZSt20__throw_out_of_rangePKc': '_ZTISt12out_of_range',
             '_ZSt24__throw_out_of_range_fmtPKcz': '_ZTISt12out_of_range', '_ZSt20__throw_length_errorPKc': '_ZTISt12length_error', '_ZSt17__throw_bad_allocv': '_ZTISt9bad_alloc'}


def stub_throw(eng, fr, ins, st, name, argv):
    sym = _THROWERS.get(name)
    if name == '__cxa_throw' and len(argv) > 1:
        p = argv[1]
        obj = getattr(p, 'obj', None)
        nm = obj[1] if isinstance(obj, tuple) else str(obj)
        mm = re.search(r'(_ZTI[\w$.]+)', nm or '')
        sym = mm.group(1) if mm else None
    if name != '__cxa_rethrow':          # a rethrow keeps the exception in flight
        eng.set_thrown(st, sym)
    return ('raise',)


def stub_first_arg(eng, fr, ins, st, name, argv):
    return argv[0]


def stub_alloc_exception(eng, fr, ins, st, name, argv):
    nm = eng.fresh_name('exc')
    return eng.new_record(st.mem, nm, None, tag='exc')


BASE_STUBS = {
    'ceil': stub_ceil, 'floor': stub_floor, 'abs': stub_abs, 'labs': stub_abs, 'llabs': stub_abs, 'memcpy': stub_memcpy, 'memmove': stub_memcpy, 'memset': stub_memset,
    '_ZdlPv': stub_noop, '_ZdaPv': stub_noop, '_ZdlPvm': stub_noop,
    '__cxa_throw': stub_throw, '__cxa_allocate_exception': stub_alloc_exception, '__cxa_free_exception': stub_noop,
    '_ZSt20__throw_length_errorPKc': stub_throw, '_ZSt17__throw_bad_allocv': stub_throw, '_ZSt24__throw_out_of_range_fmtPKcz': stub_throw,
    '__cxa_get_exception_ptr': stub_first_arg, '_ZNSt11logic_errorC2ERKS_': stub_noop, '_ZNSt11logic_errorD2Ev': stub_noop, '_ZNSt11logic_errorC1ERKS_': stub_noop, '_ZNSt11logic_errorD1Ev': stub_noop,
    '_ZNSt13runtime_errorC2ERKS_': stub_noop, '_ZNSt13runtime_errorD2Ev': stub_noop, '_ZNSt16invalid_argumentD2Ev': stub_noop, '_ZNSt16invalid_argumentC1ERKS_': stub_noop, '_ZNSt16invalid_argumentD1Ev': stub_noop,
    '_ZNSt13runtime_errorC1ERKS_': stub_noop, '_ZNSt13runtime_errorD1Ev': stub_noop, '_ZNSt12out_of_rangeC1ERKS_': stub_noop, '_ZNSt12out_of_rangeD1Ev': stub_noop,
    '__cxa_begin_catch': stub_noop, '__cxa_end_catch': stub_noop, '__cxa_rethrow': stub_throw,
    'printf': stub_noop, 'putchar': stub_noop, 'puts': stub_noop,
    '_ZNSt16_Sp_counted_baseILN9__gnu_cxx12_Lock_policyE2EE24_M_release_last_use_coldEv': stub_noop,
}

MANGLED_ELEM = {'b': ('i', 8), 'a': ('i', 8), 'h': ('i', 8), 's': ('i', 16), 't': ('i', 16), 'i': ('i', 32), 'j': ('i', 32), 'l': ('i', 64),
                'm': ('i', 64), 'f': ('f', 32), 'd': ('f', 64), 'v': ('i', 8)}


def malloc_kind(name):
    m = re.match(r'_ZN7awkward6kernel6mallocI(\w)E', name)
    if m and m.group(1) in MANGLED_ELEM:
        return MANGLED_ELEM[m.group(1)]
    m = re.match(r'_ZN7awkward6kernel6mallocISt7complexI([df])EE', name)
    if m:
        return MANGLED_ELEM[m.group(1)]          # an array of complex numbers as an array of (re, im) pairs of its component type
    raise Unsupported('kernel::malloc of unknown element type: ' + name)


class MCtx:
    def __init__(self, rels, stubs=None, unwind=12, max_instrs=400000, check_timeout_ms=20000):
        self.s = z3.Solver()
        self.s.set('timeout', check_timeout_ms)
        mods = [module_of(r) for r in rels]
        st = dict(BASE_STUBS)
        st['_ZN7awkward6kernel6mallocI*'] = make_malloc_stub(malloc_kind)
        st.update(stubs or {})
        self.eng = Engine(mods, self.s, unwind=unwind, max_instrs=max_instrs, stubs=st)
        self.eng.allocs = []
        self.mem = Mem()
        self.pc = z3.BoolVal(True)
        self.sym = {}

    def assume(self, *cs):
        for c in cs:
            self.s.add(c)

    def bv(self, name, bits=64):
        v = z3.BitVec(name, bits)
        self.sym[name] = v
        return v

    def fp(self, name, bits=64):
        v = z3.FP(name, z3.Float64() if bits == 64 else z3.Float32())
        self.sym[name] = v
        return v

    def record(self, name, cells, const=False):
        """cells: {offset: (value, nbytes)}"""
        self.mem.o[name] = RecObj(dict(cells), None, const, 'arg')
        return Ptr(name, 0)

    def array(self, name, kind, cap, const=False, arr=None):
        return self.eng.new_array(self.mem, name, kind, cap, arr=arr, const=const, tag='arg')

    def call(self, fname, args):
        out = self.eng.call(fname, list(args), self.mem, self.pc)
        if out is None:
            raise Unsupported('no feasible path through ' + fname)
        self.mem = out.mem
        self.last = out
        return out

    def cell(self, obj, off):
        c = self.mem.o[obj].cells.get(off)
        return None if c is None else c[0]

    def solve(self, cond, timeout_ms=30000):
        s = z3.Solver()
        s.set('timeout', timeout_ms)
        s.add(self.s.assertions())
        if isinstance(cond, (list, tuple)):
            s.add(*cond)
        else:
            s.add(cond)
        r = s.check()
        return r, (s.model() if r == z3.sat else None)

    def demangled(self, names):
        out = subprocess.run(['llvm-cxxfilt-14'] + list(names), capture_output=True, text=True).stdout.split('\n')
        return dict(zip(names, out))


def mdischarge(m, unit, obligations, twins=(), timeout_ms=30000, replay=None, extra=None, prefer=()):
    """obligations: [(name, violation cond)], engine obligations are added.  replay(model, entry) -> (confirmed, why, payload)"""
    res = dict(unit=unit, obligations=[], twins={}, status='ok', violations=[], unreproduced=[])
    if extra:
        res.update(extra)
    obls = [('oracle', n, c) for n, c in obligations] + [(o.kind, o.desc + ' @ ' + o.where[:80], o.cond) for o in m.eng.obl]
    seen, nunk, replayed = set(), 0, 0
    for kind, name, cond in obls:
        key = (kind, cond.hash())
        if key in seen:
            continue
        seen.add(key)
        t0 = time.time()
        r, model = m.solve(cond, timeout_ms)
        ent = dict(kind=kind, name=name[:140], result=str(r), t=round(time.time() - t0, 2))
        res['obligations'].append(ent)
        if r == z3.sat and prefer:
            # a replayable (small) counterexample if there is one; the verdict itself does not depend on this
            r2, model2 = m.solve([cond] + list(prefer), timeout_ms)
            if r2 == z3.sat:
                model = model2
        if r == z3.sat:
            if replay is None or replayed >= 3:
                res['unreproduced'].append(dict(obligation=ent, why='no replay available for this harness' if replay is None else 'replay budget'))
                continue
            replayed += 1
            try:
                conf, why, payload = replay(model, ent)
            except Exception as e:      # noqa
                conf, why, payload = False, 'replay failed: %s: %s' % (type(e).__name__, e), None
            (res['violations'] if conf else res['unreproduced']).append(dict(obligation=ent, why=why, inputs=payload))
        elif r != z3.unsat:
            nunk += 1
    for n, c in twins:
        res['twins'][n] = str(m.solve(c, timeout_ms)[0])
    # self-test of the replay driver: on a model of the premises (all obligations just proved unsat) the native run must NOT report a
    # violation - otherwise the driver, not the code, is broken and nothing it "confirms" can be believed
    if replay is not None and not res['violations'] and not res['unreproduced'] and nunk == 0:
        try:
            r0, model0 = m.solve(list(prefer) if prefer else z3.BoolVal(True), timeout_ms)
            if r0 != z3.sat:
                r0, model0 = m.solve(z3.BoolVal(True), timeout_ms)
            if r0 == z3.sat:
                conf, why, payload = replay(model0, dict(name='(replay self-test)', kind='selftest'))
                res['validated'] = dict(ok=not conf, why=why)
        except Exception as e:      # noqa
            res['validated'] = dict(ok=None, why='replay self-test did not run: %s: %s' % (type(e).__name__, e))
    if res['violations']:
        res['status'] = 'violation'
    elif res['unreproduced']:
        res['status'] = 'unreproduced'
    elif nunk:
        res['status'] = 'inconclusive'
    if res['status'] == 'ok' and any(v == 'unsat' for v in res['twins'].values()):
        res['status'] = 'vacuous'
    res['funcs'] = sorted(m.eng.stats['funcs'])
    res['instrs'] = m.eng.stats['instrs']
    return res


def run_cpp(driver_text, repo_sources, timeout=20, link_kernels=False):
    """compile a C++ driver with the given /repo sources under ASan/UBSan and run it -> (status, stdout, log)"""
    srcs = list(repo_sources)
    if link_kernels:
        srcs += [os.path.relpath(p, build.REPO) for p in build.kernel_sources()]
    exe = build.compile_driver(driver_text, srcs, sanitize=True)
    env = dict(os.environ, ASAN_OPTIONS='detect_leaks=0:exitcode=86:allocator_may_return_null=1', UBSAN_OPTIONS='halt_on_error=1:exitcode=87:print_stacktrace=1')
    try:
        r = subprocess.run([exe], capture_output=True, text=True, timeout=timeout, env=env, errors='replace')
    except subprocess.TimeoutExpired:
        return 'timeout', '', 'timeout after %ss' % timeout
    if r.returncode == 0:
        st = 'ok'
    elif r.returncode in (86, 87) or 'Sanitizer' in r.stderr or 'runtime error' in r.stderr:
        st = 'sanitizer'
    else:
        st = 'crash(%d)' % r.returncode
    return st, r.stdout, r.stderr[-2500:]
