"""llbmc - bounded model checker for LLVM-14 IR over z3 (merged-state symbolic execution).

See DESIGN.md section 2.1.  Values: z3 BitVec (iN), z3 FP (float/double), Ptr/GPtr (pointers), python
lists (first-class aggregates).  Memory: array objects (z3 arrays with a capacity term) and record
objects (byte offset -> value).  Control: both sides of an undecided branch are executed up to the
immediate post-dominator and merged with ite.  Obligations (bounds, division, null, unwinding) are
recorded with their path condition and discharged by the caller.
"""
import os
import re, sys, struct, fnmatch
import z3
from .irparse import Module, take_type, split_top

sys.setrecursionlimit(200000)


class Unsupported(Exception):
    pass


class Ptr:
    __slots__ = ('obj', 'off')

    def __init__(self, obj, off):
        self.obj, self.off = obj, off

    def __repr__(self):
        return 'Ptr(%s,%s)' % (self.obj, self.off)


NULL = Ptr(None, 0)


class GPtr:
    """guarded pointer: list of (cond, Ptr); conds are mutually exclusive and exhaustive on live paths"""
    __slots__ = ('cases',)

    def __init__(self, cases):
        self.cases = cases


def bv64(x):
    return z3.BitVecVal(x, 64) if isinstance(x, int) else x


def is_ptr(v):
    return isinstance(v, (Ptr, GPtr))


def ptr_cases(p):
    if isinstance(p, Ptr):
        return [(z3.BoolVal(True), p)]
    return p.cases


def same_off(a, b):
    if isinstance(a, int) and isinstance(b, int):
        return a == b
    if isinstance(a, int) or isinstance(b, int):
        return False
    return z3.eq(a, b)


def ite(c, a, b):
    """value-level ite over BV / FP / Bool / Ptr / GPtr / lists"""
    if a is b:
        return a
    if a is None:
        return b
    if b is None:
        return a
    if isinstance(a, list):
        return [ite(c, x, y) for x, y in zip(a, b)]
    if is_ptr(a) or is_ptr(b):
        if not is_ptr(a):
            a = _int2ptr_const(a)
        if not is_ptr(b):
            b = _int2ptr_const(b)
        if isinstance(a, Ptr) and isinstance(b, Ptr) and a.obj == b.obj:
            if same_off(a.off, b.off):
                return a
            if isinstance(a.off, int) or isinstance(b.off, int):
                if a.obj is None:
                    return a
                return GPtr([(c, a), (z3.Not(c), b)])
            return Ptr(a.obj, z3.If(c, a.off, b.off))
        cases = [(z3.And(c, g), p) for g, p in ptr_cases(a)] + [(z3.And(z3.Not(c), g), p) for g, p in ptr_cases(b)]
        # coalesce identical targets
        out = []
        for g, p in cases:
            for k, (g2, p2) in enumerate(out):
                if p2.obj == p.obj and same_off(p2.off, p.off):
                    out[k] = (z3.Or(g2, g), p2); break
            else:
                out.append((g, p))
        return GPtr(out)
    if z3.eq(a, b):
        return a
    return z3.If(c, a, b)


def _int2ptr_const(v):
    v = z3.simplify(v)
    if z3.is_bv_value(v) and v.as_long() == 0:
        return NULL
    raise Unsupported('integer/pointer mix in merge: %s' % v)


# ------------------------------------------------------------------ memory
class ArrayObj:
    """kind: ('i', bits) | ('f', bits) | ('ptr',).  arr: z3 Array(BV64 -> elem) or python list for ptr arrays"""
    __slots__ = ('kind', 'cap', 'arr', 'const', 'tag')

    def __init__(self, kind, cap, arr, const=False, tag=None):
        self.kind, self.cap, self.arr, self.const, self.tag = kind, cap, arr, const, tag

    def with_arr(self, arr):
        return ArrayObj(self.kind, self.cap, arr, self.const, self.tag)

    @property
    def ebytes(self):
        return 8 if self.kind[0] == 'ptr' else self.kind[1] // 8


class RecObj:
    __slots__ = ('cells', 'size', 'const', 'tag')

    def __init__(self, cells=None, size=None, const=False, tag=None):
        self.cells = cells if cells is not None else {}
        self.size, self.const, self.tag = size, const, tag

    def clone(self):
        return RecObj(dict(self.cells), self.size, self.const, self.tag)


class Mem:
    def __init__(self):
        self.o = {}

    def clone(self):
        m = Mem()
        for k, v in self.o.items():
            m.o[k] = v.clone() if isinstance(v, RecObj) else v
        return m


def elem_sort(kind):
    if kind[0] == 'i':
        return z3.BitVecSort(kind[1])
    if kind[0] == 'f':
        return z3.Float32() if kind[1] == 32 else z3.Float64()
    raise Unsupported('sort of ' + str(kind))


class State:
    __slots__ = ('env', 'mem', 'pc', 'prev', 'counts', 'trace', 'raised', 'ret')

    def __init__(self, env, mem, pc):
        self.env, self.mem, self.pc = env, mem, pc
        self.prev, self.counts, self.trace = None, {}, ()
        self.raised, self.ret = z3.BoolVal(False), None

    def fork(self, pc):
        s = State(dict(self.env), self.mem.clone(), pc)
        s.prev, s.counts, s.trace = self.prev, dict(self.counts), self.trace
        s.raised, s.ret = self.raised, self.ret
        return s


def undef_like(v):
    if isinstance(v, list):
        return [undef_like(x) for x in v]
    if is_ptr(v):
        return v
    return z3.FreshConst(v.sort(), 'undef')


def merge_states(c, A, B, pc):
    """A holds under c, B under not c"""
    if A is None:
        return B
    if B is None:
        return A
    env = {}
    ea, eb = A.env, B.env
    for k, va in ea.items():
        vb = eb.get(k)
        if vb is None:
            env[k] = va
        else:
            try:
                env[k] = va if va is vb else ite(c, va, vb)
            except Unsupported:
                env[k] = va   # dead value of incompatible kinds
    for k, vb in eb.items():
        if k not in env:
            env[k] = vb
    mem = Mem()
    oa, ob = A.mem.o, B.mem.o
    for k, ra in oa.items():
        rb = ob.get(k)
        if rb is None:
            mem.o[k] = ra; continue
        if ra is rb:
            mem.o[k] = ra; continue
        if isinstance(ra, ArrayObj):
            if ra.kind[0] == 'ptr':
                mem.o[k] = ra.with_arr([ite(c, x, y) for x, y in zip(ra.arr, rb.arr)])
            elif ra.arr is rb.arr or z3.eq(ra.arr, rb.arr):
                mem.o[k] = ra
            else:
                mem.o[k] = ra.with_arr(z3.If(c, ra.arr, rb.arr))
        else:
            cells = {}
            for o in set(ra.cells) | set(rb.cells):
                va, vb = ra.cells.get(o), rb.cells.get(o)
                if va is None:
                    va = (undef_like(vb[0]), vb[1])
                if vb is None:
                    vb = (undef_like(va[0]), va[1])
                if va[1] != vb[1]:
                    raise Unsupported('record cell width mismatch at merge (%s+%d)' % (k, o))
                cells[o] = (ite(c, va[0], vb[0]), va[1])
            mem.o[k] = RecObj(cells, ra.size, ra.const, ra.tag)
    for k, rb in ob.items():
        if k not in mem.o:
            mem.o[k] = rb
    S = State(env, mem, pc)
    S.counts = {k: max(A.counts.get(k, 0), B.counts.get(k, 0)) for k in set(A.counts) | set(B.counts)}
    # traces: common prefix + rest of both
    ta, tb = A.trace, B.trace
    n = 0
    while n < len(ta) and n < len(tb) and ta[n] is tb[n]:
        n += 1
    S.trace = ta + tb[n:]
    S.raised = ite(c, A.raised, B.raised)
    if A.ret is not None or B.ret is not None:
        S.ret = ite(c, A.ret, B.ret) if (A.ret is not None and B.ret is not None) else (A.ret if A.ret is not None else B.ret)
    return S


class Obl:
    __slots__ = ('kind', 'cond', 'desc', 'where')

    def __init__(self, kind, cond, desc, where):
        self.kind, self.cond, self.desc, self.where = kind, cond, desc, where


class Frame:
    __slots__ = ('f', 'mod', 'exits', 'id', 'ipdom')

    def __init__(self, f, mod, fid):
        self.f, self.mod, self.exits, self.id = f, mod, [], fid


RNE = z3.RNE()
FP_SORT = {'float': z3.Float32(), 'double': z3.Float64()}


def fp_comm(op, a, b):
    """commutative FP operation with operands in a canonical order, so that a*b and b*a are the same term
    (the solver cannot afford to prove commutativity of a bit-blasted double multiplier)"""
    if a.get_id() > b.get_id():
        a, b = b, a
    return z3.fpAdd(RNE, a, b) if op == 'add' else z3.fpMul(RNE, a, b)


def int_bits(t):
    if t[0] == 'i' and t[1:].isdigit():
        return int(t[1:])
    return None


class Engine:
    def __init__(self, modules, solver=None, unwind=12, max_instrs=400000, check_timeout_ms=20000, stubs=None):
        self.mods = modules
        self.s = solver if solver is not None else z3.Solver()
        self.unwind = unwind
        self.max_instrs = max_instrs
        self.check_timeout_ms = check_timeout_ms
        self.stubs = stubs or {}
        self.obl = []
        self.advisories = []
        self.stats = dict(instrs=0, checks=0, merges=0, calls=0, funcs=set())
        self._ipdom = {}
        self._nobj = 0
        self._nframe = 0
        self._glob_objs = {}
        self.bases = {}
        self.depth = 0

    # ---------------------------------------------------------------- objects
    def fresh_name(self, prefix):
        self._nobj += 1
        return '%s#%d' % (prefix, self._nobj)

    def new_array(self, mem, name, kind, cap, arr=None, const=False, tag=None):
        if kind[0] == 'ptr':
            a = arr if arr is not None else []
        else:
            a = arr if arr is not None else z3.Array(name, z3.BitVecSort(64), elem_sort(kind))
        mem.o[name] = ArrayObj(kind, bv64(cap), a, const, tag)
        return Ptr(name, z3.BitVecVal(0, 64))

    def new_record(self, mem, name, size=None, const=False, tag=None):
        mem.o[name] = RecObj({}, size, const, tag)
        return Ptr(name, 0)

    # ---------------------------------------------------------------- module lookup
    def find_func(self, name):
        for m in self.mods:
            if m.has(name):
                return m, m.func(name)
        # complete-object constructor / destructor emitted as an alias of the base-object one (C1 -> C2, D1 -> D2)
        for a, b in (('C1E', 'C2E'), ('D1E', 'D2E')):
            if a in name:
                alt = name.replace(a, b)
                for m in self.mods:
                    if m.has(alt) and re.search(r'@%s = [^\n]*alias[^\n]*@%s\b' % (re.escape(name), re.escape(alt)), m.text):
                        return m, m.func(alt)
        loader = getattr(self, 'lazy_loader', None)
        if loader is not None and name not in getattr(self, '_lazy_tried', set()):
            self.__dict__.setdefault('_lazy_tried', set()).add(name)
            m = loader(name)
            if m is not None:
                if m not in self.mods:
                    self.mods.append(m)
                if m.has(name):
                    return m, m.func(name)
        return None, None

    def find_global(self, name):
        for m in self.mods:
            g = m.globals.get(name)
            if g is not None and g[1] is not None:
                return m, g
        for m in self.mods:
            g = m.globals.get(name)
            if g is not None:
                return m, g
        return None, None

    # ---------------------------------------------------------------- CFG
    def succs(self, f, b):
        t = f.blocks[b][-1]
        if t.op == 'br':
            return [t.a[1], t.a[2]]
        if t.op == 'jmp':
            return [t.a[0]]
        if t.op == 'switch':
            return list(dict.fromkeys([t.a[2]] + [lb for _, lb in t.a[3]]))
        if t.op == 'invoke':
            return [t.a[3], t.a[4]]
        return ['$exit']

    def get_ipdom(self, f):
        key = id(f)
        if key in self._ipdom:
            return self._ipdom[key]
        order = f.order
        succ = {b: self.succs(f, b) for b in order}
        succ['$exit'] = []
        nodes = order + ['$exit']
        full = set(nodes)
        pdom = {n: full for n in nodes}
        pdom['$exit'] = {'$exit'}
        ch = True
        while ch:
            ch = False
            for n in reversed(order):
                new = set.intersection(*[pdom[x] for x in succ[n]]) | {n}
                if new != pdom[n]:
                    pdom[n] = new; ch = True
        ip = {}
        for n in order:
            cands = pdom[n] - {n}
            for c in cands:
                if len(pdom[c]) == len(cands):
                    ip[n] = c; break
            else:
                ip[n] = '$exit'
        self._ipdom[key] = ip
        return ip

    # ---------------------------------------------------------------- solver
    def feasible(self, cond):
        self.stats['checks'] += 1
        self.s.push()
        self.s.add(cond)
        r = self.s.check()
        self.s.pop()
        return r != z3.unsat

    def add_obl(self, kind, st, cond, desc, where):
        c = z3.simplify(cond)
        if z3.is_false(c):
            return
        self.obl.append(Obl(kind, z3.And(st.pc, c), desc, where))

    # ---------------------------------------------------------------- operands
    def fconst(self, tok, ty):
        if tok.startswith('0x'):
            bits = int(tok[2:], 16)
            d = struct.unpack('<d', struct.pack('<Q', bits))[0]
        else:
            d = float(tok)
        s = FP_SORT[ty]
        if d != d:
            return z3.fpNaN(s)
        return z3.FPVal(d, s)

    def val(self, st, tok, ty, mod=None):
        tok = tok.strip()
        c0 = tok[0]
        if c0 == '%':
            try:
                return st.env[tok]
            except KeyError:
                raise Unsupported('undefined register %s' % tok)
        if c0 == '@':
            return self.global_ptr(st, tok, mod)
        if ty in FP_SORT:
            if tok in ('undef', 'poison', 'zeroinitializer'):
                return z3.FPVal(0.0, FP_SORT[ty])
            return self.fconst(tok, ty)
        if tok == 'null':
            return NULL
        b = int_bits(ty)
        if b is not None:
            if tok == 'true':
                return z3.BitVecVal(1, 1)
            if tok == 'false':
                return z3.BitVecVal(0, 1)
            if tok in ('undef', 'poison', 'zeroinitializer'):
                return z3.BitVecVal(0, b)
            return z3.BitVecVal(int(tok), b)
        if ty.endswith('*'):
            if tok in ('undef', 'poison', 'zeroinitializer'):
                return NULL
            return self.constexpr(st, tok, mod)
        if tok in ('undef', 'poison', 'zeroinitializer'):
            return self.zero_agg(ty, mod)
        raise Unsupported('operand %s %s' % (ty, tok))

    def zero_agg(self, ty, mod):
        t = mod.types.resolve(ty) if mod else ty
        if t.startswith('{'):
            fs = split_top(t[1:-1])
            return [self.zero_agg(f, mod) for f in fs]
        if t.endswith('*'):
            return NULL
        b = int_bits(t)
        if b:
            return z3.BitVecVal(0, b)
        if t in FP_SORT:
            return z3.FPVal(0.0, FP_SORT[t])
        raise Unsupported('zero of ' + ty)

    def constexpr(self, st, tok, mod):
        if tok.startswith('getelementptr'):
            inner = tok[tok.index('(') + 1:tok.rindex(')')]
            parts = split_top(inner)
            ety = parts[0]
            pty, base = take_type(parts[1])
            idx = [take_type(p[8:] if p.startswith('inrange ') else p) for p in parts[2:]]
            p = self.val(st, base, pty, mod)
            return self.gep(st, mod, ety, p, idx)
        if tok.startswith('bitcast') or tok.startswith('addrspacecast'):
            inner = tok[tok.index('(') + 1:tok.rindex(')')]
            k = inner.rfind(' to ')
            ty, v = take_type(inner[:k])
            return self.val(st, v, ty, mod)
        if tok.startswith('inttoptr'):
            inner = tok[tok.index('(') + 1:tok.rindex(')')]
            k = inner.rfind(' to ')
            ty, v = take_type(inner[:k])
            iv = self.val(st, v, ty, mod)
            return _int2ptr_const(iv)
        raise Unsupported('constant expression ' + tok[:60])

    def global_ptr(self, st, name, mod):
        m, f = self.find_func(name[1:])
        if f is not None or any(name[1:] in mm.declared for mm in self.mods):
            return Ptr(('func', name[1:]), 0)
        # module-private globals (string literals @.str.N ...) belong to the module of the code that names them: two translation units
        # have different literals under one name
        own = mod.globals.get(name) if (mod is not None and name.startswith('@.')) else None
        if own is not None and own[1] is not None:
            gm, g = mod, own
            key = 'G%s#%d' % (name, self.mods.index(mod) if mod in self.mods else id(mod))
        else:
            gm, g = self.find_global(name)
            if g is None:
                return Ptr(('extern', name), 0)
            key = 'G' + name
        if key not in st.mem.o:
            self.materialize_global(st, key, gm, g)
        o = st.mem.o[key]
        return Ptr(key, z3.BitVecVal(0, 64) if isinstance(o, ArrayObj) else 0)

    def materialize_global(self, st, key, gm, g):
        ty, init, isconst = g
        t = gm.types.resolve(ty)
        m = re.match(r'^\[(\d+) x (i\d+|float|double)\]$', t)
        if m and init is not None:
            n, et = int(m.group(1)), m.group(2)
            b = int_bits(et)
            kind = ('i', b) if b else ('f', 32 if et == 'float' else 64)
            arr = z3.K(z3.BitVecSort(64), z3.BitVecVal(0, b)) if b else z3.K(z3.BitVecSort(64), z3.FPVal(0.0, FP_SORT[et]))
            if init.startswith('c"'):
                bs = _cstring(init[2:-1])
                for i, ch in enumerate(bs):
                    arr = z3.Store(arr, z3.BitVecVal(i, 64), z3.BitVecVal(ch, 8))
            elif init.startswith('['):
                for i, e in enumerate(split_top(init[1:-1])):
                    ety, ev = take_type(e)
                    arr = z3.Store(arr, z3.BitVecVal(i, 64), self.val(st, ev, ety, gm))
            elif init != 'zeroinitializer':
                raise Unsupported('global initializer ' + init[:40])
            st.mem.o[key] = ArrayObj(kind, z3.BitVecVal(n, 64), arr, isconst, 'global')
            return
        # records (vtables, scalars, structs)
        rec = RecObj({}, None, isconst, 'global')
        st.mem.o[key] = rec
        if init is not None:
            self._init_rec(st, rec, 0, ty, init, gm)

    def _init_rec(self, st, rec, off, ty, init, gm):
        t = gm.types.resolve(ty)
        if init == 'zeroinitializer' or init in ('undef',):
            sz = gm.types.size_align(t)[0]
            self._zero_rec(rec, off, t, gm)
            return
        if t.startswith('{') or t.startswith('<{'):
            offs, size, al, fields = gm.types.struct_layout(ty)
            body = init.strip()
            body = body[2:-2] if body.startswith('<{') else body[1:-1]
            for o, e in zip(offs, split_top(body)):
                ety, ev = take_type(e)
                self._init_rec(st, rec, off + o, ety, ev, gm)
            return
        m = re.match(r'^\[(\d+) x (.*)\]$', t)
        if m:
            n, et = int(m.group(1)), m.group(2)
            es = gm.types.size_align(et)[0]
            if init.startswith('c"'):
                for i, ch in enumerate(_cstring(init[2:-1])):
                    rec.cells[off + i] = (z3.BitVecVal(ch, 8), 1)
                return
            for i, e in enumerate(split_top(init.strip()[1:-1])):
                ety, ev = take_type(e)
                self._init_rec(st, rec, off + i * es, ety, ev, gm)
            return
        sz = gm.types.size_align(t)[0]
        rec.cells[off] = (self.val(st, init, t, gm), sz)

    def _zero_rec(self, rec, off, t, gm):
        t = gm.types.resolve(t)
        if t.startswith('{'):
            offs, size, al, fields = gm.types.struct_layout(t)
            for o, f in zip(offs, fields):
                self._zero_rec(rec, off + o, f, gm)
            return
        m = re.match(r'^\[(\d+) x (.*)\]$', t)
        if m:
            es = gm.types.size_align(m.group(2))[0]
            for i in range(int(m.group(1))):
                self._zero_rec(rec, off + i * es, m.group(2), gm)
            return
        rec.cells[off] = (self.zero_agg(t, gm), gm.types.size_align(t)[0])

    # ---------------------------------------------------------------- pointers
    def is_null(self, v):
        if isinstance(v, Ptr):
            return z3.BoolVal(v.obj is None)
        if isinstance(v, GPtr):
            return z3.simplify(z3.Or([g for g, p in v.cases if p.obj is None] + [z3.BoolVal(False)]))
        return v == 0

    def ptr_eq(self, a, b):
        res = []
        for ga, pa in ptr_cases(a):
            for gb, pb in ptr_cases(b):
                if pa.obj != pb.obj:
                    continue
                if isinstance(pa.off, int) and isinstance(pb.off, int):
                    if pa.off != pb.off:
                        continue
                    res.append(z3.And(ga, gb))
                else:
                    res.append(z3.And(ga, gb, bv64(pa.off) == bv64(pb.off)))
        return z3.Or(res) if res else z3.BoolVal(False)

    def gep(self, st, mod, ety, p, idx):
        if isinstance(p, GPtr):
            return GPtr([(g, self.gep(st, mod, ety, q, idx)) for g, q in p.cases])
        if p.obj is None:
            return p
        if isinstance(p.obj, tuple):
            return p
        o = st.mem.o.get(p.obj)
        if o is None:
            raise Unsupported('gep on unknown object %s' % (p.obj,))
        T = mod.types
        if isinstance(o, ArrayObj):
            rt = T.resolve(ety)
            es = o.ebytes
            i0 = self._idx(st, idx[0], mod)
            sz = T.size_align(rt)[0]
            off = p.off
            if sz == es and len(idx) == 1:
                return Ptr(p.obj, z3.simplify(off + i0))
            m = re.match(r'^\[(\d+) x (.*)\]$', rt)
            if m and len(idx) == 2 and T.size_align(m.group(2))[0] == es:
                n = int(m.group(1))
                return Ptr(p.obj, z3.simplify(off + i0 * n + self._idx(st, idx[1], mod)))
            if len(idx) == 1 and sz % es == 0:
                return Ptr(p.obj, z3.simplify(off + i0 * (sz // es)))
            if len(idx) == 1 and es % sz == 0:
                # byte-ish stepping through a wider array: only multiples are representable
                i0s = z3.simplify(i0)
                if z3.is_bv_value(i0s) and (i0s.as_signed_long() * sz) % es == 0:
                    return Ptr(p.obj, z3.simplify(off + (i0s.as_signed_long() * sz) // es))
                # symbolic byte offset that is provably a multiple of the element size (8 * index, index << 3, itemsize * position ...)
                byte = i0s * z3.BitVecVal(sz, 64)
                if z3.is_bv_value(z3.simplify(z3.URem(byte, z3.BitVecVal(es, 64)))) and z3.simplify(z3.URem(byte, z3.BitVecVal(es, 64))).as_long() == 0:
                    return Ptr(p.obj, z3.simplify(off + z3.simplify(byte / z3.BitVecVal(es, 64))))
                q = z3.simplify(z3.Extract(es.bit_length() - 2, 0, byte)) if es & (es - 1) == 0 and es > 1 else None
                if q is not None and z3.is_bv_value(q) and q.as_long() == 0:
                    return Ptr(p.obj, z3.simplify(off + z3.SignExt(es.bit_length() - 1, z3.Extract(63, es.bit_length() - 1, byte))))
            if len(idx) > 1 and sz % es == 0:
                # array of structs stored as an array of es-byte cells (vector<shared_ptr<T>> as pairs of pointers):
                # element index may be symbolic, the field path inside the struct must be concrete and cell-aligned
                boff, cur = 0, rt
                for ity, itok in idx[1:]:
                    iv = z3.simplify(self._idx(st, (ity, itok), mod))
                    if not z3.is_bv_value(iv):
                        raise Unsupported('symbolic field index in gep into array object %s' % p.obj)
                    k = iv.as_signed_long()
                    cur = T.resolve(cur)
                    if cur.startswith('{') or cur.startswith('<{'):
                        offs, size, al, fields = T.struct_layout(cur)
                        boff += offs[k]; cur = fields[k]
                    else:
                        mm = re.match(r'^\[(\d+) x (.*)\]$', cur)
                        if not mm:
                            raise Unsupported('gep through ' + cur)
                        cur = mm.group(2)
                        boff += k * T.size_align(cur)[0]
                if boff % es == 0:
                    return Ptr(p.obj, z3.simplify(off + i0 * (sz // es) + boff // es))
            raise Unsupported('gep type %s into array of %d-byte elements' % (ety, es))
        # record object: concrete byte offsets
        off = p.off
        cur = T.resolve(ety)
        first = True
        for ity, itok in idx:
            iv = z3.simplify(self._idx(st, (ity, itok), mod))
            if not z3.is_bv_value(iv):
                raise Unsupported('symbolic index into record object %s' % p.obj)
            k = iv.as_signed_long()
            if first:
                off += k * T.size_align(cur)[0]; first = False
                continue
            cur = T.resolve(cur)
            if cur.startswith('{') or cur.startswith('<{'):
                offs, size, al, fields = T.struct_layout(cur)
                off += offs[k]; cur = fields[k]
            else:
                m = re.match(r'^\[(\d+) x (.*)\]$', cur)
                if not m:
                    raise Unsupported('gep through ' + cur)
                cur = m.group(2)
                off += k * T.size_align(cur)[0]
        return Ptr(p.obj, off)

    def _idx(self, st, it, mod):
        ity, itok = it
        v = self.val(st, itok, ity, mod)
        if v.size() < 64:
            v = z3.SignExt(64 - v.size(), v)
        return v

    # ---------------------------------------------------------------- load / store
    def kind_of_type(self, ty, mod):
        b = int_bits(ty)
        if b is not None:
            return ('i', b)
        if ty == 'float':
            return ('f', 32)
        if ty == 'double':
            return ('f', 64)
        if ty.endswith('*'):
            return ('ptr',)
        return None

    def load(self, st, p, ty, mod, where, g0=None):
        if isinstance(p, GPtr):
            res = None
            for g, q in p.cases:
                gg = g if g0 is None else z3.And(g0, g)
                if q.obj is None:
                    self.add_obl('null-deref', st, gg, 'load through null pointer', where)
                    continue
                v = self.load(st, q, ty, mod, where, gg)     # access obligations of this case hold only under its guard
                res = v if res is None else ite(g, v, res)
            if res is None:
                raise Unsupported('load through null only')
            return res
        if p.obj is None:
            self.add_obl('null-deref', st, g0 if g0 is not None else z3.BoolVal(True), 'load through null pointer', where)
            return self.fresh_of(ty, mod)
        if isinstance(p.obj, tuple):
            raise Unsupported('load from %s' % (p.obj,))
        o = st.mem.o[p.obj]
        kind = self.kind_of_type(ty, mod)
        if isinstance(o, ArrayObj):
            self.bounds(st, p, o, 'load', where, g0)
            if o.kind[0] == 'ptr':
                i = z3.simplify(p.off)
                if not z3.is_bv_value(i):
                    res = None
                    for k, v in enumerate(o.arr):
                        res = v if res is None else ite(p.off == k, v, res)
                    return res
                k = i.as_long()
                if k >= len(o.arr):
                    return NULL
                return o.arr[k]
            if kind == o.kind:
                return z3.simplify(z3.Select(o.arr, p.off))
            if kind and kind[0] in 'if' and o.kind[0] in 'if' and kind[1] == o.kind[1]:
                v = z3.Select(o.arr, p.off)
                return z3.fpToIEEEBV(v) if kind[0] == 'i' else z3.fpBVToFP(v, FP_SORT[ty])
            if kind and kind[0] == 'i' and o.kind[0] == 'i' and kind[1] > o.kind[1] and kind[1] % o.kind[1] == 0:
                n = kind[1] // o.kind[1]
                parts = [z3.Select(o.arr, p.off + k) for k in range(n)]
                return z3.simplify(z3.Concat(*reversed(parts)))
            raise Unsupported('load %s from array of %s' % (ty, o.kind))
        # record
        return self.rec_load(st, o, p.off, ty, mod, where, p.obj)

    def fresh_of(self, ty, mod):
        k = self.kind_of_type(ty, mod)
        if k is None:
            raise Unsupported('fresh value of ' + ty)
        if k[0] == 'ptr':
            return NULL
        return z3.FreshConst(elem_sort(k), 'undef')

    def rec_load(self, st, o, off, ty, mod, where, oname):
        kind = self.kind_of_type(ty, mod)
        if kind is None:
            t = mod.types.resolve(ty)
            if t.startswith('{'):
                offs, size, al, fields = mod.types.struct_layout(t)
                return [self.rec_load(st, o, off + oo, f, mod, where, oname) for oo, f in zip(offs, fields)]
            raise Unsupported('load of type ' + ty)
        nbytes = 8 if kind[0] == 'ptr' else max(1, kind[1] // 8)
        c = o.cells.get(off)
        if c is not None and c[1] == nbytes:
            v = c[0]
            return self.coerce(v, kind, ty)
        if c is None and not any(off < k + w and k < off + nbytes for k, (_, w) in o.cells.items()):
            self.advisories.append(('uninitialised read', oname, off, where))
            v = self.fresh_of(ty, mod)
            o.cells[off] = (v, nbytes)
            return v
        # assemble from bytes of overlapping integer cells
        bits = []
        for b in range(nbytes):
            bits.append(self._byte_at(o, off + b, oname))
        v = z3.simplify(z3.Concat(*reversed(bits))) if nbytes > 1 else bits[0]
        return self.coerce(v, kind, ty)

    def _byte_at(self, o, a, oname):
        for k, (v, w) in o.cells.items():
            if k <= a < k + w:
                if is_ptr(v):
                    raise Unsupported('partial read of pointer cell in %s' % oname)
                if z3.is_fp(v):
                    v = z3.fpToIEEEBV(v)
                if v.size() < 8:
                    v = z3.ZeroExt(8 - v.size(), v)
                sh = (a - k) * 8
                return z3.Extract(sh + 7, sh, v)
        return z3.FreshConst(z3.BitVecSort(8), 'undefbyte')

    def coerce(self, v, kind, ty):
        if kind[0] == 'ptr':
            if is_ptr(v):
                return v
            return _int2ptr_const(v)
        if is_ptr(v):
            if kind == ('i', 64):
                return self.ptrtoint(v)
            raise Unsupported('pointer read as ' + ty)
        if kind[0] == 'i':
            if z3.is_fp(v):
                return z3.fpToIEEEBV(v)
            if v.size() == kind[1]:
                return v
            if v.size() == 8 and kind[1] == 1:
                return z3.Extract(0, 0, v)
            raise Unsupported('cell width %d read as %s' % (v.size(), ty))
        if z3.is_fp(v):
            return v
        return z3.fpBVToFP(v, FP_SORT[ty])

    def store(self, st, p, v, ty, mod, where):
        if isinstance(p, GPtr):
            for g, q in p.cases:
                if q.obj is None:
                    self.add_obl('null-deref', st, g, 'store through null pointer', where)
                    continue
                self.store_guarded(st, q, v, ty, mod, where, g)
            return
        if p.obj is None:
            self.add_obl('null-deref', st, z3.BoolVal(True), 'store through null pointer', where)
            return
        self.store_guarded(st, p, v, ty, mod, where, None)

    def store_guarded(self, st, p, v, ty, mod, where, g):
        if isinstance(p.obj, tuple):
            raise Unsupported('store to %s' % (p.obj,))
        o = st.mem.o[p.obj]
        if o.const:
            self.add_obl('const-write', st, g if g is not None else z3.BoolVal(True),
                         'store to read-only object %s' % p.obj, where)
        if isinstance(o, ArrayObj):
            self.bounds(st, p, o, 'store', where, g)
            if o.kind[0] == 'ptr':
                i = z3.simplify(p.off)
                if not z3.is_bv_value(i):
                    raise Unsupported('symbolic store index into pointer array')
                k = i.as_long()
                arr = list(o.arr)
                while len(arr) <= k:
                    arr.append(NULL)
                arr[k] = v if g is None else ite(g, v, arr[k])
                st.mem.o[p.obj] = o.with_arr(arr)
                return
            kind = self.kind_of_type(ty, mod)
            if kind != o.kind:
                if kind and kind[0] in 'if' and o.kind[0] in 'if' and kind[1] == o.kind[1]:
                    v = z3.fpBVToFP(v, elem_sort(o.kind)) if o.kind[0] == 'f' else z3.fpToIEEEBV(v)
                elif kind and kind[0] == 'i' and o.kind[0] == 'i' and kind[1] > o.kind[1] and kind[1] % o.kind[1] == 0:
                    arr = o.arr
                    for k in range(kind[1] // o.kind[1]):
                        piece = z3.Extract((k + 1) * o.kind[1] - 1, k * o.kind[1], v)
                        arr = z3.Store(arr, p.off + k, piece)
                    st.mem.o[p.obj] = o.with_arr(arr if g is None else z3.If(g, arr, o.arr))
                    return
                else:
                    raise Unsupported('store %s into array of %s' % (ty, o.kind))
            na = z3.Store(o.arr, p.off, v)
            st.mem.o[p.obj] = o.with_arr(na if g is None else z3.If(g, na, o.arr))
            return
        kind = self.kind_of_type(ty, mod)
        if kind is None:
            t = mod.types.resolve(ty)
            if t.startswith('{') and isinstance(v, list):
                offs, size, al, fields = mod.types.struct_layout(t)
                for oo, f, x in zip(offs, fields, v):
                    self.store_guarded(st, Ptr(p.obj, p.off + oo), x, f, mod, where, g)
                return
            raise Unsupported('store of type ' + ty)
        nbytes = 8 if kind[0] == 'ptr' else max(1, kind[1] // 8)
        if kind == ('i', 1):
            v = z3.ZeroExt(7, v)
        # remove overlapping cells of other shapes
        for k in [k for k, (_, w) in o.cells.items() if k != p.off and k < p.off + nbytes and p.off < k + w]:
            self._split_cell(o, k)
        old = o.cells.get(p.off)
        if old is not None and old[1] != nbytes:
            self._split_cell(o, p.off)
            old = None
            for k in [k for k, (_, w) in o.cells.items() if p.off <= k < p.off + nbytes]:
                del o.cells[k]
        if g is None:
            o.cells[p.off] = (v, nbytes)
        else:
            ov = old[0] if old is not None else undef_like(v)
            o.cells[p.off] = (ite(g, v, ov), nbytes)

    def _split_cell(self, o, k):
        v, w = o.cells.pop(k)
        if is_ptr(v):
            return   # overwritten pointer: drop
        if z3.is_fp(v):
            v = z3.fpToIEEEBV(v)
        for b in range(w):
            o.cells[k + b] = (z3.simplify(z3.Extract(8 * b + 7, 8 * b, v)) if v.size() >= 8 else z3.ZeroExt(8 - v.size(), v), 1)

    def bounds(self, st, p, o, what, where, g=None):
        off = p.off
        viol = z3.Or(off < 0, off >= o.cap)
        if g is not None:
            viol = z3.And(g, viol)
        self.add_obl('bounds', st, viol, '%s outside capacity of %s' % (what, p.obj), where)

    def ptrtoint(self, p):
        res = None
        for g, q in ptr_cases(p):
            if q.obj is None:
                v = z3.BitVecVal(0, 64)
            else:
                key = q.obj if not isinstance(q.obj, tuple) else '/'.join(q.obj)
                b = self.bases.get(key)
                if b is None:
                    b = z3.BitVec('base!%s' % key, 64)
                    self.bases[key] = b
                off = q.off
                if not isinstance(off, int):
                    es = 1
                    # element index -> bytes: need the object (looked up lazily by caller); assume registered size
                    es = self._esize.get(key, 1) if hasattr(self, '_esize') else 1
                    off = off * es
                v = b + bv64(off)
            res = v if res is None else z3.If(g, v, res)
        return res

    def inttoptr(self, st, v):
        v = z3.simplify(v)
        if z3.is_bv_value(v) and v.as_long() == 0:
            return NULL
        found = [k for k, b in self.bases.items() if _occurs(v, b)]
        if len(found) != 1:
            raise Unsupported('inttoptr of %s' % str(v)[:80])
        key = found[0]
        off = z3.simplify(v - self.bases[key])
        o = st.mem.o.get(key)
        if isinstance(o, ArrayObj):
            es = o.ebytes
            if es != 1:
                off = z3.simplify(z3.UDiv(off, z3.BitVecVal(es, 64))) if not _is_mul_of(off, es) else _div_exact(off, es)
            return Ptr(key, off)
        off = z3.simplify(off)
        if z3.is_bv_value(off):
            return Ptr(key, off.as_signed_long())
        raise Unsupported('symbolic inttoptr into record')

    # ---------------------------------------------------------------- calls
    def call(self, fname, args, mem, pc, trace=()):
        mod, f = self.find_func(fname)
        if f is None:
            raise Unsupported('extern ' + fname)
        self.stats['calls'] += 1
        self.stats['funcs'].add(fname)
        self.depth += 1
        if self.depth > 60:
            raise Unsupported('call depth')
        self._nframe += 1
        fr = Frame(f, mod, self._nframe)
        if len(args) != len(f.params):
            raise Unsupported('arity mismatch calling %s' % fname)
        env = {p[1]: a for p, a in zip(f.params, args)}
        st = State(env, mem, pc)
        st.trace = trace
        end = self.run(fr, f.order[0], 0, st, '$exit')
        if end is not None:
            fr.exits.append(end)
        self.depth -= 1
        if not fr.exits:
            return None
        res = fr.exits[-1]
        for S in reversed(fr.exits[:-1]):
            res = merge_states(S.pc, S, res, z3.Or(S.pc, res.pc))
        res.pc = pc       # every live path from the entry ends in one of the exits (cut paths carry obligations)
        return res

    def do_phis(self, fr, blk, st, mod):
        newv = {}
        prev = st.prev
        for ins in fr.f.blocks[blk]:
            if ins.op != 'phi':
                break
            ty, inc = ins.a
            for v, p in inc:
                if p == prev:
                    newv[ins.dst] = self.val(st, v, ty, mod)
                    break
            else:
                raise Unsupported('phi without incoming for %s in %s' % (prev, blk))
        st.env.update(newv)

    def run(self, fr, blk, idx, st, stop):
        """execute from instruction idx of blk until `stop` is reached; returns State at stop or None.
        Paths leaving the function are appended to fr.exits."""
        f, mod = fr.f, fr.mod
        ip = self.get_ipdom(f)
        while True:
            if blk == stop:
                if blk != '$exit' and st.prev is not None:
                    self.do_phis(fr, blk, st, mod)
                    st.prev = None
                return st
            if blk == '$exit':
                fr.exits.append(st)
                return None
            if idx == 0:
                n = st.counts.get((fr.id, blk), 0) + 1
                st.counts[(fr.id, blk)] = n
                if n > self.unwind:
                    self.obl.append(Obl('unwind', st.pc, 'loop through %s exceeds unwinding bound %d' % (blk, self.unwind),
                                        '%s:%s' % (f.name, blk)))
                    return None
                if st.prev is not None:
                    self.do_phis(fr, blk, st, mod)
            body = f.blocks[blk]
            nb = len(body)
            jumped = False
            while idx < nb:
                ins = body[idx]
                idx += 1
                if ins.op == 'phi':
                    continue
                self.stats['instrs'] += 1
                if self.stats['instrs'] > self.max_instrs:
                    raise Unsupported('instruction budget exceeded')
                r = self.step(fr, ins, st)
                if r is None:
                    continue
                tag = r[0]
                if tag == 'jmp':
                    st.prev = blk; blk = r[1]; idx = 0; jumped = True
                    break
                if tag == 'ret':
                    st.ret = r[1]
                    st.prev = blk; blk = '$exit'; jumped = True
                    break
                if tag == 'raise':
                    st.raised = z3.BoolVal(True)
                    st.prev = blk; blk = '$exit'; jumped = True
                    break
                if tag == 'dead':
                    return None
                if tag == 'split':
                    c = r[1]
                    A = st.fork(z3.And(st.pc, c))
                    A.raised = z3.BoolVal(True)
                    fr.exits.append(A)
                    st.pc = z3.And(st.pc, z3.Not(c))
                    self.s.push(); self.s.add(z3.Not(c))
                    try:
                        out = self.run(fr, blk, idx, st, stop)
                    finally:
                        self.s.pop()
                    return out
                if tag == 'multi':
                    live = []
                    for c, lb in r[1]:
                        cs = z3.simplify(c)
                        if z3.is_false(cs):
                            continue
                        if z3.is_true(cs):
                            live = [(cs, lb)]; break
                        live.append((cs, lb))
                    if len(live) > 1:
                        live = [(c, lb) for c, lb in live if self.feasible(c)]
                    if not live:
                        return None
                    if len(live) == 1:
                        st.prev = blk; blk = live[0][1]; idx = 0; jumped = True
                        break
                    J = ip[blk]
                    pc0 = st.pc
                    nex0 = len(fr.exits)
                    outs = []
                    for k, (c, lb) in enumerate(live):
                        S = st if k == len(live) - 1 else st.fork(None)
                        S.pc = z3.And(pc0, c)
                        S.prev = blk
                        self.s.push(); self.s.add(c)
                        try:
                            out = self.run(fr, lb, 0, S, J)
                        finally:
                            self.s.pop()
                        outs.append((c, out))
                    lost = len(fr.exits) != nex0 or any(o is None for _, o in outs)
                    merged = None
                    for c, out in outs:
                        if out is None:
                            continue
                        merged = out if merged is None else merge_states(c, out, merged, None)
                    self.stats['merges'] += 1
                    if merged is None:
                        return None
                    if lost:
                        pcs = [o.pc for _, o in outs if o is not None]
                        merged.pc = pcs[0] if len(pcs) == 1 else z3.Or(pcs)
                    else:
                        merged.pc = pc0
                    st = merged
                    st.prev = None      # phis of J were evaluated by each sub-run on arrival
                    if J == stop:
                        return st
                    blk = J; idx = 0; jumped = True
                    break
                raise RuntimeError('bad step result %r' % (r,))
            if not jumped:
                raise Unsupported('fell off block %s in %s' % (blk, f.name))

    # ---------------------------------------------------------------- instruction semantics
    def step(self, fr, ins, st):
        op, a, mod = ins.op, ins.a, fr.mod
        env = st.env
        if op in ('add', 'sub', 'mul', 'and', 'or', 'xor', 'shl', 'lshr', 'ashr', 'sdiv', 'udiv', 'srem', 'urem'):
            ty, x, y, flags = a
            x, y = self.val(st, x, ty, mod), self.val(st, y, ty, mod)
            if is_ptr(x) or is_ptr(y):
                raise Unsupported('arithmetic on pointer: ' + ins.text)
            if op == 'add': r = x + y
            elif op == 'sub': r = x - y
            elif op == 'mul': r = x * y
            elif op == 'and': r = x & y
            elif op == 'or': r = x | y
            elif op == 'xor': r = x ^ y
            elif op in ('shl', 'lshr', 'ashr'):
                w = x.size()
                self.add_obl('shift', st, z3.UGE(y, w), 'shift amount >= width', self.where(fr, ins))
                r = x << y if op == 'shl' else z3.LShR(x, y) if op == 'lshr' else x >> y
            else:
                self.add_obl('div0', st, y == 0, 'division by zero', self.where(fr, ins))
                if op in ('sdiv', 'srem'):
                    w = x.size()
                    self.add_obl('divovf', st, z3.And(x == z3.BitVecVal(1 << (w - 1), w), y == z3.BitVecVal(-1, w)),
                                 'INT_MIN / -1', self.where(fr, ins))
                r = x / y if op == 'sdiv' else z3.UDiv(x, y) if op == 'udiv' else z3.SRem(x, y) if op == 'srem' else z3.URem(x, y)
            env[ins.dst] = z3.simplify(r)
            return
        if op == 'icmp':
            pred, ty, x, y = a
            x, y = self.val(st, x, ty, mod), self.val(st, y, ty, mod)
            if is_ptr(x) or is_ptr(y):
                if not is_ptr(x): x = _int2ptr_const(x)
                if not is_ptr(y): y = _int2ptr_const(y)
                e = self.ptr_eq(x, y)
                if pred == 'eq': c = e
                elif pred == 'ne': c = z3.Not(e)
                else:
                    ax, ay = self.ptrtoint_sized(st, x), self.ptrtoint_sized(st, y)
                    c = _ICMP[pred](ax, ay)
            else:
                c = _ICMP[pred](x, y)
            env[ins.dst] = z3.simplify(z3.If(c, z3.BitVecVal(1, 1), z3.BitVecVal(0, 1)))
            return
        if op == 'select':
            cty, c, ty, x, y = a
            c = self.val(st, c, cty, mod)
            x, y = self.val(st, x, ty, mod), self.val(st, y, ty, mod)
            cc = z3.simplify(c == 1)
            if z3.is_true(cc): env[ins.dst] = x
            elif z3.is_false(cc): env[ins.dst] = y
            else: env[ins.dst] = ite(cc, x, y)
            return
        if op in ('sext', 'zext', 'trunc'):
            t1, x, t2 = a
            x = self.val(st, x, t1, mod)
            n1, n2 = int_bits(t1), int_bits(t2)
            env[ins.dst] = z3.simplify(z3.SignExt(n2 - n1, x) if op == 'sext' else z3.ZeroExt(n2 - n1, x) if op == 'zext'
                                       else z3.Extract(n2 - 1, 0, x))
            return
        if op == 'getelementptr':
            ety, pty, base, idx = a
            p = self.val(st, base, pty, mod)
            env[ins.dst] = self.gep(st, mod, ety, p, idx)
            return
        if op == 'load':
            ty, pty, p = a
            env[ins.dst] = self.load(st, self.val(st, p, pty, mod), ty, mod, self.where(fr, ins))
            return
        if op == 'store':
            ty, v, pty, p = a
            self.store(st, self.val(st, p, pty, mod), self.val(st, v, ty, mod), ty, mod, self.where(fr, ins))
            return
        if op == 'br':
            c = self.val(st, a[0], 'i1', mod)
            cc = c == 1
            return ('multi', [(cc, a[1]), (z3.Not(cc), a[2])])
        if op == 'jmp':
            return ('jmp', a[0])
        if op == 'switch':
            ty, v, dflt, cases = a
            v = self.val(st, v, ty, mod)
            b = v.size()
            tg, conds = {}, []
            for cval, lb in cases:
                c = v == z3.BitVecVal(cval, b)
                conds.append(c)
                tg[lb] = z3.Or(tg[lb], c) if lb in tg else c
            d = z3.Not(z3.Or(conds)) if conds else z3.BoolVal(True)
            tg[dflt] = z3.Or(tg[dflt], d) if dflt in tg else d
            return ('multi', [(c, lb) for lb, c in tg.items()])
        if op == 'ret':
            return ('ret', None if a is None else self.val(st, a[1], a[0], mod))
        if op == 'bitcast':
            t1, x, t2 = a
            x = self.val(st, x, t1, mod)
            if t1.endswith('*') or is_ptr(x):
                env[ins.dst] = x
            elif t1 in FP_SORT and int_bits(t2):
                env[ins.dst] = z3.fpToIEEEBV(x)
            elif int_bits(t1) and t2 in FP_SORT:
                env[ins.dst] = z3.fpBVToFP(x, FP_SORT[t2])
            else:
                raise Unsupported(ins.text)
            return
        if op in ('call', 'invoke'):
            return self.do_call(fr, ins, st)
        if op == 'alloca':
            ty, cnt = a
            name = self.fresh_name('alloca.%s' % ins.dst[1:])
            t = mod.types.resolve(ty)
            m = re.match(r'^\[(\d+) x (i\d+|float|double|.*\*)\]$', t)
            if cnt is not None:
                n = self.val(st, cnt[1], cnt[0], mod)
                if n.size() < 64: n = z3.ZeroExt(64 - n.size(), n)
                k = self.kind_of_type(t, mod)
                if k is None: raise Unsupported('alloca ' + ins.text)
                env[ins.dst] = self.new_array(st.mem, name, k, n, tag='stack')
            elif m and self.kind_of_type(m.group(2), mod):
                env[ins.dst] = self.new_array(st.mem, name, self.kind_of_type(m.group(2), mod), int(m.group(1)), tag='stack')
            else:
                try:
                    size = mod.types.size_align(t)[0]
                except ValueError:
                    size = None
                env[ins.dst] = self.new_record(st.mem, name, size, tag='stack')
            return
        if op == 'fcmp':
            pred, ty, x, y = a
            x, y = self.val(st, x, ty, mod), self.val(st, y, ty, mod)
            c = _fcmp(pred, x, y)
            env[ins.dst] = z3.simplify(z3.If(c, z3.BitVecVal(1, 1), z3.BitVecVal(0, 1)))
            return
        if op in ('fadd', 'fsub', 'fmul', 'fdiv', 'frem'):
            ty, x, y, flags = a
            x, y = self.val(st, x, ty, mod), self.val(st, y, ty, mod)
            r = {'fadd': lambda: fp_comm('add', x, y), 'fsub': lambda: z3.fpSub(RNE, x, y), 'fmul': lambda: fp_comm('mul', x, y),
                 'fdiv': lambda: z3.fpDiv(RNE, x, y), 'frem': lambda: z3.fpRem(x, y)}[op]()
            env[ins.dst] = r
            return
        if op == 'fneg':
            env[ins.dst] = z3.fpNeg(self.val(st, a[1], a[0], mod))
            return
        if op in ('sitofp', 'uitofp'):
            t1, x, t2 = a
            x = self.val(st, x, t1, mod)
            # conversions go through a 64-bit signed value where that is exact, so that (double)(int32)x built here and
            # float(x) built by an oracle over widened values are the same term
            if op == 'sitofp':
                env[ins.dst] = z3.fpSignedToFP(RNE, z3.SignExt(64 - x.size(), x) if x.size() < 64 else x, FP_SORT[t2])
            elif x.size() < 64:
                env[ins.dst] = z3.fpSignedToFP(RNE, z3.ZeroExt(64 - x.size(), x), FP_SORT[t2])
            else:
                env[ins.dst] = z3.fpUnsignedToFP(RNE, x, FP_SORT[t2])
            return
        if op in ('fptosi', 'fptoui'):
            t1, x, t2 = a
            x = self.val(st, x, t1, mod)
            n = int_bits(t2)
            s = x.sort()
            if op == 'fptosi':
                lo = z3.fpSignedToFP(z3.RTZ(), z3.BitVecVal(-(1 << (n - 1)), n), s)
                bad = z3.Or(z3.fpIsNaN(x), z3.fpIsInf(x), z3.fpLT(z3.fpRoundToIntegral(z3.RTZ(), x), lo),
                            z3.fpGEQ(z3.fpRoundToIntegral(z3.RTZ(), x), z3.fpNeg(lo)))
                r = z3.fpToSBV(z3.RTZ(), x, z3.BitVecSort(n))
            else:
                hi = z3.fpMul(RNE, z3.fpUnsignedToFP(RNE, z3.BitVecVal(1 << (n - 1), n), s), z3.FPVal(2.0, s))
                bad = z3.Or(z3.fpIsNaN(x), z3.fpIsInf(x), z3.fpLEQ(x, z3.FPVal(-1.0, s)), z3.fpGEQ(z3.fpRoundToIntegral(z3.RTZ(), x), hi))
                r = z3.fpToUBV(z3.RTZ(), x, z3.BitVecSort(n))
            self.add_obl('fptoint-range', st, bad, 'float to integer conversion out of range (UB)', self.where(fr, ins))
            env[ins.dst] = r
            return
        if op in ('fpext', 'fptrunc'):
            t1, x, t2 = a
            env[ins.dst] = z3.fpFPToFP(RNE, self.val(st, x, t1, mod), FP_SORT[t2])
            return
        if op == 'ptrtoint':
            t1, x, t2 = a
            v = self.ptrtoint_sized(st, self.val(st, x, t1, mod))
            n = int_bits(t2)
            env[ins.dst] = v if n == 64 else z3.Extract(n - 1, 0, v)
            return
        if op == 'inttoptr':
            t1, x, t2 = a
            v = self.val(st, x, t1, mod)
            if v.size() < 64: v = z3.ZeroExt(64 - v.size(), v)
            env[ins.dst] = self.inttoptr(st, v)
            return
        if op == 'atomicrmw':
            bop, pty, p, ty, v = a
            ptr = self.val(st, p, pty, mod)
            oldv = self.load(st, ptr, ty, mod, self.where(fr, ins))
            x = self.val(st, v, ty, mod)
            newv = {'add': lambda: oldv + x, 'sub': lambda: oldv - x, 'xchg': lambda: x, 'and': lambda: oldv & x, 'or': lambda: oldv | x,
                    'xor': lambda: oldv ^ x}.get(bop)
            if newv is None:
                raise Unsupported('atomicrmw ' + bop)
            self.store(st, ptr, z3.simplify(newv()), ty, mod, self.where(fr, ins))
            env[ins.dst] = oldv
            return
        if op == 'cmpxchg':
            # sequential semantics (no other thread): {old value, old == expected}; stores the new value on success
            pty, p, ty, c, n = a
            ptr = self.val(st, p, pty, mod)
            oldv = self.load(st, ptr, ty, mod, self.where(fr, ins))
            cv, nv = self.val(st, c, ty, mod), self.val(st, n, ty, mod)
            ok = oldv == cv
            self.store(st, ptr, z3.simplify(z3.If(ok, nv, oldv)), ty, mod, self.where(fr, ins))
            env[ins.dst] = [oldv, z3.If(ok, z3.BitVecVal(1, 1), z3.BitVecVal(0, 1))]
            return
        if op == 'unreachable':
            # reached by ordinary control flow (after a call that came back): either a noreturn call modelled as returning, or source-level undefined
            # behaviour that the optimiser folded away (e.g. a member call through a pointer it proved null) - the latter must not vanish silently
            if os.environ.get('VF_UNREACHABLE_OBL', '1') == '1':
                self.add_obl('unreachable', st, z3.BoolVal(True), 'control reaches an `unreachable` instruction (undefined behaviour in the source, folded by the optimiser)', self.where(fr, ins))
            return ('dead',)
        if op == 'extractvalue':
            ty, v, idxs = a
            v = self.val(st, v, ty, mod)
            for i in idxs: v = v[i]
            env[ins.dst] = v
            return
        if op == 'insertvalue':
            ty, v, ety, e, idxs = a
            v = self.val(st, v, ty, mod)
            e = self.val(st, e, ety, mod)
            env[ins.dst] = _insert(v, idxs, e)
            return
        if op == 'landingpad':
            env[ins.dst] = [NULL, self.landing_selector(st, a)]
            return
        if op == 'resume':
            return ('raise',)
        if op == 'freeze':
            env[ins.dst] = self.val(st, a[1], a[0], mod)
            return
        if op == 'nop':
            return
        if op == 'phi':
            return
        raise Unsupported('instruction ' + ins.text[:100])

    def ptrtoint_sized(self, st, p):
        if not is_ptr(p):
            return p
        self._esize = getattr(self, '_esize', {})
        for g, q in ptr_cases(p):
            if q.obj is not None and not isinstance(q.obj, tuple):
                o = st.mem.o.get(q.obj)
                if isinstance(o, ArrayObj):
                    self._esize[q.obj] = o.ebytes
        return self.ptrtoint(p)

    def where(self, fr, ins):
        return '%s: %s' % (fr.f.name, ins.text[:90])

    # ---------------------------------------------------------------- calls
    def do_call(self, fr, ins, st):
        rty, callee, args, normal, unwind = ins.a
        mod = fr.mod
        env = st.env
        invoke = ins.op == 'invoke'

        def done(v=None):
            if ins.dst is not None and v is not None:
                env[ins.dst] = v
            return ('jmp', normal) if invoke else None

        if callee.startswith('%'):
            fp = env[callee]
            cs = ptr_cases(fp)
            if len(cs) == 1 and cs[0][1].obj is None:
                # the function pointer was read through a null object (the load already carries a null-deref obligation): this path ends here
                self.add_obl('null-deref', st, z3.BoolVal(True), 'indirect call through a null function pointer', self.where(fr, ins))
                return ('dead',)
            if len(cs) != 1 or not isinstance(cs[0][1].obj, tuple) or cs[0][1].obj[0] != 'func':
                raise Unsupported('indirect call through %s' % (fp,))
            name = cs[0][1].obj[1]
        else:
            name = callee[1:]
        if name.startswith('llvm.'):
            if name.startswith(('llvm.lifetime', 'llvm.dbg', 'llvm.experimental.noalias', 'llvm.assume', 'llvm.invariant',
                                'llvm.prefetch', 'llvm.donothing', 'llvm.stacksave', 'llvm.stackrestore')):
                return done()
            argv = [self.val(st, v, ty, mod) for ty, v, _ in args if ty != 'metadata']
            return done(self.intrinsic(fr, ins, st, name, argv, [t for t, _, _ in args]))
        argv = [self.val(st, v, ty, mod) for ty, v, _ in args]
        stub = self.stubs.get(name)
        if stub is None:
            for pat, fn in self.stubs.items():
                if pat.endswith('*') and '*' not in pat[:-1]:
                    if name.startswith(pat[:-1]):
                        stub = fn; break
                elif '*' in pat and fnmatch.fnmatchcase(name, pat):
                    stub = fn; break
        if stub is not None:
            r = stub(self, fr, ins, st, name, argv)
            if isinstance(r, tuple) and r and r[0] in ('raise', 'dead', 'split'):
                if invoke and r[0] == 'raise':
                    return ('jmp', unwind)
                if invoke and r[0] == 'split':
                    return ('multi', [(r[1], unwind), (z3.Not(r[1]), normal)])
                return r
            return done(r)
        m2, f2 = self.find_func(name)
        if f2 is None:
            raise Unsupported('extern ' + name)
        out = self.call(name, argv, st.mem, st.pc, st.trace)
        if out is None:
            return ('dead',)
        st.mem = out.mem
        st.trace = out.trace
        if ins.dst is not None:
            env[ins.dst] = out.ret
        r = z3.simplify(out.raised)
        if z3.is_false(r):
            return done()
        if invoke:
            if z3.is_true(r):
                return ('jmp', unwind)
            return ('multi', [(r, unwind), (z3.Not(r), normal)])
        if z3.is_true(r):
            return ('raise',)
        return ('split', r)

    # ---------------------------------------------------------------- C++ exceptions: which catch clause a raise selects
    EXC_BASES = {'_ZTISt16invalid_argument': '_ZTISt11logic_error', '_ZTISt12out_of_range': '_ZTISt11logic_error', '_ZTISt12length_error': '_ZTISt11logic_error',
                 '_ZTISt12domain_error': '_ZTISt11logic_error', '_ZTISt11logic_error': '_ZTISt9exception', '_ZTISt13runtime_error': '_ZTISt9exception',
                 '_ZTISt11range_error': '_ZTISt13runtime_error', '_ZTISt14overflow_error': '_ZTISt13runtime_error', '_ZTISt15underflow_error': '_ZTISt13runtime_error',
                 '_ZTISt9bad_alloc': '_ZTISt9exception', '_ZTISt8bad_cast': '_ZTISt9exception'}

    def typeid_of(self, sym):
        ids = self.__dict__.setdefault('_typeids', {})
        if sym not in ids:
            ids[sym] = len(ids) + 1
        return ids[sym]

    def set_thrown(self, st, sym):
        """remember the type of the exception in flight (None = unknown) in a pseudo-object, so that it survives state merging and returns"""
        v = z3.BitVecVal(self.typeid_of(sym), 32) if sym is not None else z3.FreshConst(z3.BitVecSort(32), 'thrown')
        st.mem.o['exc!type'] = RecObj({0: (v, 4)}, 4, False, 'exc')

    def landing_selector(self, st, clauses):
        """selector value of a landingpad: the typeid of the first catch clause the exception in flight matches (by exact type or a known
        standard base class), 0 if none does (cleanup only); arbitrary when the thrown type is not known"""
        o = st.mem.o.get('exc!type')
        if o is None or not clauses:
            return z3.BitVecVal(0, 32) if not clauses or all(c[0] == 'cleanup' for c in clauses) else z3.FreshConst(z3.BitVecSort(32), 'selector')
        thrown = o.cells[0][0]
        sel = z3.BitVecVal(0, 32)
        known = self.__dict__.setdefault('_typeids', {})
        for kind, sym in reversed([c for c in clauses if c[0] == 'catch']):
            if sym is None:
                sel = z3.BitVecVal(self.typeid_of('...'), 32)           # catch (...) takes everything
                continue
            tid = self.typeid_of(sym)
            derived = [self.typeid_of(sym)]
            for d in list(self.EXC_BASES):
                b = d
                while b in self.EXC_BASES:
                    b = self.EXC_BASES[b]
                    if b == sym:
                        derived.append(self.typeid_of(d)); break
            sel = z3.If(z3.Or([thrown == z3.BitVecVal(x, 32) for x in derived]), z3.BitVecVal(tid, 32), sel)
        return z3.simplify(sel)

    def intrinsic(self, fr, ins, st, name, argv, tys):
        base = name.split('.')
        fn = base[1]
        if name.startswith('llvm.eh.typeid.for'):
            p = argv[0]
            sym = None
            if is_ptr(p) and not isinstance(p, GPtr) and p.obj is not None:
                nm = p.obj[1] if isinstance(p.obj, tuple) else str(p.obj)
                mm = re.search(r'(_ZTI[\w$.]+)', nm)
                sym = mm.group(1) if mm else None
            if sym is None:
                raise Unsupported('llvm.eh.typeid.for of an unknown typeinfo')
            return z3.BitVecVal(self.typeid_of(sym), 32)
        if fn in ('memcpy', 'memmove'):
            self.memcpy(fr, ins, st, argv[0], argv[1], argv[2]); return None
        if fn == 'memset':
            self.memset(fr, ins, st, argv[0], argv[1], argv[2]); return None
        if fn == 'fabs': return z3.fpAbs(argv[0])
        if fn == 'ceil': return z3.fpRoundToIntegral(z3.RTP(), argv[0])
        if fn == 'floor': return z3.fpRoundToIntegral(z3.RTN(), argv[0])
        if fn == 'trunc': return z3.fpRoundToIntegral(z3.RTZ(), argv[0])
        if fn == 'sqrt': return z3.fpSqrt(RNE, argv[0])
        if fn == 'fmuladd': return z3.fpAdd(RNE, z3.fpMul(RNE, argv[0], argv[1]), argv[2])
        if fn == 'smax': return z3.If(argv[0] > argv[1], argv[0], argv[1])
        if fn == 'smin': return z3.If(argv[0] < argv[1], argv[0], argv[1])
        if fn == 'umax': return z3.If(z3.UGT(argv[0], argv[1]), argv[0], argv[1])
        if fn == 'umin': return z3.If(z3.ULT(argv[0], argv[1]), argv[0], argv[1])
        if fn == 'abs': return z3.If(argv[0] < 0, -argv[0], argv[0])
        if fn == 'expect': return argv[0]
        if fn in ('fshr', 'fshl'):
            # funnel shifts: (a:b) shifted by c modulo the width; fshr keeps the low half, fshl the high half
            a_, b_, c_ = argv
            w = a_.size()
            wide = z3.Concat(a_, b_)
            amt = z3.ZeroExt(w, z3.URem(c_, z3.BitVecVal(w, w)))
            if fn == 'fshr':
                return z3.Extract(w - 1, 0, z3.LShR(wide, amt))
            return z3.Extract(2 * w - 1, w, wide << amt)
        if fn == 'bswap':
            x = argv[0]; n = x.size() // 8
            return z3.Concat(*[z3.Extract(8 * i + 7, 8 * i, x) for i in range(n)])
        if fn == 'ctlz':
            x = argv[0]; w = x.size()
            r = z3.BitVecVal(w, w)
            for i in range(w):
                r = z3.If(z3.Extract(i, i, x) == 1, z3.BitVecVal(w - 1 - i, w), r)
            return r
        if fn in ('umul', 'uadd', 'smul', 'sadd', 'usub', 'ssub') and base[2] == 'with':
            x, y = argv; w = x.size()
            if fn == 'umul':
                full = z3.ZeroExt(w, x) * z3.ZeroExt(w, y)
                ov = z3.Extract(2 * w - 1, w, full) != 0
                return [x * y, z3.If(ov, z3.BitVecVal(1, 1), z3.BitVecVal(0, 1))]
            if fn == 'uadd':
                return [x + y, z3.If(z3.ULT(x + y, x), z3.BitVecVal(1, 1), z3.BitVecVal(0, 1))]
            if fn == 'sadd':
                ov = z3.Not(z3.And(z3.BVAddNoOverflow(x, y, True), z3.BVAddNoUnderflow(x, y)))
                return [x + y, z3.If(ov, z3.BitVecVal(1, 1), z3.BitVecVal(0, 1))]
            if fn == 'smul':
                ov = z3.Not(z3.And(z3.BVMulNoOverflow(x, y, True), z3.BVMulNoUnderflow(x, y)))
                return [x * y, z3.If(ov, z3.BitVecVal(1, 1), z3.BitVecVal(0, 1))]
        if fn == 'trap':
            self.add_obl('trap', st, z3.BoolVal(True), 'llvm.trap reached', self.where(fr, ins))
            return None
        raise Unsupported('intrinsic ' + name)

    def memcpy(self, fr, ins, st, dst, src, n):
        n = z3.simplify(n)
        where = self.where(fr, ins)
        if isinstance(src, GPtr) and not isinstance(dst, GPtr) and z3.is_bv_value(n):
            # copy from a merged pointer into a record: cell-wise ite over the source cases (all sources must be records with matching cells)
            nb = n.as_long()
            cases = [(g, q) for g, q in src.cases if q.obj is not None]
            for g, q in src.cases:
                if q.obj is None:
                    self.add_obl('null-deref', st, g, 'memcpy from a null pointer', where)
            od = st.mem.o.get(dst.obj)
            if isinstance(od, RecObj) and cases and all(isinstance(st.mem.o[q.obj], RecObj) for g, q in cases):
                keys = None
                for g, q in cases:
                    ks = set((k - q.off, w) for k, (_, w) in st.mem.o[q.obj].cells.items() if q.off <= k < q.off + nb)
                    keys = ks if keys is None else (keys & ks)
                for k in [k for k, (_, w) in od.cells.items() if dst.off <= k < dst.off + nb]:
                    del od.cells[k]
                for rel, w in sorted(keys):
                    v = None
                    for g, q in cases:
                        c = st.mem.o[q.obj].cells[q.off + rel][0]
                        v = c if v is None else ite(g, c, v)
                    od.cells[dst.off + rel] = (v, w)
                return
        if isinstance(src, GPtr) and not isinstance(dst, GPtr):
            # one real source, otherwise null (an optional C string such as Error::str): copy from the real one, a null source is an obligation
            real = [(g, q) for g, q in src.cases if q.obj is not None]
            if len(real) == 1:
                for g, q in src.cases:
                    if q.obj is None:
                        self.add_obl('null-deref', st, z3.And(g, n != 0), 'memcpy from a null pointer', where)
                src = real[0][1]
        if isinstance(src, GPtr) and not isinstance(dst, GPtr) and dst.obj is not None:
            # several possible sources (the message literals of an Error): an element-wise choice between them, any length
            real = [(g, q) for g, q in src.cases if q.obj is not None]
            od = st.mem.o.get(dst.obj)
            if real and isinstance(od, ArrayObj) and od.kind[0] != 'ptr' and all(isinstance(st.mem.o[q.obj], ArrayObj) and st.mem.o[q.obj].kind == od.kind for g, q in real):
                for g, q in src.cases:
                    if q.obj is None:
                        self.add_obl('null-deref', st, z3.And(g, n != 0), 'memcpy from a null pointer', where)
                es = od.ebytes
                ne = z3.UDiv(n, z3.BitVecVal(es, 64)) if es > 1 else n
                i = z3.FreshConst(z3.BitVecSort(64), 'cpy')
                doff = bv64(dst.off)
                val = z3.Select(od.arr, i)
                for g, q in real:
                    os_ = st.mem.o[q.obj]
                    val = z3.If(g, z3.Select(os_.arr, i - doff + bv64(q.off)), val)
                    self.add_obl('bounds', st, z3.And(g, ne != 0, z3.Or(bv64(q.off) < 0, bv64(q.off) + ne > os_.cap)), 'memcpy load outside capacity of %s' % (q.obj,), where)
                if od.const:
                    self.add_obl('const-write', st, n != 0, 'memcpy to read-only object %s' % (dst.obj,), where)
                self.add_obl('bounds', st, z3.And(ne != 0, z3.Or(doff < 0, doff + ne > od.cap, z3.UGT(ne, z3.BitVecVal(1 << 60, 64)))), 'memcpy store outside capacity of %s' % (dst.obj,), where)
                arr = z3.Lambda([i], z3.If(z3.And(z3.UGE(i - doff, z3.BitVecVal(0, 64)), z3.ULT(i - doff, ne)), val, z3.Select(od.arr, i)))
                st.mem.o[dst.obj] = od.with_arr(arr)
                return
        if isinstance(dst, GPtr) or isinstance(src, GPtr):
            def _d(p_):
                return [(str(q.obj), type(st.mem.o.get(q.obj)).__name__) for g, q in ptr_cases(p_)]
            raise Unsupported('memcpy through guarded pointer (to %s from %s)' % (_d(dst)[:4], _d(src)[:4]))
        if dst.obj is None or src.obj is None:
            if z3.is_bv_value(n) and n.as_long() == 0:
                return
            self.add_obl('null-deref', st, n != 0, 'memcpy with null pointer', where)
            return
        od, os_ = st.mem.o[dst.obj], st.mem.o[src.obj]
        if isinstance(od, RecObj) and isinstance(os_, RecObj):
            if not z3.is_bv_value(n):
                raise Unsupported('symbolic-length memcpy between records')
            nb = n.as_long()
            if od.const:
                self.add_obl('const-write', st, z3.BoolVal(True), 'memcpy to read-only object', where)
            items = [(k, v) for k, v in os_.cells.items() if src.off <= k < src.off + nb]
            for k in [k for k, (_, w) in od.cells.items() if dst.off <= k < dst.off + nb]:
                del od.cells[k]
            for k, v in items:
                od.cells[dst.off + (k - src.off)] = v
            return
        if isinstance(od, ArrayObj) and isinstance(os_, ArrayObj) and od.kind == os_.kind and od.kind[0] != 'ptr':
            es = od.ebytes
            if od.const:
                self.add_obl('const-write', st, n != 0, 'memcpy to read-only object %s' % dst.obj, where)
            if z3.is_bv_value(n):
                cnt = n.as_long()
                if cnt % es:
                    raise Unsupported('memcpy of partial elements')
                cnt //= es
                arr = od.arr
                for k in range(cnt):
                    arr = z3.Store(arr, dst.off + k, z3.Select(os_.arr, src.off + k))
                if cnt:
                    self.add_obl('bounds', st, z3.Or(dst.off < 0, dst.off + cnt > od.cap), 'memcpy store outside capacity of %s' % dst.obj, where)
                    self.add_obl('bounds', st, z3.Or(src.off < 0, src.off + cnt > os_.cap), 'memcpy load outside capacity of %s' % src.obj, where)
                st.mem.o[dst.obj] = od.with_arr(arr)
                return
            # symbolic length: array-copy as a lambda term (no unrolling, any length)
            ne = z3.UDiv(n, z3.BitVecVal(es, 64)) if es > 1 else n
            i = z3.FreshConst(z3.BitVecSort(64), 'cpy')
            doff, soff = bv64(dst.off), bv64(src.off)
            arr = z3.Lambda([i], z3.If(z3.And(z3.UGE(i - doff, z3.BitVecVal(0, 64)), z3.ULT(i - doff, ne)),
                                       z3.Select(os_.arr, i - doff + soff), z3.Select(od.arr, i)))
            self.add_obl('bounds', st, z3.And(ne != 0, z3.Or(doff < 0, doff + ne > od.cap, z3.UGT(ne, z3.BitVecVal(1 << 60, 64)))), 'memcpy store outside capacity of %s' % dst.obj, where)
            self.add_obl('bounds', st, z3.And(ne != 0, z3.Or(soff < 0, soff + ne > os_.cap, z3.UGT(ne, z3.BitVecVal(1 << 60, 64)))), 'memcpy load outside capacity of %s' % src.obj, where)
            st.mem.o[dst.obj] = od.with_arr(arr)
            return
        if isinstance(od, ArrayObj) and isinstance(os_, ArrayObj) and od.kind[0] == 'i' and os_.kind[0] == 'i' and od.kind != os_.kind and z3.is_bv_value(n) \
                and 8 in (od.kind[1], os_.kind[1]):
            # byte buffer <-> wider integer buffer (a void* allocation filled from typed data, or the reverse), concrete length: little-endian bytes
            nb = n.as_long()
            if od.const:
                self.add_obl('const-write', st, n != 0, 'memcpy to read-only object %s' % dst.obj, where)
            if od.kind[1] == 8:
                w = os_.kind[1] // 8
                if nb % w:
                    raise Unsupported('memcpy of partial elements')
                arr = od.arr
                for e in range(nb // w):
                    v = z3.Select(os_.arr, src.off + e)
                    for b in range(w):
                        arr = z3.Store(arr, dst.off + e * w + b, z3.Extract(8 * b + 7, 8 * b, v))
                if nb:
                    self.add_obl('bounds', st, z3.Or(dst.off < 0, dst.off + nb > od.cap), 'memcpy store outside capacity of %s' % dst.obj, where)
                    self.add_obl('bounds', st, z3.Or(src.off < 0, src.off + nb // w > os_.cap), 'memcpy load outside capacity of %s' % src.obj, where)
                st.mem.o[dst.obj] = od.with_arr(arr)
                return
            w = od.kind[1] // 8
            if nb % w:
                raise Unsupported('memcpy of partial elements')
            arr = od.arr
            for e in range(nb // w):
                v = z3.Concat(*[z3.Select(os_.arr, src.off + e * w + b) for b in reversed(range(w))])
                arr = z3.Store(arr, dst.off + e, v)
            if nb:
                self.add_obl('bounds', st, z3.Or(dst.off < 0, dst.off + nb // w > od.cap), 'memcpy store outside capacity of %s' % dst.obj, where)
                self.add_obl('bounds', st, z3.Or(src.off < 0, src.off + nb > os_.cap), 'memcpy load outside capacity of %s' % src.obj, where)
            st.mem.o[dst.obj] = od.with_arr(arr)
            return
        if isinstance(od, RecObj) and isinstance(os_, ArrayObj) and os_.kind == ('i', 8) and z3.is_bv_value(n):
            # bytes of a (string literal) array copied into a record, e.g. the small-string buffer of a std::string local
            nb = n.as_long()
            soff = z3.simplify(bv64(src.off))
            if not z3.is_bv_value(soff):
                raise Unsupported('memcpy from an array at a symbolic offset into a record')
            for k in [k for k, (_, w) in od.cells.items() if dst.off <= k < dst.off + nb]:
                del od.cells[k]
            for i in range(nb):
                od.cells[dst.off + i] = (z3.simplify(z3.Select(os_.arr, z3.BitVecVal(soff.as_long() + i, 64))), 1)
            return
        if isinstance(od, ArrayObj) and isinstance(os_, RecObj) and od.kind == ('i', 8) and z3.is_bv_value(n):
            nb = n.as_long()
            arr = od.arr
            for i in range(nb):
                arr = z3.Store(arr, dst.off + i, self._byte_at(os_, src.off + i, src.obj))
            st.mem.o[dst.obj] = od.with_arr(arr)
            return
        raise Unsupported('memcpy between %s and %s' % (type(od).__name__, type(os_).__name__))

    def memset(self, fr, ins, st, dst, byte, n):
        n = z3.simplify(n)
        where = self.where(fr, ins)
        if isinstance(dst, GPtr):
            raise Unsupported('memset through guarded pointer')
        if dst.obj is None:
            self.add_obl('null-deref', st, n != 0, 'memset with null pointer', where); return
        od = st.mem.o[dst.obj]
        b = z3.simplify(byte)
        if isinstance(od, RecObj):
            if not z3.is_bv_value(n):
                raise Unsupported('symbolic memset on record')
            for k in [k for k, (_, w) in od.cells.items() if dst.off <= k < dst.off + n.as_long()]:
                del od.cells[k]
            for k in range(0, n.as_long()):
                od.cells[dst.off + k] = (z3.Extract(7, 0, b), 1)
            return
        es = od.ebytes
        if od.kind[0] != 'i':
            raise Unsupported('memset on non-integer array')
        val = z3.Concat(*[z3.Extract(7, 0, b)] * es) if es > 1 else z3.Extract(7, 0, b)
        ne = z3.simplify(z3.UDiv(n, z3.BitVecVal(es, 64))) if es > 1 else n
        arr = od.arr
        K = ne.as_long() if z3.is_bv_value(ne) else self.unwind
        for k in range(K):
            arr = z3.If(z3.ULT(z3.BitVecVal(k, 64), ne), z3.Store(arr, dst.off + k, val), arr)
        if not z3.is_bv_value(ne):
            self.obl.append(Obl('unwind', z3.And(st.pc, z3.UGT(ne, K)), 'memset longer than unwinding bound', where))
        self.add_obl('bounds', st, z3.And(ne != 0, z3.Or(dst.off < 0, dst.off + ne > od.cap)), 'memset outside capacity of %s' % dst.obj, where)
        st.mem.o[dst.obj] = od.with_arr(z3.simplify(arr))


def _insert(v, idxs, e):
    v = list(v)
    if len(idxs) == 1:
        v[idxs[0]] = e
    else:
        v[idxs[0]] = _insert(v[idxs[0]], idxs[1:], e)
    return v


def _occurs(e, sym):
    seen = set()
    stack = [e]
    while stack:
        x = stack.pop()
        if x.get_id() in seen:
            continue
        seen.add(x.get_id())
        if z3.eq(x, sym):
            return True
        stack.extend(x.children())
    return False


def _is_mul_of(off, es):
    return z3.is_bv_value(off) and off.as_long() % es == 0


def _div_exact(off, es):
    return z3.BitVecVal(off.as_signed_long() // es, 64)


def _cstring(s):
    out, i = [], 0
    while i < len(s):
        if s[i] == '\\':
            out.append(int(s[i + 1:i + 3], 16)); i += 3
        else:
            out.append(ord(s[i])); i += 1
    return out


_ICMP = {'eq': lambda a, b: a == b, 'ne': lambda a, b: a != b, 'slt': lambda a, b: a < b, 'sle': lambda a, b: a <= b,
         'sgt': lambda a, b: a > b, 'sge': lambda a, b: a >= b, 'ult': z3.ULT, 'ule': z3.ULE, 'ugt': z3.UGT, 'uge': z3.UGE}


def _fcmp(pred, x, y):
    uno = z3.Or(z3.fpIsNaN(x), z3.fpIsNaN(y))
    o = {'eq': z3.fpEQ, 'gt': z3.fpGT, 'ge': z3.fpGEQ, 'lt': z3.fpLT, 'le': z3.fpLEQ}
    if pred == 'true': return z3.BoolVal(True)
    if pred == 'false': return z3.BoolVal(False)
    if pred == 'ord': return z3.Not(uno)
    if pred == 'uno': return uno
    if pred == 'one': return z3.And(z3.Not(uno), z3.Not(z3.fpEQ(x, y)))
    if pred == 'une': return z3.Or(uno, z3.Not(z3.fpEQ(x, y)))
    if pred[0] == 'o': return o[pred[1:]](x, y)          # ordered compares are false on NaN in z3 as well
    if pred[0] == 'u': return z3.Or(uno, o[pred[1:]](x, y))
    raise Unsupported('fcmp ' + pred)
