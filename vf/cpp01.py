"""C01 at the C++ method level (M-harness): getitem_at / getitem_range of the list node classes, executed symbolically from the
method's IR on a raw object (fields at the offsets of the IR type table) whose vtable slots are observation points.
Oracle: Python integer-index and slice semantics on the node's length: negative indexes wrap once, out-of-range raises and never
reaches the *_nowrap method, ranges are clamped as CPython clamps them.
Replay: the natively compiled method is called on the same raw object with a recording vtable (test double)."""
import os, re, subprocess
import z3
from . import build, runner
from .mharness import MCtx, mdischarge, module_of, stub_noop
from .oracle import guard
from .llbmc import Ptr, NULL, ptr_cases, bv64, Unsupported, State
from .hlib import py_slice_indices, KNONE

KU = 'src/cpu-kernels/kernel-utils.cpp'
IDX = 'src/libawkward/Index.cpp'
SLC = 'src/libawkward/Slice.cpp'

CLASSES = {
    # name: (source, mangled class, IR struct finder, how to set the length)
    'ListOffsetArray64': ('src/libawkward/array/ListOffsetArray.cpp', 'N7awkward17ListOffsetArrayOfIlEE', '17ListOffsetArrayOfIlE'),
    'ListArray64': ('src/libawkward/array/ListArray.cpp', 'N7awkward11ListArrayOfIlEE', '11ListArrayOfIlE'),
    'RegularArray': ('src/libawkward/array/RegularArray.cpp', 'N7awkward12RegularArrayE', '12RegularArray'),
}


def vtable_slots(mod, mangled):
    g = mod.globals.get('@_ZTV' + mangled)
    if g is None or g[1] is None:
        raise Unsupported('vtable of %s not found' % mangled)
    syms = re.findall(r'@([\w]+)', g[1])
    return {s: k - 1 for k, s in enumerate(syms) if k >= 1}, len(syms)


def struct_of(mod, fn):
    """IR struct type of `this` from the method's first non-sret parameter"""
    f = mod.func(fn)
    for ty, nm, attrs in f.params:
        if nm == '%this':
            return ty.rstrip('*')
    raise Unsupported('no this parameter in ' + fn)


def make_stubs(returns):
    """returns: {slot name: value} for observed virtual methods that return a scalar (length())"""
    def slot_stub(eng, fr, ins, st, name, argv):
        if name in returns:
            return returns[name]
        st.trace = st.trace + ((st.pc, name, tuple(argv)),)
        return None

    def handle_error(eng, fr, ins, st, name, argv):
        err = argv[0]
        cell = st.mem.o[err.obj].cells.get(err.off)
        isnull = eng.is_null(cell[0]) if cell is not None else z3.BoolVal(True)
        c = z3.simplify(z3.Not(isnull))
        if z3.is_true(c):
            return ('raise',)
        if z3.is_false(c):
            return None
        return ('split', c)

    def regularize(eng, fr, ins, st, name, argv):
        out = eng.call('awkward_regularize_rangeslice', argv, st.mem, st.pc, st.trace)
        st.mem = out.mem
        return None
    return {'vf$slot*': slot_stub, '_ZN7awkward4util12handle_error*': handle_error,
            '_ZN7awkward6kernel21regularize_rangesliceEPlS1_bbbl': regularize, '_ZdlPv': stub_noop}


def build_object(m, cls, length, size=None):
    src, mangled, short = CLASSES[cls]
    mod = module_of(src)
    slots, nslots = vtable_slots(mod, mangled)
    # fake vtable: every slot is an observation point
    cells = {8 * k: (Ptr(('func', 'vf$slot%d' % k), 0), 8) for k in range(nslots)}
    vt = m.record('fakevt', cells, const=True)
    fn_at = '_ZNK7awkward%s10getitem_atEl' % short
    sty = struct_of(mod, fn_at)
    offs, sz, al, fields = mod.types.struct_layout(sty)
    ocells = {0: (vt, 8), 8: (NULL, 8), 16: (NULL, 8)}          # vptr, identities_ = null
    lay = {}
    if cls == 'ListOffsetArray64':
        io = offs[1]            # offsets_ : IndexOf<int64_t>
        ocells.update({io + 8: (NULL, 8), io + 16: (NULL, 8), io + 32: (z3.BitVecVal(0, 64), 8), io + 40: (length + 1, 8)})
        lay = dict(index_off=io, n_index=1, node_len='offsets_.length() - 1')
    elif cls == 'ListArray64':
        i1, i2 = offs[1], offs[2]   # starts_, stops_
        for io in (i1, i2):
            ocells.update({io + 8: (NULL, 8), io + 16: (NULL, 8), io + 32: (z3.BitVecVal(0, 64), 8), io + 40: (length, 8)})
        lay = dict(index_off=i1, index_off2=i2, n_index=2, node_len='starts_.length()')
    else:
        # RegularArray: Content, content_ (shared_ptr), size_, length_
        names = dict(zip(range(len(offs)), offs))
        ocells.update({offs[1]: (NULL, 8), offs[1] + 8: (NULL, 8), offs[2]: (size, 8), offs[3]: (length, 8)})
        lay = dict(size_off=offs[2], length_off=offs[3], node_len='length_')
    this = m.record('node', ocells, const=True)
    return this, slots, lay, sz, nslots


def slot_of(slots, short, method):
    for s, k in slots.items():
        if short in s and method in s:
            return k
    raise Unsupported('vtable slot of %s not found' % method)


DRIVER = r'''
#include <cstdio>
#include <cstdlib>
#include <cstring>
#include <string>
#include <stdexcept>
#include <new>
#include "awkward/common.h"
namespace awkward { class Identities; namespace util {
  void handle_error(const struct Error& err, const std::string& classname, const Identities* id) {
    if (err.str != nullptr) throw std::invalid_argument(err.str);
  } } }
static long rec_n = 0, rec_a = 0, rec_b = 0, rec_slot = -1;
extern "C" void vf_trap() { printf("{\"outcome\": \"unexpected-virtual-call\"}\n"); exit(3); }
extern "C" void vf_classname(std::string* sret, void* self) { new (sret) std::string("TestDouble"); }
static long the_length = 0;
extern "C" long vf_length(void* self) { return the_length; }
extern "C" void vf_nowrap1(void* sret, void* self, long a) { rec_n++; rec_a = a; rec_slot = 1; memset(sret, 0, 16); }
extern "C" void vf_nowrap2(void* sret, void* self, long a, long b) { rec_n++; rec_a = a; rec_b = b; rec_slot = 2; memset(sret, 0, 16); }
void method1(void* sret, void* self, long a) asm("%(sym_at)s");
void method2(void* sret, void* self, long a, long b) asm("%(sym_range)s");
int main(int argc, char** argv) {
  int which = atoi(argv[1]); long length = atol(argv[2]); long size = atol(argv[3]); long a = atol(argv[4]); long b = atol(argv[5]);
  void* vt[%(nslots)d];
  for (int i = 0; i < %(nslots)d; i++) vt[i] = (void*)vf_trap;
  the_length = length; vt[%(slot_length)d] = (void*)vf_length;
  vt[%(slot_classname)d] = (void*)vf_classname; vt[%(slot_at_nowrap)d] = (void*)vf_nowrap1; vt[%(slot_range_nowrap)d] = (void*)vf_nowrap2;
  char* obj = (char*)calloc(1, %(objsize)d + 64);
  *(void**)obj = (void*)vt;
%(setfields)s
  char ret[16];
  try {
    if (which == 1) method1(ret, obj, a); else method2(ret, obj, a, b);
    printf("{\"outcome\": \"ok\", \"calls\": %%ld, \"slot\": %%ld, \"a\": %%ld, \"b\": %%ld}\n", rec_n, rec_slot, rec_a, rec_b);
  } catch (std::invalid_argument& e) {
    printf("{\"outcome\": \"raised\", \"calls\": %%ld}\n", rec_n);
  }
  return 0;
}
'''


def native_call(cls, which, length, size, a, b, slots, lay, objsize, nslots):
    src, mangled, short = CLASSES[cls]
    setf = []
    if cls == 'ListOffsetArray64':
        setf.append('  *(long*)(obj + %d) = length + 1;' % (lay['index_off'] + 40))
    elif cls == 'ListArray64':
        setf.append('  *(long*)(obj + %d) = length; *(long*)(obj + %d) = length;' % (lay['index_off'] + 40, lay['index_off2'] + 40))
    else:
        setf.append('  *(long*)(obj + %d) = size; *(long*)(obj + %d) = length;' % (lay['size_off'], lay['length_off']))
    drv = DRIVER % dict(sym_at='_ZNK7awkward%s10getitem_atEl' % short, sym_range='_ZNK7awkward%s13getitem_rangeEll' % short, nslots=nslots,
                        slot_classname=slot_of(slots, short, '9classname'), slot_length=slot_of(slots, short, '6lengthEv'), slot_at_nowrap=slot_of(slots, short, '17getitem_at_nowrapEl'),
                        slot_range_nowrap=slot_of(slots, short, '20getitem_range_nowrapEll'), objsize=objsize, setfields='\n'.join(setf))
    exe = build.compile_objs_driver(drv, [src, IDX, SLC, KU, 'src/libawkward/kernel-dispatch.cpp'])
    import json
    r = subprocess.run([exe, str(which), str(length), str(size), str(a), str(b)], capture_output=True, text=True, timeout=30,
                       env=dict(os.environ, ASAN_OPTIONS='detect_leaks=0', UBSAN_OPTIONS='halt_on_error=1:exitcode=87'), errors='replace')
    try:
        return json.loads(r.stdout.strip().splitlines()[-1]), r.stderr[-300:]
    except (ValueError, IndexError):
        return dict(outcome='crash(%d)' % r.returncode), r.stderr[-300:]


@guard
def h_getitem_at(cls):
    src, mangled, short = CLASSES[cls]
    rets = {}
    m = MCtx([src, IDX, SLC, KU], unwind=4, stubs=make_stubs(rets))
    length, at = m.bv('length'), m.bv('at')
    size = m.bv('size')
    m.assume(length >= 0, length <= 2 ** 40, size >= 0, size <= 2 ** 20)
    this, slots, lay, objsize, nslots = build_object(m, cls, length, size)
    rets['vf$slot%d' % slot_of(slots, short, '6lengthEv')] = length       # a virtual length() call observes the node length
    m.record('ret', {})
    out = m.call('_ZNK7awkward%s10getitem_atEl' % short, [Ptr('ret', 0), this, at])
    raised = z3.simplify(out.raised)
    k_now = slot_of(slots, short, '17getitem_at_nowrapEl')
    calls = [(pc, args) for pc, name, args in out.trace if name == 'vf$slot%d' % k_now]
    others = [(pc, name) for pc, name, args in out.trace if name not in ('vf$slot%d' % k_now, 'vf$slot%d' % slot_of(slots, short, '9classname'))]
    reg = z3.If(at < 0, at + length, at)
    inr = z3.And(reg >= 0, reg < length)
    called = z3.Or([pc for pc, a in calls] + [z3.BoolVal(False)])
    obls = [('raises exactly when the index is out of range for the node (after one negative wrap)', raised != z3.Not(inr)),
            ('an out-of-range index never reaches getitem_at_nowrap (never returns data)', z3.And(z3.Not(inr), called)),
            ('an in-range index is handed to getitem_at_nowrap', z3.And(inr, z3.Not(called)))]
    for pc, a in calls:
        obls.append(('getitem_at_nowrap receives the wrapped index', z3.And(pc, a[2] != reg)))
    for pc, name in others:
        obls.append(('no other virtual method is involved (%s)' % name, pc))

    def replay(model, ent):
        ev = lambda e: model.eval(e, model_completion=True).as_signed_long()
        L, S, A = ev(length), ev(size), ev(at)
        res, log = native_call(cls, 1, L, S, A, 0, slots, lay, objsize, nslots)
        ra = A + L if A < 0 else A
        want_ok = 0 <= ra < L
        payload = dict(length=L, at=A, native=res)
        if res.get('outcome') == 'ok' and (not want_ok or res.get('calls') != 1 or res.get('a') != ra or res.get('slot') != 1):
            return True, '%s(length %d)::getitem_at(%d): native method %s; Python semantics: %s' % (cls, L, A, res, 'item %d' % ra if want_ok else 'IndexError'), payload
        if res.get('outcome') == 'raised' and want_ok:
            return True, '%s(length %d)::getitem_at(%d) raised natively; Python semantics select item %d' % (cls, L, A, ra), payload
        if res.get('outcome') not in ('ok', 'raised'):
            return True, 'native method: %s %s' % (res, log), payload
        return False, 'native method agrees with Python indexing (%s)' % res, payload
    return mdischarge(m, '%s::getitem_at' % cls, obls, [('in range', inr), ('negative in range', z3.And(inr, at < 0)), ('out of range', z3.Not(inr))],
                      timeout_ms=60000, replay=replay, prefer=[length <= 50, at >= -100, at <= 100], extra=dict(bounds='any int64 index, node length <= 2^40'))


@guard
def h_getitem_range(cls):
    src, mangled, short = CLASSES[cls]
    rets = {}
    m = MCtx([src, IDX, SLC, KU], unwind=4, stubs=make_stubs(rets))
    length, start, stop, size = m.bv('length'), m.bv('start'), m.bv('stop'), m.bv('size')
    m.assume(length >= 0, length <= 2 ** 40, size >= 0, size <= 2 ** 20)
    this, slots, lay, objsize, nslots = build_object(m, cls, length, size)
    rets['vf$slot%d' % slot_of(slots, short, '6lengthEv')] = length       # a virtual length() call observes the node length
    m.record('ret', {})
    out = m.call('_ZNK7awkward%s13getitem_rangeEll' % short, [Ptr('ret', 0), this, start, stop])
    raised = z3.simplify(out.raised)
    k_now = slot_of(slots, short, '20getitem_range_nowrapEll')
    calls = [(pc, args) for pc, name, args in out.trace if name == 'vf$slot%d' % k_now]
    ps, pe = py_slice_indices(start, stop, z3.BoolVal(True), length)
    pe2 = z3.If(pe < ps, ps, pe)
    called = z3.Or([pc for pc, a in calls] + [z3.BoolVal(False)])
    obls = [('a range never raises (it is clamped)', raised), ('the clamped range is handed to getitem_range_nowrap', z3.Not(called))]
    for pc, a in calls:
        obls.append(('start is clamped as CPython slice.indices clamps it', z3.And(pc, a[2] != ps)))
        obls.append(('stop is clamped as CPython slice.indices clamps it (empty when stop < start)', z3.And(pc, a[3] != pe2)))

    def replay(model, ent):
        ev = lambda e: model.eval(e, model_completion=True).as_signed_long()
        L, S, A, B = ev(length), ev(size), ev(start), ev(stop)
        res, log = native_call(cls, 2, L, S, A, B, slots, lay, objsize, nslots)
        sl = slice(None if A == KNONE else A, None if B == KNONE else B).indices(L)
        ws, we = sl[0], max(sl[1], sl[0])
        payload = dict(length=L, start=A, stop=B, native=res)
        if res.get('outcome') != 'ok' or res.get('calls') != 1 or res.get('a') != ws or res.get('b') != we:
            return True, '%s(length %d)::getitem_range(%d, %d): native method %s; CPython clamps to (%d, %d)' % (cls, L, A, B, res, ws, we), payload
        return False, 'native method agrees with CPython slice clamping (%s)' % res, payload
    return mdischarge(m, '%s::getitem_range' % cls, obls, [('None stop', stop == KNONE), ('negative start', start < 0)], timeout_ms=60000, replay=replay,
                      prefer=[length <= 50, z3.Or(start == KNONE, z3.And(start >= -100, start <= 100)), z3.Or(stop == KNONE, z3.And(stop >= -100, stop <= 100))],
                      extra=dict(bounds='any int64 start/stop (kSliceNone = None), node length <= 2^40'))


def jobs(tier):
    js = []
    for cls in CLASSES:
        js.append((h_getitem_at, (cls,), 900))
        js.append((h_getitem_range, (cls,), 900))
    return js


# ---------------------------------------------------------------------------------------------- getitem_at_nowrap
def _index_at_stub(eng, fr, ins, st, name, argv):
    """kernel::index_getitem_at_nowrap<int64_t>(lib::cpu, ptr, at): the cpu arm of the dispatcher calls awkward_Index64_getitem_at_nowrap"""
    out = eng.call('awkward_Index64_getitem_at_nowrap', [argv[1], argv[2]], st.mem, st.pc, st.trace)
    st.mem = out.mem
    return out.ret


DRIVER2 = r'''
#include <cstdio>
#include <cstdlib>
#include <cstring>
#include <string>
#include <stdexcept>
#include <new>
#include "awkward/common.h"
namespace awkward { class Identities; namespace util {
  void handle_error(const struct Error& err, const std::string& classname, const Identities* id) {
    if (err.str != nullptr) throw std::invalid_argument(err.str);
  } } }
static long rec_n = 0, rec_a = 0, rec_b = 0, lencontent = 0;
extern "C" void vf_trap() { printf("{\"outcome\": \"unexpected-virtual-call\"}\n"); exit(3); }
extern "C" void vf_classname(std::string* sret, void* self) { new (sret) std::string("TestDouble"); }
extern "C" long vf_clength(void* self) { return lencontent; }
extern "C" void vf_crange(void* sret, void* self, long a, long b) { rec_n++; rec_a = a; rec_b = b; memset(sret, 0, 16); }
void method1(void* sret, void* self, long a) asm("%(sym)s");
int main(int argc, char** argv) {
  long at = atol(argv[1]); lencontent = atol(argv[2]); long ioff = atol(argv[3]); int n = atoi(argv[4]);
  void* vt[%(nslots)d]; void* cvt[%(nslots)d];
  for (int i = 0; i < %(nslots)d; i++) { vt[i] = (void*)vf_trap; cvt[i] = (void*)vf_trap; }
  vt[%(slot_classname)d] = (void*)vf_classname; cvt[%(slot_length)d] = (void*)vf_clength; cvt[%(slot_range_nowrap)d] = (void*)vf_crange;
  char* obj = (char*)calloc(1, %(objsize)d + 64);
  *(void**)obj = (void*)vt;
  void** content = (void**)calloc(1, 256); content[0] = (void*)cvt;
  *(void**)(obj + %(content_off)d) = (void*)content;
%(setfields)s
  char ret[16];
  try {
    method1(ret, obj, at);
    printf("{\"outcome\": \"ok\", \"calls\": %%ld, \"a\": %%ld, \"b\": %%ld}\n", rec_n, rec_a, rec_b);
  } catch (std::invalid_argument& e) {
    printf("{\"outcome\": \"raised\", \"calls\": %%ld}\n", rec_n);
  }
  return 0;
}
'''


@guard
def h_getitem_at_nowrap(cls, n):
    """list node -> content hand-over: item `at` of a ListOffsetArray64 / ListArray64 is content[start:stop] with (start, stop) =
    (offsets[at], offsets[at+1]) resp. (starts[at], stops[at]) - also for an Index that is itself a view (offset_ != 0) - and an
    invalid list (negative start, start > stop, stop beyond the content) raises instead of reaching the content"""
    src, mangled, short = CLASSES[cls]
    rets = {}
    stubs = make_stubs(rets)
    stubs['_ZN7awkward6kernel23index_getitem_at_nowrapIlEET_NS0_3libEPS2_l'] = _index_at_stub
    m = MCtx([src, IDX, SLC, KU], unwind=4, stubs=stubs)
    at, lencontent, ioff = m.bv('at'), m.bv('lencontent'), m.bv('ioff')
    m.assume(at >= 0, at < n, lencontent >= 0, lencontent <= 2 ** 40, ioff >= 0, ioff <= 2)
    mod = module_of(src)
    slots, nslots = vtable_slots(mod, mangled)
    vt = m.record('fakevt', {8 * k: (Ptr(('func', 'vf$slot%d' % k), 0), 8) for k in range(nslots)}, const=True)
    cvt = m.record('fakevt_c', {8 * k: (Ptr(('func', 'vf$cslot%d' % k), 0), 8) for k in range(nslots)}, const=True)
    m.eng.stubs['vf$cslot*'] = m.eng.stubs['vf$slot*']
    k_len, k_rng = slot_of(slots, short, '6lengthEv'), slot_of(slots, short, '20getitem_range_nowrapEll')
    rets['vf$cslot%d' % k_len] = lencontent
    content = m.record('content', {0: (cvt, 8)}, const=True)
    fn = '_ZNK7awkward%s17getitem_at_nowrapEl' % short
    offs, sz, al, fields = mod.types.struct_layout(struct_of(mod, fn))
    cells = {0: (vt, 8), 8: (NULL, 8), 16: (NULL, 8)}
    setf = []
    if cls == 'ListOffsetArray64':
        data = m.array('offsets', ('i', 64), ioff + n + 1, const=True)
        io = offs[1]
        cells.update({io + 8: (data, 8), io + 16: (NULL, 8), io + 24: (z3.BitVecVal(0, 32), 4), io + 32: (ioff, 8), io + 40: (z3.BitVecVal(n + 1, 64), 8)})
        cells.update({offs[2]: (content, 8), offs[2] + 8: (NULL, 8)})
        a0 = z3.Array('offsets', z3.BitVecSort(64), z3.BitVecSort(64))
        start, stop = z3.Select(a0, ioff + at), z3.Select(a0, ioff + at + 1)
        content_off = offs[2]
        bufs = [('offsets', io, n + 1)]
    else:
        d1 = m.array('starts', ('i', 64), ioff + n, const=True); d2 = m.array('stops', ('i', 64), ioff + n, const=True)
        for io, d in ((offs[1], d1), (offs[2], d2)):
            cells.update({io + 8: (d, 8), io + 16: (NULL, 8), io + 24: (z3.BitVecVal(0, 32), 4), io + 32: (ioff, 8), io + 40: (z3.BitVecVal(n, 64), 8)})
        cells.update({offs[3]: (content, 8), offs[3] + 8: (NULL, 8)})
        start = z3.Select(z3.Array('starts', z3.BitVecSort(64), z3.BitVecSort(64)), ioff + at)
        stop = z3.Select(z3.Array('stops', z3.BitVecSort(64), z3.BitVecSort(64)), ioff + at)
        content_off = offs[3]
        bufs = [('starts', offs[1], n), ('stops', offs[2], n)]
    this = m.record('node', cells, const=True)
    m.record('ret', {})
    out = m.call(fn, [Ptr('ret', 0), this, at])
    raised = z3.simplify(out.raised)
    calls = [(pc, args) for pc, name, args in out.trace if name == 'vf$cslot%d' % k_rng]
    called = z3.Or([pc for pc, a in calls] + [z3.BoolVal(False)])
    invalid = z3.And(start != stop, z3.Or(start < 0, start > stop, stop > lencontent))
    es, ee = z3.If(start == stop, z3.BitVecVal(0, 64), start), z3.If(start == stop, z3.BitVecVal(0, 64), stop)
    obls = [('raises exactly for a list that breaks the documented rule', raised != invalid),
            ('an invalid list never reaches the content', z3.And(invalid, called)),
            ('a valid list is handed to the content', z3.And(z3.Not(invalid), z3.Not(called)))]
    for pc, a in calls:
        obls.append(('the content is asked for [start, stop) of this very list (empty list: [0, 0))', z3.And(pc, z3.Or(a[2] != es, a[3] != ee))))

    def replay(model, ent):
        ev = lambda e: model.eval(e, model_completion=True).as_signed_long()
        A, LC, IO = ev(at), ev(lencontent), ev(ioff)
        setl = []
        vals = {}
        for nm, off, ln in bufs:
            arr0 = z3.Array(nm, z3.BitVecSort(64), z3.BitVecSort(64))
            xs = [ev(z3.Select(arr0, z3.BitVecVal(i, 64))) for i in range(IO + ln)]
            vals[nm] = xs
            setl.append('  { long* d = (long*)malloc(%d * sizeof(long)); %s *(void**)(obj + %d) = d; *(long*)(obj + %d) = ioff; *(long*)(obj + %d) = %d; }' % (
                max(1, len(xs)), ' '.join('d[%d] = %dL;' % (i, v) if abs(v) < 2 ** 62 else 'd[%d] = (long)%dULL;' % (i, v & (2 ** 64 - 1)) for i, v in enumerate(xs)), off + 8, off + 32, off + 40, ln))
        drv = DRIVER2 % dict(sym=fn, nslots=nslots, slot_classname=slot_of(slots, short, '9classname'), slot_length=k_len, slot_range_nowrap=k_rng,
                             objsize=sz, content_off=content_off, setfields='\n'.join(setl))
        exe = build.compile_objs_driver(drv, [src, IDX, SLC, KU, 'src/libawkward/kernel-dispatch.cpp'])
        import json
        r = subprocess.run([exe, str(A), str(LC), str(IO), str(n)], capture_output=True, text=True, timeout=30,
                           env=dict(os.environ, ASAN_OPTIONS='detect_leaks=0', UBSAN_OPTIONS='halt_on_error=1:exitcode=87'), errors='replace')
        try:
            res = json.loads(r.stdout.strip().splitlines()[-1])
        except (ValueError, IndexError):
            return True, 'native method crashed (%d): %s' % (r.returncode, r.stderr[-200:]), vals
        s0, s1 = ev(start), ev(stop)
        bad = s0 != s1 and (s0 < 0 or s0 > s1 or s1 > LC)
        want = (0, 0) if s0 == s1 else (s0, s1)
        payload = dict(at=A, lencontent=LC, index_offset=IO, buffers=vals, native=res)
        if bad and res.get('outcome') != 'raised':
            return True, '%s item %d with (start, stop) = (%d, %d), len(content) = %d: native method %s, the documented rule is broken' % (cls, A, s0, s1, LC, res), payload
        if not bad and (res.get('outcome') != 'ok' or res.get('calls') != 1 or (res.get('a'), res.get('b')) != want):
            return True, '%s item %d with (start, stop) = (%d, %d): native method %s, expected content[%d:%d]' % (cls, A, s0, s1, res, want[0], want[1]), payload
        return False, 'native method agrees (%s)' % res, payload
    return mdischarge(m, '%s::getitem_at_nowrap n=%d' % (cls, n), obls, [('valid non-empty list', z3.And(z3.Not(invalid), start != stop)), ('view offset != 0', ioff > 0)],
                      timeout_ms=60000, replay=replay, prefer=[lencontent <= 100, start >= -100, start <= 100, stop >= -100, stop <= 100],
                      extra=dict(bounds='n=%d lists, Index view offset 0..2, any int64 offsets' % n))


def jobs(tier):
    js = []
    for cls in CLASSES:
        js.append((h_getitem_at, (cls,), 900))
        js.append((h_getitem_range, (cls,), 900))
    for cls in ('ListOffsetArray64', 'ListArray64'):
        for n in (1, 2):
            js.append((h_getitem_at_nowrap, (cls, n), 900))
    return js
