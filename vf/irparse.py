"""Parser for the textual LLVM-14 IR (typed pointers) that clang++-14 emits for /repo sources.

Only what the engine needs: named struct types, globals (constants, vtables), function bodies as
pre-parsed instruction tuples.  Functions are indexed lazily so multi-megabyte libawkward modules are
not parsed whole.
"""
import re

# ------------------------------------------------------------------ small helpers
_OPEN = '([{<'
_CLOSE = ')]}>'


def split_top(s, sep=','):
    """split at top-level separators (not inside () [] {} <> or c"..." strings)"""
    out, depth, cur, i, n = [], 0, [], 0, len(s)
    while i < n:
        ch = s[i]
        if ch == '"':
            j = s.index('"', i + 1)
            cur.append(s[i:j + 1]); i = j + 1; continue
        if ch in _OPEN:
            depth += 1
        elif ch in _CLOSE:
            # '>' also appears in "->"? not in IR. '<' '>' only in vector/packed types.
            depth -= 1
        if ch == sep and depth == 0:
            out.append(''.join(cur).strip()); cur = []
        else:
            cur.append(ch)
        i += 1
    t = ''.join(cur).strip()
    if t:
        out.append(t)
    return out


PARAM_ATTRS = {'noundef', 'nonnull', 'noalias', 'nocapture', 'readonly', 'writeonly', 'zeroext', 'signext',
               'readnone', 'returned', 'immarg', 'inreg', 'nofree', 'nosync', 'nest', 'swiftself', 'inalloca',
               'noreturn', 'nounwind', 'mustprogress', 'allocsize', 'byref', 'preallocated'}


def strip_attrs(tok):
    """'i8* nocapture noundef readonly %p' -> ('i8*', '%p', attrs)"""
    # the type may contain spaces ("[4 x i8]*", "{ i8*, i32 }", "void (i8*)*"): split type from the rest
    ty, rest = take_type(tok)
    parts = rest.split()
    keep, attrs, skip = [], [], False
    for p in parts:
        if skip:
            skip = False; continue
        if p == 'align':
            skip = True; continue
        if p in PARAM_ATTRS:
            attrs.append(p); continue
        if p.startswith(('dereferenceable', 'sret(', 'byval(', 'align(', 'dereferenceable_or_null', 'byref(',
                         'elementtype(', 'allocsize(')):
            attrs.append(p); continue
        keep.append(p)
    return ty, ' '.join(keep), attrs


def take_type(s):
    """split 'TYPE rest' -> (TYPE, rest) for LLVM types with nested brackets and pointer/function suffixes"""
    s = s.lstrip()
    i, n = 0, len(s)

    def skip_group(i):
        depth = 0
        while i < n:
            ch = s[i]
            if ch in _OPEN:
                depth += 1
            elif ch in _CLOSE:
                depth -= 1
                if depth == 0:
                    return i + 1
            i += 1
        raise ValueError('unbalanced type in ' + s)

    if s[i] in '[{<':
        i = skip_group(i)
    elif s[i] == '%' or s[i].isalpha():
        if s[i] == '%' and i + 1 < n and s[i + 1] == '"':
            i = s.index('"', i + 2) + 1
        else:
            while i < n and (s[i].isalnum() or s[i] in '%._$-:'):
                i += 1
    else:
        raise ValueError('type? ' + s)
    # suffixes: '*', ' (args)' function type followed by '*'
    while i < n:
        if s[i] == '*':
            i += 1
        elif s[i] == ' ' and i + 1 < n and s[i + 1] == '(':
            j = skip_group(i + 1)
            # function type only if followed by '*'
            if j < n and s[j] == '*':
                i = j
            else:
                break
        elif s[i] == '(':
            j = skip_group(i)
            if j < n and s[j] == '*':
                i = j
            else:
                break
        else:
            break
    return s[:i], s[i:].lstrip()


# ------------------------------------------------------------------ types / layout (x86-64 SysV)
class Types:
    def __init__(self):
        self.named = {}       # '%struct.X' -> body string '{ i8*, i64 }' or 'opaque'
        self._lay = {}

    def resolve(self, t):
        t = t.strip()
        while t in self.named:
            t = self.named[t]
        return t

    def size_align(self, t):
        t = t.strip()
        if t.endswith('*'):
            return 8, 8
        m = re.match(r'^i(\d+)$', t)
        if m:
            b = int(m.group(1))
            sz = max(1, (b + 7) // 8)
            # round to power of two
            p = 1
            while p < sz:
                p *= 2
            return p, min(p, 8) if p <= 8 else 16
        if t == 'float':
            return 4, 4
        if t == 'double':
            return 8, 8
        if t == 'x86_fp80':
            return 16, 16
        if t in self.named:
            return self.size_align(self.named[t])
        if t.startswith('['):
            m = re.match(r'^\[(\d+) x (.*)\]$', t)
            n, et = int(m.group(1)), m.group(2)
            s, a = self.size_align(et)
            return n * s, a
        if t.startswith('<{'):
            fs = split_top(t[2:-2])
            return sum(self.size_align(f)[0] for f in fs), 1
        if t.startswith('{'):
            offs, size, al, _f = self.struct_layout(t)
            return size, al
        if t == 'opaque':
            raise ValueError('opaque type has no size')
        raise ValueError('size of ' + t)

    def struct_layout(self, t):
        """-> (field offsets, size, align) for a literal or named struct"""
        key = t
        if key in self._lay:
            return self._lay[key]
        body = self.resolve(t)
        packed = body.startswith('<{')
        inner = body[2:-2] if packed else body[1:-1]
        fields = split_top(inner) if inner.strip() else []
        off, offs, al = 0, [], 1
        for f in fields:
            s, a = self.size_align(f)
            if packed:
                a = 1
            off = (off + a - 1) // a * a
            offs.append(off); off += s; al = max(al, a)
        size = (off + al - 1) // al * al
        self._lay[key] = (offs, size, al, fields)
        return self._lay[key]

    def fields(self, t):
        return self.struct_layout(t)[3]


# ------------------------------------------------------------------ module
class Func:
    __slots__ = ('name', 'ret', 'params', 'blocks', 'order', 'text', 'attrs')

    def __init__(self, name, ret, params):
        self.name, self.ret, self.params = name, ret, params
        self.blocks, self.order = {}, []


_RE_DEFINE = re.compile(r'^define .*?@([\w.$]+|"[^"]+")\(')
_RE_MD = re.compile(r'(, ![\w.]+ ![\w.]+|, ![\w.]+ !\{[^}]*\})+$')
_RE_TRAIL_ATTR = re.compile(r' #\d+$')


class Module:
    def __init__(self, text):
        self.text = text
        self.types = Types()
        self.globals = {}     # '@name' -> (type, initializer string or None, is_constant)
        self.func_src = {}    # name -> (start line idx, end line idx)
        self.declared = set()
        self.funcs = {}
        self.lines = text.split('\n')
        self._index()

    def _index(self):
        lines = self.lines
        i, n = 0, len(lines)
        while i < n:
            ln = lines[i]
            if ln.startswith('define '):
                m = _RE_DEFINE.match(ln)
                name = m.group(1).strip('"')
                j = i + 1
                while lines[j] != '}':
                    j += 1
                self.func_src[name] = (i, j)
                i = j
            elif ln.startswith('declare '):
                m = re.search(r'@([\w.$]+|"[^"]+")\(', ln)
                if m:
                    self.declared.add(m.group(1).strip('"'))
            elif ln.startswith('%') and ' = type ' in ln:
                nm, body = ln.split(' = type ', 1)
                self.types.named[nm.strip()] = body.strip()
            elif ln.startswith('@'):
                self._global(ln)
            i += 1

    def _global(self, ln):
        m = re.match(r'^(@[\w.$]+|@"[^"]+") = (.*)$', ln)
        if not m:
            return
        name, rest = m.group(1), m.group(2)
        toks = rest.split(' ')
        k = 0
        while k < len(toks) and toks[k] not in ('global', 'constant', 'alias', 'ifunc'):
            k += 1
        if k >= len(toks) or toks[k] in ('alias', 'ifunc'):
            return
        isconst = toks[k] == 'constant'
        body = ' '.join(toks[k + 1:])
        try:
            ty, init = take_type(body)
        except ValueError:
            return
        init = re.sub(r', (align \d+|comdat.*|section .*|!dbg.*)$', '', init)
        init = re.sub(r', align \d+.*$', '', init)
        self.globals[name.replace('"', '')] = (ty, init.strip() or None, isconst)

    def has(self, name):
        return name in self.func_src

    def func(self, name):
        f = self.funcs.get(name)
        if f is None:
            f = self._parse_func(name)
            self.funcs[name] = f
        return f

    def _parse_func(self, name):
        a, b = self.func_src[name]
        ln = self.lines[a]
        head = ln[:ln.index('@')]
        # parameters: text between the '(' after the name and its matching ')'
        st = ln.index('(', ln.index('@'))
        depth, k = 0, st
        while True:
            if ln[k] == '(':
                depth += 1
            elif ln[k] == ')':
                depth -= 1
                if depth == 0:
                    break
            k += 1
        params = []
        for tok in split_top(ln[st + 1:k]):
            if tok == '...':
                continue
            ty, nm, attrs = strip_attrs(tok)
            params.append((ty, nm, attrs))
        # return type = last type-looking token(s) of head
        rty = _ret_type(head)
        f = Func(name, rty, params)
        f.attrs = ln[k + 1:]
        cur = None
        body_lines = []
        pending = None
        for l in self.lines[a + 1:b]:
            if pending is not None:          # multi-line switch: join up to the closing bracket
                pending += ' ' + l.strip()
                if l.strip().startswith(']'):
                    body_lines.append(pending); pending = None
                continue
            if l.lstrip().startswith('switch ') and l.rstrip().endswith('['):
                pending = l.rstrip()
                continue
            if l.lstrip().startswith('to label ') and body_lines:      # second line of an invoke
                body_lines[-1] = body_lines[-1].rstrip() + ' ' + l.strip()
                continue
            body_lines.append(l)
        for l in body_lines:
            if not l or l.startswith(';'):
                continue
            if l[0] != ' ':
                mm = re.match(r'^("[^"]+"|[\w.$-]+):', l)
                cur = mm.group(1).strip('"')
                f.blocks[cur] = []; f.order.append(cur)
                continue
            if cur is None:
                cur = '%entry0'
                f.blocks[cur] = []; f.order.append(cur)
            l = l.strip()
            if l.startswith(';'):
                continue
            ins = parse_instr(l)
            if ins.op == 'nop' and f.blocks[cur] and f.blocks[cur][-1].op == 'landingpad' and l.split()[0] in ('catch', 'cleanup', 'filter'):
                # clause line of the landingpad above: keep the caught typeinfo symbols (None = catch-all) in clause order
                lp = f.blocks[cur][-1]
                cl = list(lp.a or [])
                if l.startswith('catch'):
                    mm = re.search(r'@(_ZTI[\w$.]+)', l)
                    cl.append(('catch', mm.group(1) if mm else None))
                elif l.startswith('filter'):
                    cl.append(('filter', None))
                else:
                    cl.append(('cleanup', None))
                f.blocks[cur][-1] = Ins(lp.op, lp.dst, cl, lp.text)
                continue
            f.blocks[cur].append(ins)
        return f


def _ret_type(head):
    # 'define linkonce_odr dso_local noundef i64 ' -> 'i64'; may be '{ i64, i64 }' or '%struct.X*'
    h = head[len('define'):].strip()
    words = {'dso_local', 'internal', 'linkonce_odr', 'weak_odr', 'hidden', 'noundef', 'nonnull', 'zeroext',
             'signext', 'private', 'available_externally', 'linkonce', 'weak', 'external', 'protected',
             'default', 'unnamed_addr', 'local_unnamed_addr', 'noalias', 'fastcc', 'ccc', 'coldcc', 'dso_preemptable'}
    while True:
        h = h.lstrip()
        m = re.match(r'^([\w.]+)(\(\d+\))?\s', h + ' ')
        if m and (m.group(1) in words or m.group(1).startswith(('dereferenceable', 'align'))):
            h = h[m.end():]
            if m.group(1) == 'align' and not m.group(2):
                h = h.lstrip(); h = h[h.index(' ') + 1:] if ' ' in h else ''
            continue
        break
    return take_type(h)[0] if h else 'void'


# ------------------------------------------------------------------ instruction parsing
class Ins:
    __slots__ = ('op', 'dst', 'a', 'text')

    def __init__(self, op, dst, a, text):
        self.op, self.dst, self.a, self.text = op, dst, a, text

    def __repr__(self):
        return self.text


_BIN = {'add', 'sub', 'mul', 'and', 'or', 'xor', 'shl', 'lshr', 'ashr', 'sdiv', 'udiv', 'srem', 'urem'}
_FBIN = {'fadd', 'fsub', 'fmul', 'fdiv', 'frem'}
_CAST = {'sext', 'zext', 'trunc', 'bitcast', 'ptrtoint', 'inttoptr', 'sitofp', 'uitofp', 'fptosi', 'fptoui',
         'fpext', 'fptrunc', 'addrspacecast'}
_FLAGS = {'nuw', 'nsw', 'exact', 'inbounds', 'fast', 'nnan', 'ninf', 'nsz', 'arcp', 'contract', 'afn', 'reassoc',
          'volatile', 'atomic'}


def _strip_md(l):
    # remove trailing metadata attachments and attribute group refs
    while True:
        k = l.rfind(', !')
        if k < 0:
            break
        tail = l[k + 2:]
        if re.match(r'^![\w.]+ (![\w.]+|!\{.*\}|!DIExpression\(.*\))$', tail):
            l = l[:k]
        else:
            break
    l = _RE_TRAIL_ATTR.sub('', l)
    return l


def parse_instr(l):
    text = l
    l = _strip_md(l)
    dst = None
    m = re.match(r'^(%[\w.$-]+|%"[^"]+") = (.*)$', l)
    if m:
        dst, l = m.group(1), m.group(2)
    op = l.split(' ', 1)[0]
    rest = l[len(op):].strip()
    if op in ('tail', 'notail', 'musttail'):
        op2 = rest.split(' ', 1)[0]
        rest = rest[len(op2):].strip(); op = op2
    if op in _BIN or op in _FBIN:
        flags = []
        while rest.split(' ', 1)[0] in _FLAGS:
            w = rest.split(' ', 1)[0]; flags.append(w); rest = rest[len(w):].strip()
        ty, r2 = take_type(rest)
        a, b = split_top(r2)
        return Ins(op, dst, (ty, a, b, tuple(flags)), text)
    if op == 'fneg':
        while rest.split(' ', 1)[0] in _FLAGS:
            rest = rest.split(' ', 1)[1]
        ty, r2 = take_type(rest)
        return Ins(op, dst, (ty, r2.strip()), text)
    if op in ('icmp', 'fcmp'):
        while rest.split(' ', 1)[0] in _FLAGS:
            rest = rest.split(' ', 1)[1]
        pred, r2 = rest.split(' ', 1)
        ty, r3 = take_type(r2)
        a, b = split_top(r3)
        return Ins(op, dst, (pred, ty, a, b), text)
    if op in _CAST:
        ty, r2 = take_type(rest)
        k = r2.rfind(' to ')
        return Ins(op, dst, (ty, r2[:k].strip(), r2[k + 4:].strip()), text)
    if op == 'select':
        parts = split_top(rest)
        while parts[0].split(' ', 1)[0] in _FLAGS:
            parts[0] = parts[0].split(' ', 1)[1]
        cty, c = take_type(parts[0])
        ty, a = take_type(parts[1])
        _, b = take_type(parts[2])
        return Ins(op, dst, (cty, c, ty, a, b), text)
    if op == 'alloca':
        parts = split_top(rest)
        ty = parts[0]
        if ty.startswith('inalloca '):
            ty = ty[9:]
        cnt = None
        for p in parts[1:]:
            if not p.startswith('align') and not p.startswith('addrspace'):
                cnt = take_type(p)
        return Ins(op, dst, (ty, cnt), text)
    if op == 'getelementptr':
        if rest.startswith('inbounds '):
            rest = rest[9:]
        parts = split_top(rest)
        ety = parts[0]
        pty, base = take_type(parts[1])
        idx = [take_type(p) for p in parts[2:]]
        return Ins(op, dst, (ety, pty, base, idx), text)
    if op == 'load':
        while rest.split(' ', 1)[0] in ('volatile', 'atomic'):
            rest = rest.split(' ', 1)[1]
        parts = split_top(rest)
        ty = parts[0]
        pty, p = take_type(parts[1])
        return Ins(op, dst, (ty, pty, p.split(' ')[0] if not p.startswith(('getelementptr', 'bitcast')) else p), text)
    if op == 'store':
        while rest.split(' ', 1)[0] in ('volatile', 'atomic'):
            rest = rest.split(' ', 1)[1]
        parts = split_top(rest)
        ty, v = take_type(parts[0])
        pty, p = take_type(parts[1])
        return Ins(op, dst, (ty, v, pty, p.split(' ')[0] if not p.startswith(('getelementptr', 'bitcast')) else p), text)
    if op == 'br':
        if rest.startswith('label'):
            return Ins('jmp', None, (rest.split('%', 1)[1].strip('"'),), text)
        parts = split_top(rest)
        c = parts[0].split(' ', 1)[1]
        return Ins('br', None, (c, _lab(parts[1]), _lab(parts[2])), text)
    if op == 'switch':
        m = re.match(r'^(\S+) ([^,]+), label (%[\w.$-]+|%"[^"]+") \[(.*)\]$', rest, re.S)
        ty, v, dflt, body = m.groups()
        cases = re.findall(r'\S+ (-?\d+), label (%[\w.$-]+|%"[^"]+")', body)
        return Ins(op, None, (ty, v, dflt[1:].strip('"'), [(int(c), lb[1:].strip('"')) for c, lb in cases]), text)
    if op == 'ret':
        if rest == 'void':
            return Ins(op, None, None, text)
        ty, v = take_type(rest)
        return Ins(op, None, (ty, v), text)
    if op == 'phi':
        while rest.split(' ', 1)[0] in _FLAGS:
            rest = rest.split(' ', 1)[1]
        ty, r2 = take_type(rest)
        inc = []
        for part in split_top(r2):
            inner = part.strip()[1:-1]
            v, lb = [x.strip() for x in split_top(inner)]
            inc.append((v, lb[1:].strip('"')))
        return Ins(op, dst, (ty, inc), text)
    if op in ('call', 'invoke'):
        return _parse_call(op, dst, rest, text)
    if op == 'atomicrmw':
        if rest.startswith('volatile '):
            rest = rest[9:]
        bop, r2 = rest.split(' ', 1)
        parts = split_top(r2)
        pty, p = take_type(parts[0])
        ty, v = take_type(parts[1])
        return Ins(op, dst, (bop, pty, p.split(' ')[0], ty, v.split(' ')[0]), text)
    if op == 'cmpxchg':
        for w in ('weak ', 'volatile '):
            if rest.startswith(w):
                rest = rest[len(w):]
        if rest.startswith('volatile '):
            rest = rest[9:]
        parts = split_top(rest)
        pty, p = take_type(parts[0])
        ty, c = take_type(parts[1])
        ty2, n = take_type(parts[2])
        return Ins(op, dst, (pty, p.split(' ')[0], ty, c.split(' ')[0], n.split(' ')[0]), text)
    if op == 'fence':
        return Ins('nop', None, None, text)
    if op == 'unreachable':
        return Ins(op, None, None, text)
    if op == 'extractvalue':
        parts = split_top(rest)
        ty, v = take_type(parts[0])
        return Ins(op, dst, (ty, v, [int(x) for x in parts[1:]]), text)
    if op == 'insertvalue':
        parts = split_top(rest)
        ty, v = take_type(parts[0])
        ety, e = take_type(parts[1])
        return Ins(op, dst, (ty, v, ety, e, [int(x) for x in parts[2:]]), text)
    if op == 'landingpad':
        return Ins(op, dst, None, text)
    if op == 'resume':
        return Ins(op, None, None, text)
    if op == 'freeze':
        ty, v = take_type(rest)
        return Ins(op, dst, (ty, v), text)
    if op in ('cleanup', 'catch', 'filter'):
        return Ins('nop', None, None, text)
    return Ins('unknown', dst, (op, rest), text)


def _lab(s):
    return s.split('%', 1)[1].strip('"')


_CALL_WORDS = {'fastcc', 'ccc', 'coldcc', 'noundef', 'nonnull', 'zeroext', 'signext', 'noalias', 'nnan', 'ninf',
               'nsz', 'arcp', 'contract', 'afn', 'reassoc', 'fast', 'inreg'}


def _parse_call(op, dst, rest, text):
    while True:
        w = rest.split(' ', 1)[0]
        if w in _CALL_WORDS or w.startswith(('dereferenceable', 'align')):
            rest = rest[len(w):].strip()
            if w == 'align':
                rest = rest.split(' ', 1)[1]
            continue
        break
    rty, r2 = take_type(rest)
    # callee: @name, %reg, or constant expr (bitcast ...)
    r2 = r2.lstrip()
    if r2.startswith('('):                 # full function type of a varargs callee: 'i32 (i8*, ...) @printf(...)'
        depth, k = 0, 0
        while True:
            if r2[k] == '(':
                depth += 1
            elif r2[k] == ')':
                depth -= 1
                if depth == 0:
                    break
            k += 1
        r2 = r2[k + 1:].lstrip()
    if r2.startswith('@') or r2.startswith('%'):
        k = r2.index('(')
        callee = r2[:k].strip().replace('"', '')
    else:
        # 'bitcast (TYPE @f to TYPE)(args)'
        depth, k = 0, r2.index('(')
        while True:
            if r2[k] == '(':
                depth += 1
            elif r2[k] == ')':
                depth -= 1
                if depth == 0:
                    break
            k += 1
        cexpr = r2[:k + 1]
        m = re.search(r'(@[\w.$]+)', cexpr)
        callee = m.group(1) if m else cexpr
        k = k + 1
    # argument list
    depth, j = 0, k
    while True:
        if r2[j] == '(':
            depth += 1
        elif r2[j] == ')':
            depth -= 1
            if depth == 0:
                break
        j += 1
    args = []
    for tok in split_top(r2[k + 1:j]):
        if tok.startswith('metadata'):
            args.append(('metadata', tok, []))
            continue
        ty, v, attrs = strip_attrs(tok)
        args.append((ty, v, attrs))
    tail = r2[j + 1:]
    normal = unwind = None
    if op == 'invoke':
        m = re.search(r'to label (%[\w.$-]+|%"[^"]+") unwind label (%[\w.$-]+|%"[^"]+")', tail)
        normal, unwind = m.group(1)[1:].strip('"'), m.group(2)[1:].strip('"')
    return Ins(op, dst, (rty, callee, args, normal, unwind), text)
