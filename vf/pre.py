"""Precondition vocabulary (DESIGN 2.3): the documented structural rules of docs-sphinx/ak.layout.*.rst,
stated once in z3 and attached to kernel arguments by name for the generic C13 harness.

Every rule is the reference constructor's assertion, nothing stronger:
  ListArray / ListOffsetArray:  start == stop  or  (0 <= start < stop <= len(content))
  IndexedArray:                 0 <= index < len(content);  IndexedOptionArray: index < len(content)
  UnionArray:                   0 <= tag < len(contents), 0 <= index < len(contents[tag])
  RegularArray:                 size >= 0
Lengths and sizes are non-negative and below 2**40 (a stated bound, not a documented rule).
"""
import re
import z3

BIG = 1 << 40


def list_rule(start, stop, lencontent=None):
    ok = z3.And(start >= 0, start < stop)
    if lencontent is not None:
        ok = z3.And(ok, stop <= lencontent)
    return z3.Or(start == stop, ok)


LENGTHLIKE = re.compile(r'^(len\w*|\w*length|\w*len|\w*size|size|n|maxcount|numcontents|ndim|width|fromwidth|repetitions|'
                        r'maxlevels|carrylen|nextlen|lencontent)$')
NOT_LENGTH = {'n': False}


def is_lengthlike(name):
    return bool(LENGTHLIKE.match(name))


PAIRS = [('fromstarts', 'fromstops'), ('starts', 'stops'), ('slicestarts', 'slicestops'), ('starts_in', 'stops_in'),
         ('multistarts', 'multistops'), ('stringstarts', 'stringstops'), ('tmpbeg', 'tmpend')]


def for_spec(ctx, sp, N, spec=None, pmap=None):
    """premises for one specialization; returns (list of z3 Bool, list of human-readable rule names)"""
    prem, names = [], []
    argn = {a.name: a for a in sp.args}
    lencontent = None
    if 'lencontent' in argn and argn['lencontent'].depth == 0:
        from .kharness import widen
        lencontent = widen(ctx.scalars['lencontent'][0], True)
    # scalars
    for a in sp.args:
        if a.depth == 0 and a.kind == 'i' and is_lengthlike(a.name):
            v = ctx.scalars[a.name][0]
            from .kharness import widen
            w = widen(v, a.signed)
            prem.append(z3.And(w >= 0, w <= BIG))
            names.append('0 <= %s <= 2^40' % a.name)
    # starts/stops pairs
    for s_, e_ in PAIRS:
        if s_ in argn and e_ in argn and argn[s_].depth == 1 and argn[e_].depth == 1 and argn[s_].dir != 'out':
            for k in range(N + 2):
                inb = z3.And(k < ctx.arrays[s_].cap, k < ctx.arrays[e_].cap)
                prem.append(z3.Implies(inb, list_rule(ctx.init(s_, k), ctx.init(e_, k))))
            names.append('ListArray rule on (%s[i], %s[i])' % (s_, e_))
    # offsets
    for a in sp.args:
        if a.depth == 1 and a.dir != 'out' and a.kind == 'i' and re.search(r'offsets', a.name) and a.name != 'offsetsraws':
            for k in range(N + 2):
                inb = k + 1 < ctx.arrays[a.name].cap
                prem.append(z3.Implies(inb, list_rule(ctx.init(a.name, k), ctx.init(a.name, k + 1))))
            names.append('ListOffsetArray rule on consecutive %s' % a.name)
    return prem, names
