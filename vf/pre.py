"""Precondition vocabulary (DESIGN 2.3): documented structural rules attached to kernel arguments by name."""
import re
import z3


def for_spec(ctx, sp, N):
    prem = []
    return prem
