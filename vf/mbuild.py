"""C14 at the builder-tree level (M-harness): one step of RecordBuilder / ListBuilder / OptionBuilder from an arbitrary state that satisfies
the builder's representation invariant, with opaque child builders (test doubles whose virtual methods are observation points).
Decided: the step re-establishes the invariant the snapshot relies on (every field has exactly one entry per closed record; offsets grow
by the number of items appended)."""
import itertools, z3
from . import runner, nodeh, build
from .nodeh import BV, SRC, COMMON_STUBS
from .mharness import MCtx, mdischarge, module_of
from .cpp01 import struct_of, vtable_slots
from .oracle import guard
from .llbmc import Ptr, NULL, Unsupported, State, ptr_cases

RB = 'src/libawkward/builder/RecordBuilder.cpp'


def builder_slots():
    slots, n = vtable_slots(module_of(RB), 'N7awkward13RecordBuilderE')
    out = {}
    for s, k in slots.items():
        m = s.split('RecordBuilder')[-1]
        out[m] = k
    return out, n


NATIVE_PREFIX = r'''
#include <cstdio>
#include <cstdlib>
#include <cstring>
#include <vector>
#include <string>
#include <memory>
#include <stdexcept>
#include <sstream>
#include <iostream>
#include <map>
#include <set>
#include <complex>
#include <mutex>
#include <functional>
#include <algorithm>
#include <typeinfo>
#define private public
#define protected public
#include "awkward/builder/ArrayBuilderOptions.h"
#include "awkward/builder/Builder.h"
#include "awkward/builder/RecordBuilder.h"
#include "awkward/builder/ListBuilder.h"
#include "awkward/builder/OptionBuilder.h"
#include "awkward/builder/GrowableBuffer.h"
#undef private
#undef protected
using namespace awkward;
// test double: a field builder that only counts its entries
class Count : public Builder {
public:
  int64_t n; bool act;
  Count(int64_t n0): n(n0), act(false) { }
  const std::string classname() const override { return "Count"; }
  int64_t length() const override { return n; }
  void clear() override { n = 0; }
  const ContentPtr snapshot() const override { return ContentPtr(nullptr); }
  bool active() const override { return act; }
  const BuilderPtr null() override { n++; return shared_from_this(); }
  const BuilderPtr boolean(bool) override { n++; return shared_from_this(); }
  const BuilderPtr integer(int64_t) override { n++; return shared_from_this(); }
  const BuilderPtr real(double) override { n++; return shared_from_this(); }
  const BuilderPtr complex(std::complex<double>) override { n++; return shared_from_this(); }
  const BuilderPtr datetime(int64_t, const std::string&) override { n++; return shared_from_this(); }
  const BuilderPtr timedelta(int64_t, const std::string&) override { n++; return shared_from_this(); }
  const BuilderPtr string(const char*, int64_t, const char*) override { n++; return shared_from_this(); }
  const BuilderPtr beginlist() override { return shared_from_this(); }
  const BuilderPtr endlist() override { return shared_from_this(); }
  const BuilderPtr begintuple(int64_t) override { return shared_from_this(); }
  const BuilderPtr index(int64_t) override { return shared_from_this(); }
  const BuilderPtr endtuple() override { return shared_from_this(); }
  const BuilderPtr beginrecord(const char*, bool) override { return shared_from_this(); }
  const BuilderPtr field(const char*, bool) override { return shared_from_this(); }
  const BuilderPtr endrecord() override { return shared_from_this(); }
  const BuilderPtr append(const ContentPtr&, int64_t) override { n++; return shared_from_this(); }
};
'''

NATIVE = NATIVE_PREFIX + r'''
int main(int argc, char** argv) {
  // argv: k length nextindex nexttotry begun  len_0 .. len_{k-1}
  int k = atoi(argv[1]); int64_t length = atoll(argv[2]), nextindex = atoll(argv[3]), nexttotry = atoll(argv[4]); bool begun = atoi(argv[5]) != 0;
  std::vector<BuilderPtr> contents; std::vector<std::string> keys; std::vector<const char*> ptrs;
  static const char* names[] = {"a", "b", "c", "d", "e", "f"};
  for (int i = 0; i < k; i++) { contents.push_back(std::make_shared<Count>(atoll(argv[6 + i]))); keys.push_back(names[i]); ptrs.push_back(names[i]); }
  ArrayBuilderOptions opts(8, 1.5);
  std::shared_ptr<RecordBuilder> rb = std::make_shared<RecordBuilder>(opts, contents, keys, ptrs, "", nullptr, length, begun, nextindex, nexttotry);
  try {
    rb->endrecord();
    printf("{\"outcome\": \"ok\", \"length\": %lld, \"begun\": %d, \"fields\": [", (long long)rb->length_, (int)rb->begun_);
    for (int i = 0; i < k; i++) printf("%s%lld", i ? ", " : "", (long long)rb->contents_[i].get()->length());
    printf("]}\n");
  } catch (std::invalid_argument& e) { printf("{\"outcome\": \"raised\"}\n"); }
  fflush(stdout); _Exit(0);
}
'''


def native_endrecord(k, length, nextindex, nexttotry, begun, lens):
    import subprocess, os, json
    exe = build.compile_objs_driver(NATIVE, [RB, 'src/libawkward/builder/Builder.cpp', 'src/libawkward/builder/ArrayBuilderOptions.cpp'])
    r = subprocess.run([exe, str(k), str(length), str(nextindex), str(nexttotry), str(int(begun))] + [str(x) for x in lens], capture_output=True, text=True, timeout=30,
                       env=dict(os.environ, ASAN_OPTIONS='detect_leaks=0', UBSAN_OPTIONS='halt_on_error=1:exitcode=87'), errors='replace')
    try:
        return json.loads(r.stdout.strip().splitlines()[-1])
    except (ValueError, IndexError):
        return dict(outcome='crash(%d)' % r.returncode, log=r.stderr[-300:])


@guard
def h_record_endrecord(k, pattern):
    """RecordBuilder::endrecord from any state with an open record whose fields were filled at most once (pattern[i] = field i already has
    its entry for this record): afterwards every field builder has exactly length_ + 1 entries (the missing ones received null()), the
    record count grew by one and the record is closed - for every value of the key-search cursor nexttotry_"""
    pattern = tuple(bool(x) for x in pattern)
    slots, nslots = builder_slots()
    mod = module_of(RB)
    fo, sz, al, fields = mod.types.struct_layout(struct_of(mod, '_ZN7awkward13RecordBuilder9endrecordEv'))
    kids = {}

    def kid_of(p, st, eng):
        cs = [(g, q) for g, q in ptr_cases(p) if q.obj is not None]
        if len(cs) != 1:
            raise Unsupported('field builder pointer is not a single object')
        return cs[0][1].obj

    def s_length(eng, fr, ins, st, name, argv):
        return st.mem.o[kid_of(argv[0], st, eng)].cells[32][0]

    def s_active(eng, fr, ins, st, name, argv):
        return z3.BitVecVal(0, 1)

    def s_null(eng, fr, ins, st, name, argv):
        sret, selfp = argv
        nm = kid_of(selfp, st, eng)
        o = st.mem.o[nm]
        o.cells[32] = (z3.simplify(o.cells[32][0] + 1), 8)
        st.trace = st.trace + ((st.pc, 'null', (nm,)),)
        rec = st.mem.o[sret.obj]
        rec.cells[sret.off] = (Ptr(nm, 0), 8)
        rec.cells[sret.off + 8] = (NULL, 8)
        return None
    stubs = dict(COMMON_STUBS)
    stubs.update({'vf$slot%d' % slots['6lengthEv']: s_length, 'vf$slot%d' % slots['6activeEv']: s_active, 'vf$slot%d' % slots['4nullEv']: s_null,
                  '_ZN7awkward4util5quoteERKNSt7__cxx1112basic_stringIcSt11char_traitsIcESaIcEEE': nodeh.s_empty_string,
                  '_ZNSt7__cxx1112basic_stringIcSt11char_traitsIcESaIcEEC1EPKcRKS3_': nodeh.s_empty_string, '_ZNSt7__cxx1112basic_stringIcSt11char_traitsIcESaIcEEC2EPKcRKS3_': nodeh.s_empty_string,
                  '_ZStplIcSt11char_traitsIcESaIcEENSt7__cxx1112basic_stringIT_T0_T1_EE*': nodeh.s_empty_string,
                  '_ZNSt16invalid_argumentC1ERKNSt7__cxx1112basic_stringIcSt11char_traitsIcESaIcEEE': lambda *a: None})
    m = MCtx([RB], unwind=k + 4, stubs=stubs)
    m.record('fakevt', {8 * j: (Ptr(('func', 'vf$slot%d' % j), 0), 8) for j in range(nslots)}, const=True)
    length, nexttotry = m.bv('length'), m.bv('nexttotry')
    m.assume(length >= 0, length <= 2 ** 40, nexttotry >= 0, nexttotry <= k)
    parr = []
    for i in range(k):
        m.record('field%d' % i, {0: (Ptr('fakevt', 0), 8), 8: (NULL, 8), 16: (NULL, 8), 32: (length + (1 if pattern[i] else 0), 8)})
        parr += [Ptr('field%d' % i, 0), NULL]
    contents = m.array('contents', ('ptr', 64), 2 * k, arr=parr)
    st0 = State({}, m.mem, z3.BoolVal(True))
    vt = m.eng.global_ptr(st0, '@_ZTVN7awkward13RecordBuilderE', mod)
    # enable_shared_from_this: weak_this -> control block with use_count 1
    m.record('ctrl', {0: (NULL, 8), 8: (z3.BitVecVal(1, 32), 4), 12: (z3.BitVecVal(1, 32), 4)})
    cells = {0: (Ptr(vt.obj, 16), 8), 8: (Ptr('rb', 0), 8), 16: (Ptr('ctrl', 0), 8),
             fo[1]: (BV(8), 8), fo[1] + 8: (z3.FPVal(1.5, z3.Float64()), 8),
             fo[2]: (contents, 8), fo[2] + 8: (Ptr('contents', BV(2 * k)), 8), fo[2] + 16: (Ptr('contents', BV(2 * k)), 8),
             fo[7]: (length, 8), fo[8]: (z3.BitVecVal(1, 8), 1), fo[9]: (BV(-1), 8), fo[10]: (nexttotry, 8), fo[11]: (BV(k), 8)}
    this = m.record('rb', cells)
    m.record('ret', {})
    out = m.call('_ZN7awkward13RecordBuilder9endrecordEv', [Ptr('ret', 0), this])
    obls = [('closing a record whose fields were filled at most once does not raise', out.raised)]
    ok = z3.Not(out.raised)
    obls.append(('the record count grows by one', z3.And(ok, m.cell('rb', fo[7]) != length + 1)))
    obls.append(('the record is closed', z3.And(ok, m.cell('rb', fo[8]) != 0)))
    for i in range(k):
        obls.append(('field %d has exactly one entry per closed record (a missing field received null())' % i, z3.And(ok, m.mem.o['field%d' % i].cells[32][0] != length + 1)))

    def replay(model, ent):
        ev = lambda e: model.eval(e, model_completion=True).as_signed_long()
        L, NT = ev(length), ev(nexttotry)
        lens = [L + (1 if p else 0) for p in pattern]
        res = native_endrecord(k, L, -1, NT, True, lens)
        payload = dict(fields=k, filled=list(pattern), length=L, nexttotry=NT, native=res)
        if res.get('outcome') != 'ok' or res.get('length') != L + 1 or res.get('begun') != 0 or res.get('fields') != [L + 1] * k:
            return True, 'RecordBuilder with %d fields, %d closed records, fields already filled for the open record: %s, nexttotry_ = %d: endrecord gives %s; every field must end with %d entries' % (
                k, L, list(pattern), NT, res, L + 1), payload
        return False, 'native builder agrees (%s)' % res, payload
    return mdischarge(m, 'RecordBuilder::endrecord fields=%d filled=%s' % (k, ''.join('x' if p else '.' for p in pattern)), obls, [('cursor at the end of the keys', nexttotry == k)], replay=replay,
                      prefer=[length <= 5], extra=dict(bounds='%d fields, filled pattern concrete (case split); record count and key cursor symbolic' % k))


def jobs(tier):
    js = []
    for k in ((1, 2, 3) if tier == 'quick' else (1, 2, 3, 4)):
        for pat in itertools.product((0, 1), repeat=k):
            js.append((h_record_endrecord, (k, pat), 1800))
    return js


# ------------------------------------------------------------------------------------------------ ListBuilder / OptionBuilder: one step with an opaque content builder
LB = 'src/libawkward/builder/ListBuilder.cpp'
OB = 'src/libawkward/builder/OptionBuilder.cpp'
GB = 'src/libawkward/builder/GrowableBuffer.cpp'


def _child_stubs(slots, kids_len_off=32):
    """opaque content builder: {vptr, weak_this(16), ..., length @32}; every value-appending call adds one entry and returns itself"""
    def kid(p):
        cs = [(g, q) for g, q in ptr_cases(p) if q.obj is not None]
        if len(cs) != 1:
            raise Unsupported('content builder pointer is not a single object')
        return cs[0][1].obj

    def s_length(eng, fr, ins, st, name, argv):
        return st.mem.o[kid(argv[0])].cells[kids_len_off][0]

    def s_active(eng, fr, ins, st, name, argv):
        return z3.BitVecVal(0, 1)

    def s_append(eng, fr, ins, st, name, argv):
        sret, selfp = argv[0], argv[1]
        nm = kid(selfp)
        o = st.mem.o[nm]
        o.cells[kids_len_off] = (z3.simplify(o.cells[kids_len_off][0] + 1), 8)
        st.trace = st.trace + ((st.pc, name, tuple(argv[2:])),)
        rec = st.mem.o[sret.obj]
        rec.cells[sret.off] = (Ptr(nm, 0), 8)
        rec.cells[sret.off + 8] = (NULL, 8)
        return None
    out = {'vf$slot%d' % slots['6lengthEv']: s_length, 'vf$slot%d' % slots['6activeEv']: s_active}
    for frag in ('4nullEv', '7integerEl', '7booleanEb', '4realEd'):
        out['vf$slot%d' % slots[frag]] = s_append
    return out


def _growable(m, name, length, reserved, fo_base, cells, objname):
    """GrowableBuffer<int64_t> at fo_base: {options(16), ptr_(16), length_, reserved_}; buffer contents symbolic"""
    buf = m.array(name, ('i', 64), reserved)
    cells.update({fo_base: (BV(8), 8), fo_base + 8: (z3.FPVal(1.5, z3.Float64()), 8), fo_base + 16: (buf, 8), fo_base + 24: (NULL, 8), fo_base + 32: (length, 8), fo_base + 40: (reserved, 8)})
    return z3.Array(name, z3.BitVecSort(64), z3.BitVecSort(64))


@guard
def h_list_endlist():
    """ListBuilder::endlist with an open list whose content builder holds L entries: the offsets grow by exactly one entry, equal to L (so the list
    just closed covers the entries appended since the previous offset), earlier offsets are untouched, the list is closed"""
    from .cpp01 import struct_of
    slots, nslots = builder_slots()
    mod = module_of(LB)
    fo, sz, al, fields = mod.types.struct_layout(struct_of(mod, '_ZN7awkward11ListBuilder7endlistEv'))
    stubs = dict(COMMON_STUBS)
    stubs.update(_child_stubs(slots))
    stubs['_ZN7awkward6kernel6mallocI*'] = None
    del stubs['_ZN7awkward6kernel6mallocI*']
    m = MCtx([LB, GB], unwind=8, stubs=stubs)
    m.record('fakevt', {8 * j: (Ptr(('func', 'vf$slot%d' % j), 0), 8) for j in range(nslots)}, const=True)
    n, res, L = m.bv('noffsets'), m.bv('reserved'), m.bv('contentlength')
    m.assume(n >= 1, n < res, res <= 2 ** 20, L >= 0, L <= 2 ** 40)          # room for one more entry: reallocation is GrowableBuffer's own step (checked separately)
    m.record('content', {0: (Ptr('fakevt', 0), 8), 8: (NULL, 8), 16: (NULL, 8), 32: (L, 8)})
    m.record('ctrl', {0: (NULL, 8), 8: (z3.BitVecVal(1, 32), 4), 12: (z3.BitVecVal(1, 32), 4)})
    st0 = State({}, m.mem, z3.BoolVal(True))
    vt = m.eng.global_ptr(st0, '@_ZTVN7awkward11ListBuilderE', mod)
    cells = {0: (Ptr(vt.obj, 16), 8), 8: (Ptr('lb', 0), 8), 16: (Ptr('ctrl', 0), 8), fo[1]: (BV(8), 8), fo[1] + 8: (z3.FPVal(1.5, z3.Float64()), 8),
             fo[3]: (Ptr('content', 0), 8), fo[3] + 8: (NULL, 8), fo[4]: (z3.BitVecVal(1, 8), 1)}
    a0 = _growable(m, 'offsets', n, res, fo[2], cells, 'lb')
    this = m.record('lb', cells)
    m.record('ret', {})
    out = m.call('_ZN7awkward11ListBuilder7endlistEv', [Ptr('ret', 0), this])
    a1 = m.mem.o['offsets'].arr
    j = z3.BitVec('j!pos', 64)
    obls = [('closing an open list does not raise', out.raised),
            ('the offsets grow by one entry', m.cell('lb', fo[2] + 32) != n + 1),
            ('the new offset is the number of entries the content builder holds', z3.Select(a1, n) != L),
            ('earlier offsets are untouched', z3.And(j >= 0, j < n, z3.Select(a1, j) != z3.Select(a0, j))),
            ('the list is closed', m.cell('lb', fo[4]) != 0)]
    return mdischarge(m, 'ListBuilder::endlist', obls, [], replay=step_replay('list', n, L), prefer=[n <= 6, res <= 8, L <= 50], extra=dict(bounds='any number of offsets below the reserved capacity <= 2^20, any content length'))


@guard
def h_option_step(what):
    """OptionBuilder::null / integer with an inactive content builder holding L entries: null appends -1 to the index and leaves the content alone;
    integer(x) hands x to the content and appends L (the position the value just got) to the index; earlier index entries are untouched"""
    from .cpp01 import struct_of
    slots, nslots = builder_slots()
    mod = module_of(OB)
    sym = {'null': '_ZN7awkward13OptionBuilder4nullEv', 'integer': '_ZN7awkward13OptionBuilder7integerEl'}[what]
    fo, sz, al, fields = mod.types.struct_layout(struct_of(mod, sym))
    stubs = dict(COMMON_STUBS)
    stubs.update(_child_stubs(slots))
    m = MCtx([OB, GB], unwind=8, stubs=stubs)
    m.record('fakevt', {8 * j: (Ptr(('func', 'vf$slot%d' % j), 0), 8) for j in range(nslots)}, const=True)
    n, res, L, x = m.bv('nindex'), m.bv('reserved'), m.bv('contentlength'), m.bv('x')
    m.assume(n >= 0, n < res, res <= 2 ** 20, L >= 0, L <= 2 ** 40)
    m.record('content', {0: (Ptr('fakevt', 0), 8), 8: (NULL, 8), 16: (NULL, 8), 32: (L, 8)})
    m.record('ctrl', {0: (NULL, 8), 8: (z3.BitVecVal(1, 32), 4), 12: (z3.BitVecVal(1, 32), 4)})
    st0 = State({}, m.mem, z3.BoolVal(True))
    vt = m.eng.global_ptr(st0, '@_ZTVN7awkward13OptionBuilderE', mod)
    cells = {0: (Ptr(vt.obj, 16), 8), 8: (Ptr('ob', 0), 8), 16: (Ptr('ctrl', 0), 8), fo[1]: (BV(8), 8), fo[1] + 8: (z3.FPVal(1.5, z3.Float64()), 8),
             fo[3]: (Ptr('content', 0), 8), fo[3] + 8: (NULL, 8)}
    a0 = _growable(m, 'index', n, res, fo[2], cells, 'ob')
    this = m.record('ob', cells)
    m.record('ret', {})
    out = m.call(sym, [Ptr('ret', 0), this] + ([x] if what == 'integer' else []))
    a1 = m.mem.o['index'].arr
    j = z3.BitVec('j!pos', 64)
    L1 = m.mem.o['content'].cells[32][0]
    calls = [(pc, nm, a) for pc, nm, a in out.trace]
    obls = [('the step does not raise', out.raised), ('the index grows by one entry', m.cell('ob', fo[2] + 32) != n + 1),
            ('earlier index entries are untouched', z3.And(j >= 0, j < n, z3.Select(a1, j) != z3.Select(a0, j)))]
    if what == 'null':
        obls += [('a missing value is index -1', z3.Select(a1, n) != -1), ('the content builder is left alone', L1 != L)]
    else:
        obls += [('the new index entry is the position the value got in the content', z3.Select(a1, n) != L), ('the content builder received exactly one value', L1 != L + 1),
                 ('the content builder received the value itself', z3.Not(z3.Or([z3.And(pc, a[0] == x) for pc, nm, a in calls if a] + [z3.BoolVal(False)])))]
    return mdischarge(m, 'OptionBuilder::%s' % what, obls, [], replay=step_replay(what, n, L, x), prefer=[n <= 6, res <= 8, L <= 50, x >= -100, x <= 100], extra=dict(bounds='any index length below the reserved capacity <= 2^20, any content length, any value'))


NATIVE_STEP = NATIVE_PREFIX + r'''
int main(int argc, char** argv) {
  // argv: what(list|null|integer) n L x
  std::string what = argv[1]; int64_t n = atoll(argv[2]), L = atoll(argv[3]), x = atoll(argv[4]);
  ArrayBuilderOptions opts(8, 1.5);
  GrowableBuffer<int64_t> buf(opts);
  for (int64_t i = 0; i < n; i++) buf.append(1000 + i);
  std::shared_ptr<Count> content = std::make_shared<Count>(L);
  try {
    if (what == "list") {
      std::shared_ptr<ListBuilder> b = std::make_shared<ListBuilder>(opts, buf, content, true);
      b->endlist();
      printf("{\"outcome\": \"ok\", \"len\": %lld, \"last\": %lld, \"first_ok\": %d, \"begun\": %d, \"content\": %lld}\n", (long long)b->offsets_.length(), (long long)b->offsets_.getitem_at_nowrap(n),
             (int)(n == 0 || b->offsets_.getitem_at_nowrap(0) == 1000), (int)b->begun_, (long long)content->n);
    } else {
      std::shared_ptr<OptionBuilder> b = std::make_shared<OptionBuilder>(opts, buf, content);
      if (what == "null") b->null(); else b->integer(x);
      printf("{\"outcome\": \"ok\", \"len\": %lld, \"last\": %lld, \"first_ok\": %d, \"begun\": 0, \"content\": %lld}\n", (long long)b->index_.length(), (long long)b->index_.getitem_at_nowrap(n),
             (int)(n == 0 || b->index_.getitem_at_nowrap(0) == 1000), (long long)content->n);
    }
  } catch (std::exception& e) { printf("{\"outcome\": \"raised\"}\n"); }
  fflush(stdout); _Exit(0);
}
'''


def native_step(what, n, L, x):
    import subprocess, os, json
    srcs = [RB, LB, OB, GB, 'src/libawkward/builder/Builder.cpp', 'src/libawkward/builder/ArrayBuilderOptions.cpp', 'src/libawkward/kernel-dispatch.cpp']
    exe = build.compile_objs_driver(NATIVE_STEP, srcs)
    r = subprocess.run([exe, what, str(n), str(L), str(x)], capture_output=True, text=True, timeout=30,
                       env=dict(os.environ, ASAN_OPTIONS='detect_leaks=0', UBSAN_OPTIONS='halt_on_error=1:exitcode=87'), errors='replace')
    try:
        return json.loads(r.stdout.strip().splitlines()[-1])
    except (ValueError, IndexError):
        return dict(outcome='crash(%d)' % r.returncode, log=r.stderr[-300:])


def step_replay(what, nvar, Lvar, xvar=None):
    def replay(model, ent):
        ev = lambda t: model.eval(t, model_completion=True).as_signed_long()
        n, L = ev(nvar), ev(Lvar)
        x = ev(xvar) if xvar is not None else 0
        if n > 5000:
            return False, 'buffer too long to replay', {}
        res = native_step(what, n, L, x)
        want_last = L if what in ('list', 'integer') else -1
        want_content = L + 1 if what == 'integer' else L
        payload = dict(step=what, entries=n, content_length=L, native=res)
        if res.get('outcome') != 'ok' or res.get('len') != n + 1 or res.get('last') != want_last or not res.get('first_ok') or res.get('content') != want_content or res.get('begun'):
            return True, '%s step with %d entries and a content of %d: native builder gives %s; expected %d entries, last = %d, content length %d' % (what, n, L, res, n + 1, want_last, want_content), payload
        return False, 'native builder agrees (%s)' % res, payload
    return replay


_jobs_records = jobs


def jobs(tier):
    return _jobs_records(tier) + [(h_list_endlist, (), 1800), (h_option_step, ('null',), 600), (h_option_step, ('integer',), 600)]


# ------------------------------------------------------------------------------------------------ integers become floats when mixed with floats
I64B = 'src/libawkward/builder/Int64Builder.cpp'
F64B = 'src/libawkward/builder/Float64Builder.cpp'


@guard
def h_int64_real(n):
    """Int64Builder::real(x) with n integers appended so far: the builder that takes over is a Float64Builder holding the n integers converted
    to double, in order, followed by x (n + 1 entries); the integer builder's own buffer - which earlier snapshots share - is not modified"""
    from .cpp01 import struct_of
    mod = module_of(I64B)
    fo, sz, al, fields = mod.types.struct_layout(struct_of(mod, '_ZN7awkward12Int64Builder4realEd'))
    stubs = dict(COMMON_STUBS)
    m = MCtx([I64B, F64B, GB, 'src/libawkward/builder/ArrayBuilderOptions.cpp', 'src/libawkward/kernel-dispatch.cpp'], unwind=n + 8, stubs=stubs)
    res, x = m.bv('reserved'), m.fp('x')
    m.assume(res > n, res <= 2 ** 20)
    m.record('ctrl', {0: (NULL, 8), 8: (z3.BitVecVal(1, 32), 4), 12: (z3.BitVecVal(1, 32), 4)})
    st0 = State({}, m.mem, z3.BoolVal(True))
    vt = m.eng.global_ptr(st0, '@_ZTVN7awkward12Int64BuilderE', mod)
    cells = {0: (Ptr(vt.obj, 16), 8), 8: (Ptr('ib', 0), 8), 16: (Ptr('ctrl', 0), 8), fo[1]: (BV(8), 8), fo[1] + 8: (z3.FPVal(1.5, z3.Float64()), 8)}
    a0 = _growable(m, 'ints', BV(n), res, fo[2], cells, 'ib')
    this = m.record('ib', cells)
    m.record('ret', {})
    out = m.call('_ZN7awkward12Int64Builder4realEd', [Ptr('ret', 0), this, x])
    obls = [('the step does not raise', out.raised)]
    rp = m.cell('ret', 0)
    cs = [(g, q) for g, q in ptr_cases(rp) if q.obj is not None] if rp is not None else []
    if len(cs) != 1:
        raise Unsupported('returned builder pointer has %d cases' % len(cs))
    nb = out.mem.o[cs[0][1].obj]
    base = cs[0][1].off
    f64mod = module_of(F64B)
    fo2, _, _, _ = f64mod.types.struct_layout(struct_of(f64mod, '_ZN7awkward14Float64Builder4realEd'))
    vp = nb.cells.get(base)
    vcls = [q.obj for g, q in ptr_cases(vp[0]) if q.obj is not None] if vp else []
    if not vcls or 'Float64Builder' not in str(vcls[0]):
        obls.append(('the builder that takes over is a Float64Builder', z3.BoolVal(True)))
        return mdischarge(m, 'Int64Builder::real after %d integers' % n, obls, [], replay=None)
    bp = nb.cells[base + fo2[2] + 16][0]
    ln = nb.cells[base + fo2[2] + 32][0]
    bcs = [(g, q) for g, q in ptr_cases(bp) if q.obj is not None]
    if len(bcs) != 1:
        raise Unsupported('float buffer pointer has %d cases' % len(bcs))
    fa = out.mem.o[bcs[0][1].obj]
    if tuple(fa.kind) != ('f', 64):
        raise Unsupported('float buffer kind %s' % (fa.kind,))
    olds = [z3.Select(a0, BV(i)) for i in range(n)]
    obls.append(('the float builder holds one more entry', ln != n + 1))
    for i in range(n):
        got = z3.Select(fa.arr, z3.simplify(bcs[0][1].off + i))
        obls.append(('entry %d is the integer converted to double' % i, z3.fpToIEEEBV(got) != z3.fpToIEEEBV(z3.fpSignedToFP(z3.RNE(), olds[i], z3.Float64()))))
    gotx = z3.Select(fa.arr, z3.simplify(bcs[0][1].off + n))
    obls.append(('the last entry is the appended real number', z3.And(z3.Not(z3.fpIsNaN(x)), z3.fpToIEEEBV(gotx) != z3.fpToIEEEBV(x))))
    a1 = out.mem.o['ints'].arr
    for i in range(n):
        obls.append(('integer %d of the old buffer is unchanged' % i, z3.Select(a1, BV(i)) != olds[i]))
    obls.append(('the old builder keeps its length', out.mem.o['ib'].cells[fo[2] + 32][0] != n))

    def replay(model, ent):
        import subprocess, os, json, struct
        ev = lambda t: model.eval(t, model_completion=True)
        ints = [ev(o).as_signed_long() for o in olds]
        xb = ev(z3.fpToIEEEBV(x)).as_long()
        drv = NATIVE_PREFIX.replace('#include "awkward/builder/GrowableBuffer.h"', '#include "awkward/builder/GrowableBuffer.h"\n#include "awkward/builder/Int64Builder.h"\n#include "awkward/builder/Float64Builder.h"') + r'''
int main(int argc, char** argv) {
  int n = atoi(argv[1]); unsigned long long xb = strtoull(argv[2], nullptr, 10); double x; memcpy(&x, &xb, 8);
  ArrayBuilderOptions opts(8, 1.5);
  BuilderPtr b = Int64Builder::fromempty(opts);
  std::vector<int64_t> ints;
  for (int i = 0; i < n; i++) { ints.push_back(atoll(argv[3 + i])); b = b->integer(ints.back()); }
  Int64Builder* ib = dynamic_cast<Int64Builder*>(b.get());
  BuilderPtr f = b->real(x);
  Float64Builder* fb = dynamic_cast<Float64Builder*>(f.get());
  int bad = 0;
  if (fb == nullptr) { printf("bad=64\n"); return 1; }
  if (fb->buffer_.length() != n + 1) bad |= 1;
  for (int i = 0; i < n && i < fb->buffer_.length(); i++) if (fb->buffer_.ptr().get()[i] != (double)ints[i]) bad |= 2;
  if (fb->buffer_.length() > n && memcmp(&fb->buffer_.ptr().get()[n], &x, 8) != 0 && x == x) bad |= 4;
  for (int i = 0; i < n; i++) if (ib->buffer_.ptr().get()[i] != ints[i]) bad |= 8;
  if (ib->buffer_.length() != n) bad |= 16;
  printf("bad=%d\n", bad);
  return bad ? 1 : 0;
}
'''
        srcs = [I64B, F64B, GB, OB, 'src/libawkward/builder/Builder.cpp', 'src/libawkward/builder/ArrayBuilderOptions.cpp']
        try:
            exe = fullnative_link(drv)
        except Exception as e:      # noqa
            return False, 'replay driver did not build: %s' % str(e)[-300:], {}
        r = subprocess.run([exe, str(n), str(xb)] + [str(v) for v in ints], capture_output=True, text=True, timeout=30,
                           env=dict(os.environ, ASAN_OPTIONS='detect_leaks=0', UBSAN_OPTIONS='halt_on_error=1:exitcode=87'), errors='replace')
        payload = dict(integers=ints, x_bits=xb, native=r.stdout.strip())
        if r.returncode != 0:
            return True, 'integers %s then real(bits %#x): native builders give %s (1 length, 2 converted entry, 4 appended value, 8/16 old buffer modified)' % (ints, xb, r.stdout.strip() or r.stderr[-200:]), payload
        return False, 'native builders agree (%s)' % r.stdout.strip(), payload
    return mdischarge(m, 'Int64Builder::real after %d integers' % n, obls, [], replay=replay, prefer=[res <= 16],
                      extra=dict(bounds='%d integers (any values), any real x, reserved capacity up to 2^20' % n))


def fullnative_link(text):
    from . import fullnative
    return fullnative.link_driver(text, 'builder')


_jobs_steps = jobs


def jobs(tier):
    return _jobs_steps(tier) + [(h_int64_real, (n,), 900) for n in ((0, 2) if tier == 'quick' else (0, 1, 2, 3, 4))]


# ------------------------------------------------------------------------------------------------ None makes a level optional (the first value after k leading Nones)
UB = 'src/libawkward/builder/UnknownBuilder.cpp'


@guard
def h_unknown_integer(k):
    """UnknownBuilder::integer(x) after k leading None values: with k == 0 an integer builder holding [x] takes over; otherwise an option builder
    whose index is k times -1 followed by 0 over an integer builder holding exactly [x] (the value is entry 0 of the content, the Nones
    before it stay missing and nothing else is appended)"""
    from .cpp01 import struct_of
    mod = module_of(UB)
    fo, sz, al, fields = mod.types.struct_layout(struct_of(mod, '_ZN7awkward14UnknownBuilder7integerEl'))
    m = MCtx([UB, I64B, OB, GB, 'src/libawkward/builder/ArrayBuilderOptions.cpp', 'src/libawkward/kernel-dispatch.cpp'], unwind=k + 12, stubs=dict(COMMON_STUBS))
    x, init = m.bv('x'), m.bv('initial')
    m.assume(init >= 1, init <= 64)
    m.record('ctrl', {0: (NULL, 8), 8: (z3.BitVecVal(1, 32), 4), 12: (z3.BitVecVal(1, 32), 4)})
    st0 = State({}, m.mem, z3.BoolVal(True))
    vt = m.eng.global_ptr(st0, '@_ZTVN7awkward14UnknownBuilderE', mod)
    this = m.record('ub', {0: (Ptr(vt.obj, 16), 8), 8: (Ptr('ub', 0), 8), 16: (Ptr('ctrl', 0), 8), fo[1]: (init, 8), fo[1] + 8: (z3.FPVal(1.5, z3.Float64()), 8), fo[2]: (BV(k), 8)})
    m.record('ret', {})
    out = m.call('_ZN7awkward14UnknownBuilder7integerEl', [Ptr('ret', 0), this, x])
    obls = [('the step does not raise', out.raised)]

    def obj_of(p, what):
        cs = [(g, q) for g, q in ptr_cases(p) if q.obj is not None]
        if len(cs) != 1:
            raise Unsupported('%s pointer has %d cases' % (what, len(cs)))
        return out.mem.o[cs[0][1].obj], cs[0][1].off

    def cls_of(o, base):
        vp = o.cells.get(base)
        v = [q.obj for g, q in ptr_cases(vp[0]) if q.obj is not None] if vp else []
        return str(v[0]) if v else ''

    def growable(o, base):
        """-> (list of the first entries as terms (by position), length term)"""
        bp, ln = o.cells[base + 16][0], o.cells[base + 32][0]
        cs = [(g, q) for g, q in ptr_cases(bp) if q.obj is not None]
        if not cs:
            raise Unsupported('buffer pointer is null')

        def ent(i):          # a pointer merged over "still fits" / "reallocated": ite over its cases
            v = None
            for g, q in cs:
                e = z3.Select(out.mem.o[q.obj].arr, z3.simplify(q.off + i))
                v = e if v is None else z3.If(g, e, v)
            return v
        return ent, ln
    top, tb = obj_of(m.cell('ret', 0), 'returned builder')
    i64mod, obmod = module_of(I64B), module_of(OB)
    fi = i64mod.types.struct_layout(struct_of(i64mod, '_ZN7awkward12Int64Builder4realEd'))[0]
    fob = obmod.types.struct_layout(struct_of(obmod, '_ZN7awkward13OptionBuilder4nullEv'))[0]
    if k == 0:
        ib, ibase = top, tb
        if 'Int64Builder' not in cls_of(top, tb):
            obls.append(('an integer builder takes over', z3.BoolVal(True)))
            ib = None
    else:
        if 'OptionBuilder' not in cls_of(top, tb):
            obls.append(('an option builder takes over', z3.BoolVal(True)))
            ib = None
        else:
            ent, ln = growable(top, tb + fob[2])
            obls.append(('the index has one entry per None plus one', ln != k + 1))
            for i in range(k):
                obls.append(('index entry %d is missing (-1)' % i, ent(i) != -1))
            obls.append(('the value is entry 0 of the content', ent(k) != 0))
            ib, ibase = obj_of(top.cells[tb + fob[3]][0], 'content builder')
            if 'Int64Builder' not in cls_of(ib, ibase):
                obls.append(('the content is an integer builder', z3.BoolVal(True)))
                ib = None
    if ib is not None:
        ent, ln = growable(ib, ibase + fi[2])
        obls += [('the integer builder holds exactly one value', ln != 1), ('that value is x', ent(0) != x)]

    def replay(model, ent_):
        import subprocess, os
        xv = model.eval(x, model_completion=True).as_signed_long()
        iv = model.eval(init, model_completion=True).as_signed_long()
        drv = NATIVE_PREFIX.replace('#include "awkward/builder/GrowableBuffer.h"', '#include "awkward/builder/GrowableBuffer.h"\n#include "awkward/builder/Int64Builder.h"\n#include "awkward/builder/UnknownBuilder.h"') + r'''
int main(int argc, char** argv) {
  int k = atoi(argv[1]); int64_t x = atoll(argv[2]); int64_t init = atoll(argv[3]);
  ArrayBuilderOptions opts(init, 1.5);
  BuilderPtr b = UnknownBuilder::fromempty(opts);
  for (int i = 0; i < k; i++) b = b->null();
  BuilderPtr o = b->integer(x);
  int bad = 0;
  Int64Builder* ib = nullptr;
  if (k == 0) ib = dynamic_cast<Int64Builder*>(o.get());
  else {
    OptionBuilder* ob = dynamic_cast<OptionBuilder*>(o.get());
    if (ob == nullptr) bad |= 1;
    else {
      if (ob->index_.length() != k + 1) bad |= 2;
      for (int i = 0; i < k && i < ob->index_.length(); i++) if (ob->index_.ptr().get()[i] != -1) bad |= 4;
      if (ob->index_.length() > k && ob->index_.ptr().get()[k] != 0) bad |= 8;
      ib = dynamic_cast<Int64Builder*>(ob->content_.get());
    }
  }
  if (ib == nullptr) bad |= 16; else { if (ib->buffer_.length() != 1) bad |= 32; else if (ib->buffer_.ptr().get()[0] != x) bad |= 64; }
  printf("bad=%d\n", bad);
  return bad ? 1 : 0;
}
'''
        try:
            exe = fullnative_link(drv)
        except Exception as e:      # noqa
            return False, 'replay driver did not build: %s' % str(e)[-300:], {}
        r = subprocess.run([exe, str(k), str(xv), str(iv)], capture_output=True, text=True, timeout=30,
                           env=dict(os.environ, ASAN_OPTIONS='detect_leaks=0', UBSAN_OPTIONS='halt_on_error=1:exitcode=87'), errors='replace')
        payload = dict(nones=k, x=xv, initial=iv, native=r.stdout.strip())
        if r.returncode != 0:
            return True, '%d None then integer(%d), initial capacity %d: native builders give %s %s' % (k, xv, iv, r.stdout.strip(), r.stderr[-200:] if not r.stdout.strip() else ''), payload
        return False, 'native builders agree (%s)' % r.stdout.strip(), payload
    return mdischarge(m, 'UnknownBuilder::integer after %d None' % k, obls, [('more Nones than the initial capacity', init < k)] if k > 1 else [], replay=replay,
                      extra=dict(bounds='%d leading None (case split), any integer, initial buffer capacity 1..64' % k))


_jobs_real = jobs


def jobs(tier):
    return _jobs_real(tier) + [(h_unknown_integer, (k,), 900) for k in ((0, 3) if tier == 'quick' else (0, 1, 2, 3, 5))]


# ------------------------------------------------------------------------------------------------ incompatible values form a union: one value appended to a UnionBuilder
UNB = 'src/libawkward/builder/UnionBuilder.cpp'
BOB = 'src/libawkward/builder/BoolBuilder.cpp'
LEAF = {'int': ('N7awkward12Int64BuilderE', I64B, ('i', 64)), 'float': ('N7awkward14Float64BuilderE', F64B, ('f', 64)), 'bool': ('N7awkward11BoolBuilderE', BOB, ('i', 8))}


def _leaf_builder(m, name, kind, length, reserved, mod_cache={}):
    """a real Int64Builder / Float64Builder / BoolBuilder object holding `length` symbolic entries"""
    cls, src, ek = LEAF[kind]
    mod = module_of(src)
    st0 = State({}, m.mem, z3.BoolVal(True))
    vt = m.eng.global_ptr(st0, '@_ZTV' + cls, mod)
    buf = m.array(name + '_buf', ek, reserved)
    # {vptr, weak_this(16), options_(16), buffer_{options(16), ptr_(16), length_, reserved_}}
    m.record(name + '_ctrl', {0: (NULL, 8), 8: (z3.BitVecVal(1, 32), 4), 12: (z3.BitVecVal(1, 32), 4)})
    cells = {0: (Ptr(vt.obj, 16), 8), 8: (Ptr(name, 0), 8), 16: (Ptr(name + '_ctrl', 0), 8), 24: (BV(8), 8), 32: (z3.FPVal(1.5, z3.Float64()), 8),
             40: (BV(8), 8), 48: (z3.FPVal(1.5, z3.Float64()), 8), 56: (buf, 8), 64: (NULL, 8), 72: (BV(length), 8), 80: (BV(reserved), 8)}
    m.record(name, cells)
    esort = z3.Float64() if ek[0] == 'f' else z3.BitVecSort(ek[1])
    return Ptr(name, 0), z3.Array(name + '_buf', z3.BitVecSort(64), esort)


@guard
def h_union_step(kinds, lens, what):
    """UnionBuilder::integer / real (no member active) over real leaf builders: the value goes to the first member builder of its own type -
    for a real number, failing that, to the first integer builder, which is replaced by a float builder holding its integers converted in order;
    failing that a new member is appended - and the union records (tag = that member's position, index = the number of entries it held before);
    the other members, and all earlier tags / index entries, are untouched"""
    from .cpp01 import struct_of
    kinds, lens = tuple(kinds), tuple(lens)
    mod = module_of(UNB)
    sym = {'integer': '_ZN7awkward12UnionBuilder7integerEl', 'real': '_ZN7awkward12UnionBuilder4realEd'}[what]
    fo, sz, al, fields = mod.types.struct_layout(struct_of(mod, sym))
    m = MCtx([UNB, I64B, F64B, BOB, GB, 'src/libawkward/builder/ArrayBuilderOptions.cpp', 'src/libawkward/kernel-dispatch.cpp'], unwind=max(lens + (0,)) + len(kinds) + 12, stubs=dict(COMMON_STUBS))
    ntags = m.bv('ntags')
    m.assume(ntags >= 0, ntags <= 2 ** 20)
    x = m.bv('x') if what == 'integer' else m.fp('x')
    kids, arrs = [], []
    for i, (k, L) in enumerate(zip(kinds, lens)):
        p, a = _leaf_builder(m, 'kid%d' % i, k, L, L + 2)
        kids.append(p); arrs.append(a)
    cells = {}
    for i, p in enumerate(kids):
        cells[16 * i] = (p, 8); cells[16 * i + 8] = (NULL, 8)
    cells[16 * len(kids)] = (NULL, 8); cells[16 * len(kids) + 8] = (NULL, 8)          # spare capacity for one push_back
    m.record('kidsbuf', cells)
    nb = 16 * len(kids)
    st0 = State({}, m.mem, z3.BoolVal(True))
    vt = m.eng.global_ptr(st0, '@_ZTVN7awkward12UnionBuilderE', mod)
    tg = m.array('tags', ('i', 8), ntags + 2)
    ix = m.array('index', ('i', 64), ntags + 2)
    t0, i0 = z3.Array('tags', z3.BitVecSort(64), z3.BitVecSort(8)), z3.Array('index', z3.BitVecSort(64), z3.BitVecSort(64))
    m.record('ub_ctrl', {0: (NULL, 8), 8: (z3.BitVecVal(1, 32), 4), 12: (z3.BitVecVal(1, 32), 4)})
    ub = {0: (Ptr(vt.obj, 16), 8), 8: (Ptr('ub', 0), 8), 16: (Ptr('ub_ctrl', 0), 8), fo[1]: (BV(8), 8), fo[1] + 8: (z3.FPVal(1.5, z3.Float64()), 8)}
    for base, buf in ((fo[2], tg), (fo[3], ix)):
        ub.update({base: (BV(8), 8), base + 8: (z3.FPVal(1.5, z3.Float64()), 8), base + 16: (buf, 8), base + 24: (NULL, 8), base + 32: (ntags, 8), base + 40: (ntags + 2, 8)})
    ub.update({fo[4]: (Ptr('kidsbuf', 0) if kids else NULL, 8), fo[4] + 8: (Ptr('kidsbuf', nb) if kids else NULL, 8), fo[4] + 16: (Ptr('kidsbuf', nb + 16) if kids else NULL, 8), fo[5]: (z3.BitVecVal(-1, 8), 1)})
    this = m.record('ub', ub)
    m.record('ret', {})
    out = m.call(sym, [Ptr('ret', 0), this, x])
    obls = [('the step does not raise', out.raised)]
    want_kind = 'int' if what == 'integer' else 'float'
    if want_kind in kinds:
        target, conv = kinds.index(want_kind), False
    elif what == 'real' and 'int' in kinds:
        target, conv = kinds.index('int'), True
    else:
        target, conv = len(kinds), False
    oldlen = lens[target] if target < len(kinds) else 0
    t1, i1 = out.mem.o['tags'].arr, out.mem.o['index'].arr
    j = z3.BitVec('j!pos', 64)
    o_ub = out.mem.o['ub']
    obls += [('tags and index grow by one entry', z3.Or(o_ub.cells[fo[2] + 32][0] != ntags + 1, o_ub.cells[fo[3] + 32][0] != ntags + 1)),
             ('earlier tags / index entries are untouched', z3.And(j >= 0, j < ntags, z3.Or(z3.Select(t1, j) != z3.Select(t0, j), z3.Select(i1, j) != z3.Select(i0, j)))),
             ('the new tag is the position of the member that took the value (%d)' % target, z3.Select(t1, ntags) != target),
             ('the new index entry is the number of entries that member held (%d)' % oldlen, z3.Select(i1, ntags) != oldlen)]
    # the members afterwards
    vb, ve = o_ub.cells[fo[4]][0], o_ub.cells[fo[4] + 8][0]
    bcs = [(g, q) for g, q in ptr_cases(vb) if q.obj is not None]
    ecs = [(g, q) for g, q in ptr_cases(ve) if q.obj is not None]
    if len(bcs) != 1 or len(ecs) != 1 or bcs[0][1].obj != ecs[0][1].obj:
        raise Unsupported('member vector is not a single buffer after the step')
    vbuf, b0, e0 = out.mem.o[bcs[0][1].obj], bcs[0][1].off, ecs[0][1].off
    nmem = (e0 - b0) // 16
    obls.append(('the union has %d members afterwards' % max(len(kinds), target + 1), z3.BoolVal(nmem != max(len(kinds), target + 1))))

    def member(i):
        p = vbuf.cells[b0 + 16 * i][0]
        cs = [(g, q) for g, q in ptr_cases(p) if q.obj is not None]
        if len(cs) != 1:
            raise Unsupported('member pointer has %d cases' % len(cs))
        o, base = out.mem.o[cs[0][1].obj], cs[0][1].off
        vp = o.cells[base][0]
        cls = str([q.obj for g, q in ptr_cases(vp) if q.obj is not None][0])
        bp, ln = o.cells[base + 56][0], o.cells[base + 72][0]
        dcs = [(g, q) for g, q in ptr_cases(bp) if q.obj is not None]

        def ent(k):
            v = None
            for g, q in dcs:
                e = z3.Select(out.mem.o[q.obj].arr, z3.simplify(q.off + k))
                v = e if v is None else z3.If(g, e, v)
            return v
        return cs[0][1].obj, cls, ent, ln
    for i in range(min(nmem, len(kinds))):
        if i == target:
            continue
        nm, cls, ent, ln = member(i)
        obls.append(('member %d is left alone' % i, z3.Or(z3.BoolVal(nm != 'kid%d' % i), ln != lens[i])))
    if target < nmem:
        nm, cls, ent, ln = member(target)
        tcls = LEAF[want_kind][0]
        obls.append(('the member that took the value is a %s builder' % want_kind, z3.BoolVal(tcls not in cls)))
        obls.append(('it holds one more entry', ln != oldlen + 1))
        if tcls in cls:
            for k in range(oldlen):
                old = z3.Select(arrs[target], BV(k))
                if conv:
                    obls.append(('its entry %d is the integer converted to double' % k, z3.fpToIEEEBV(ent(k)) != z3.fpToIEEEBV(z3.fpSignedToFP(z3.RNE(), old, z3.Float64()))))
                elif want_kind == 'float':
                    obls.append(('its entry %d is unchanged' % k, z3.And(z3.Not(z3.fpIsNaN(old)), z3.fpToIEEEBV(ent(k)) != z3.fpToIEEEBV(old))))
                else:
                    obls.append(('its entry %d is unchanged' % k, ent(k) != old))
            last = ent(oldlen)
            obls.append(('its last entry is the appended value', (z3.And(z3.Not(z3.fpIsNaN(x)), z3.fpToIEEEBV(last) != z3.fpToIEEEBV(x))) if what == 'real' else (last != x)))

    def replay(model, ent_):
        import subprocess, os
        ev = lambda t: model.eval(t, model_completion=True)
        nt = ev(ntags).as_signed_long()
        if nt > 64:
            return False, 'too many earlier union entries to replay', {}
        vals = []
        for i, (k, L) in enumerate(zip(kinds, lens)):
            for kk in range(L):
                e = z3.Select(arrs[i], BV(kk))
                vals.append(str(ev(z3.fpToIEEEBV(e) if k == 'float' else e).as_long()))
        xb = ev(z3.fpToIEEEBV(x) if what == 'real' else x).as_long()
        if what == 'real' and z3.is_true(ev(z3.fpIsNaN(x))):
            xb = 0x7ff8000000000000
        drv = NATIVE_PREFIX.replace('#include "awkward/builder/GrowableBuffer.h"', '#include "awkward/builder/GrowableBuffer.h"\n#include "awkward/builder/Int64Builder.h"\n#include "awkward/builder/Float64Builder.h"\n#include "awkward/builder/BoolBuilder.h"\n#include "awkward/builder/UnionBuilder.h"') + r'''
int main(int argc, char** argv) {
  // argv: what nt xbits nk (kind len)* values...
  std::string what = argv[1]; int nt = atoi(argv[2]); unsigned long long xb = strtoull(argv[3], nullptr, 10); int nk = atoi(argv[4]);
  ArrayBuilderOptions opts(8, 1.5);
  std::vector<BuilderPtr> kids; std::vector<std::string> kinds; std::vector<int> lens; std::vector<std::vector<unsigned long long>> raw;
  int a = 5;
  for (int i = 0; i < nk; i++) { kinds.push_back(argv[a]); lens.push_back(atoi(argv[a + 1])); a += 2; }
  for (int i = 0; i < nk; i++) {
    BuilderPtr b = kinds[i] == "int" ? Int64Builder::fromempty(opts) : kinds[i] == "float" ? Float64Builder::fromempty(opts) : BoolBuilder::fromempty(opts);
    raw.push_back({});
    for (int k = 0; k < lens[i]; k++) { unsigned long long v = strtoull(argv[a++], nullptr, 10); raw[i].push_back(v);
      if (kinds[i] == "int") b->integer((int64_t)v); else if (kinds[i] == "float") { double d; memcpy(&d, &v, 8); b->real(d); } else b->boolean(v != 0); }
    kids.push_back(b);
  }
  GrowableBuffer<int8_t> tags(opts); GrowableBuffer<int64_t> index(opts);
  for (int i = 0; i < nt; i++) { tags.append((int8_t)(i % 3)); index.append(100 + i); }
  std::shared_ptr<UnionBuilder> u = std::make_shared<UnionBuilder>(opts, tags, index, kids);
  std::vector<Builder*> before; for (auto k : kids) before.push_back(k.get());
  if (what == "integer") u->integer((int64_t)xb); else { double d; memcpy(&d, &xb, 8); u->real(d); }
  int target = atoi(argv[a]); int conv = atoi(argv[a + 1]); int oldlen = atoi(argv[a + 2]);
  int bad = 0;
  if (u->tags_.length() != nt + 1 || u->index_.length() != nt + 1) bad |= 1;
  for (int i = 0; i < nt; i++) if (u->tags_.ptr().get()[i] != (int8_t)(i % 3) || u->index_.ptr().get()[i] != 100 + i) bad |= 2;
  if (u->tags_.ptr().get()[nt] != target) bad |= 4;
  if (u->index_.ptr().get()[nt] != oldlen) bad |= 8;
  if ((int)u->contents_.size() != (target < nk ? nk : nk + 1)) bad |= 16;
  for (int i = 0; i < nk && i < (int)u->contents_.size(); i++) if (i != target && (u->contents_[i].get() != before[i] || u->contents_[i]->length() != lens[i])) bad |= 32;
  if (target < (int)u->contents_.size()) {
    Builder* t = u->contents_[target].get();
    if (t->length() != oldlen + 1) bad |= 64;
    if (what == "integer") { Int64Builder* ib = dynamic_cast<Int64Builder*>(t); if (!ib) bad |= 128; else { for (int k = 0; k < oldlen; k++) if ((unsigned long long)ib->buffer_.ptr().get()[k] != raw[target][k]) bad |= 256; if (ib->buffer_.ptr().get()[oldlen] != (int64_t)xb) bad |= 512; } }
    else { Float64Builder* fb = dynamic_cast<Float64Builder*>(t); if (!fb) bad |= 128; else {
        for (int k = 0; k < oldlen; k++) { double want; if (conv) want = (double)(int64_t)raw[target][k]; else memcpy(&want, &raw[target][k], 8); double got = fb->buffer_.ptr().get()[k]; if (memcmp(&got, &want, 8) != 0 && want == want) bad |= 256; }
        double d; memcpy(&d, &xb, 8); double got = fb->buffer_.ptr().get()[oldlen]; if (memcmp(&got, &d, 8) != 0 && d == d) bad |= 512; } }
  }
  printf("bad=%d\n", bad);
  return bad ? 1 : 0;
}
'''
        try:
            exe = fullnative_link(drv)
        except Exception as e:      # noqa
            return False, 'replay driver did not build: %s' % str(e)[-600:], {}
        argv = [what, str(nt), str(xb), str(len(kinds))]
        for k, L in zip(kinds, lens):
            argv += [k, str(L)]
        argv += vals + [str(target), str(int(conv)), str(oldlen)]
        r = subprocess.run([exe] + argv, capture_output=True, text=True, timeout=30,
                           env=dict(os.environ, ASAN_OPTIONS='detect_leaks=0', UBSAN_OPTIONS='halt_on_error=1:exitcode=87'), errors='replace')
        payload = dict(args=argv, native=r.stdout.strip())
        if r.returncode != 0:
            return True, 'UnionBuilder::%s over members %s %s: native builders give %s %s (4 tag, 8 index, 16 member count, 32 other member touched, 64.. target member)' % (
                what, list(kinds), list(lens), r.stdout.strip(), r.stderr[-200:] if not r.stdout.strip() else ''), payload
        return False, 'native builders agree (%s)' % r.stdout.strip(), payload
    return mdischarge(m, 'UnionBuilder::%s over members %s with %s entries' % (what, list(kinds), list(lens)), obls, [], replay=replay, prefer=[ntags <= 4],
                      extra=dict(bounds='member kinds and their lengths concrete (case split), member values, the appended value and the number of earlier union entries (<= 2^20) symbolic'))


_jobs_unknown = jobs


def jobs(tier):
    q = [(('bool', 'int'), (1, 2), 'integer'), (('bool',), (1,), 'integer'), (('int', 'bool'), (2, 1), 'real'), (('bool', 'float'), (0, 1), 'real'), ((), (), 'real')]
    if tier != 'quick':
        q += [(('float', 'int'), (1, 1), 'integer'), (('float', 'int'), (1, 1), 'real'), (('bool', 'int', 'int'), (0, 3, 1), 'real'), (('int',), (0,), 'integer'), ((), (), 'integer')]
    return _jobs_unknown(tier) + [(h_union_step, a, 1800) for a in q]


# ------------------------------------------------------------------------------------------------ a wrong tuple index raises an error
TB = 'src/libawkward/builder/TupleBuilder.cpp'


@guard
def h_tuple_index(k, nxt_c, active=False):
    """TupleBuilder::index(i) from any state (open or not, any field selected, no field builder active) of a tuple with k fields: a position outside
    0..k-1 - negative ones included - or a tuple that was not begun is refused; otherwise field i becomes the selected field.  The selection
    afterwards is always -1 (none) or a field of the tuple: the next value goes through contents_[nextindex_].  With `active` the selected field
    builder is itself in the middle of a nested tuple: the position then belongs to that nested tuple - it is handed on unchanged, whatever
    the width of the outer tuple, and the outer selection does not move"""
    from .cpp01 import struct_of
    slots, nslots = builder_slots()
    mod = module_of(TB)
    fo, sz, al, fields = mod.types.struct_layout(struct_of(mod, '_ZN7awkward12TupleBuilder5indexEl'))
    stubs = dict(COMMON_STUBS)
    stubs.update(_child_stubs(slots))
    handed = []
    if active:
        stubs['vf$slot%d' % slots['6activeEv']] = lambda eng, fr, ins, st, name, argv: z3.BitVecVal(1, 1)

        def s_index(eng, fr, ins, st, name, argv):
            handed.append((st.pc, argv[2]))
            rec = st.mem.o[argv[0].obj]
            rec.cells[argv[0].off] = (argv[1], 8); rec.cells[argv[0].off + 8] = (NULL, 8)
            return None
        stubs['vf$slot%d' % slots['5indexEl']] = s_index
    stubs['_ZNSt7__cxx119to_stringEm'] = nodeh.s_empty_string
    m = MCtx([TB, GB], unwind=k + 8, stubs=stubs)
    m.record('fakevt', {8 * j: (Ptr(('func', 'vf$slot%d' % j), 0), 8) for j in range(nslots)}, const=True)
    begun, idx, length = m.bv('begun', 8), m.bv('index'), m.bv('length')
    nxt = BV(nxt_c)          # the selected field is case-split (it indexes the vector of field builders)
    m.assume(z3.ULE(begun, 1), length >= 0, length <= 2 ** 40)
    cells = {}
    for i in range(k):
        m.record('kid%d' % i, {0: (Ptr('fakevt', 0), 8), 8: (NULL, 8), 16: (NULL, 8), 32: (length, 8)})
        cells[16 * i] = (Ptr('kid%d' % i, 0), 8); cells[16 * i + 8] = (NULL, 8)
    m.record('kidsbuf', cells, const=True)
    m.record('ctrl', {0: (NULL, 8), 8: (z3.BitVecVal(1, 32), 4), 12: (z3.BitVecVal(1, 32), 4)})
    st0 = State({}, m.mem, z3.BoolVal(True))
    vt = m.eng.global_ptr(st0, '@_ZTVN7awkward12TupleBuilderE', mod)
    nb = 16 * k
    tb = {0: (Ptr(vt.obj, 16), 8), 8: (Ptr('tb', 0), 8), 16: (Ptr('ctrl', 0), 8), fo[1]: (BV(8), 8), fo[1] + 8: (z3.FPVal(1.5, z3.Float64()), 8),
          fo[2]: (Ptr('kidsbuf', 0) if k else NULL, 8), fo[2] + 8: (Ptr('kidsbuf', nb) if k else NULL, 8), fo[2] + 16: (Ptr('kidsbuf', nb) if k else NULL, 8),
          fo[3]: (length, 8), fo[4]: (begun, 1), fo[5]: (nxt, 8)}
    this = m.record('tb', tb)
    m.record('ret', {})
    out = m.call('_ZN7awkward12TupleBuilder5indexEl', [Ptr('ret', 0), this, idx])
    bad = z3.Or(begun == 0, idx < 0, idx >= k)
    n1 = out.mem.o['tb'].cells[fo[5]][0]
    if active and nxt_c >= 0:
        bad = begun == 0
        obls = [('with a nested tuple open the position is refused only when the outer tuple is not open', z3.simplify(out.raised) != bad),
                ('the position is handed to the nested tuple unchanged', z3.And(z3.Not(out.raised), z3.Not(z3.Or([z3.And(pc, v == idx) for pc, v in handed] + [z3.BoolVal(False)])))),
                ('the outer selection does not move', z3.And(z3.Not(out.raised), n1 != nxt_c))]
        return mdischarge(m, 'TupleBuilder::index with %d fields, field %d selected and in a nested tuple' % (k, nxt_c), obls, [], replay=None if False else _nested_index_replay(k, nxt_c, idx, begun), prefer=[idx >= -5, idx <= 5],
                          extra=dict(bounds='%d fields (case split), any int64 position, open / not open, the selected field builder active' % k))
    obls = [('raises exactly when the tuple is not open or the position is not one of its fields', z3.simplify(out.raised) != bad),
            ('the selected field afterwards is none or a field of the tuple', z3.And(z3.Not(out.raised), z3.Or(n1 < -1, n1 >= k))),
            ('an accepted position becomes the selected field', z3.And(z3.Not(out.raised), n1 != idx))]

    def replay(model, ent_):
        import subprocess, os
        ev = lambda t: model.eval(t, model_completion=True)
        iv, bg, nx = ev(idx).as_signed_long(), ev(begun).as_long(), nxt_c
        drv = NATIVE_PREFIX.replace('#include "awkward/builder/GrowableBuffer.h"', '#include "awkward/builder/GrowableBuffer.h"\n#include "awkward/builder/TupleBuilder.h"') + r'''
int main(int argc, char** argv) {
  int k = atoi(argv[1]); long long idx = atoll(argv[2]); bool begun = atoi(argv[3]) != 0; long long nxt = atoll(argv[4]);
  ArrayBuilderOptions opts(8, 1.5);
  std::vector<BuilderPtr> kids; for (int i = 0; i < k; i++) kids.push_back(std::make_shared<Count>(3));
  std::shared_ptr<TupleBuilder> t = std::make_shared<TupleBuilder>(opts, kids, 3, begun, nxt);
  bool raised = false;
  try { t->index(idx); } catch (std::invalid_argument& e) { raised = true; }
  bool want = !begun || idx < 0 || idx >= k;
  int bad = 0;
  if (raised != want) bad |= 1;
  if (!raised && (t->nextindex_ < -1 || t->nextindex_ >= k)) bad |= 2;
  if (!raised && !want) { try { t->integer(5); } catch (std::exception& e) { bad |= 4; } }      // the next value must reach a field builder
  printf("bad=%d raised=%d nextindex=%lld\n", bad, (int)raised, (long long)t->nextindex_);
  return bad ? 1 : 0;
}
'''
        try:
            exe = fullnative_link(drv)
        except Exception as e:      # noqa
            return False, 'replay driver did not build: %s' % str(e)[-600:], {}
        r = subprocess.run([exe, str(k), str(iv), str(bg), str(nx)], capture_output=True, text=True, timeout=30,
                           env=dict(os.environ, ASAN_OPTIONS='detect_leaks=0', UBSAN_OPTIONS='halt_on_error=1:exitcode=87'), errors='replace')
        payload = dict(fields=k, index=iv, begun=bg, nextindex=nx, native=r.stdout.strip())
        if r.returncode != 0:
            return True, 'tuple of %d fields (%s, field %d selected), index(%d): native builder gives %s %s (1 = accepted / refused wrongly, 2 = selection outside the tuple)' % (
                k, 'open' if bg else 'not open', nx, iv, r.stdout.strip(), [l for l in r.stderr.splitlines() if 'runtime error' in l or 'ERROR' in l][:1]), payload
        return False, 'native builder agrees (%s)' % r.stdout.strip(), payload
    return mdischarge(m, 'TupleBuilder::index with %d fields, field %d selected' % (k, nxt_c), obls, [('accepted', z3.Not(bad))] if k else [], replay=replay, prefer=[idx >= -5, idx <= 5],
                      extra=dict(bounds='%d fields (case split), any int64 position, open / not open, any selected field, no field builder active' % k))




def _nested_index_replay(k, nxt_c, idx, begun):
    def replay(model, ent_):
        import subprocess, os
        ev = lambda t: model.eval(t, model_completion=True)
        iv, bg = ev(idx).as_signed_long(), ev(begun).as_long()
        if not bg or not (0 <= iv <= 6):
            return False, 'only open outer tuples and small nested positions are replayed', {}
        drv = r'''
#include <cstdio>
#include <cstdlib>
#include <stdexcept>
#include "awkward/builder/ArrayBuilder.h"
#include "awkward/builder/ArrayBuilderOptions.h"
#include "awkward/Content.h"
using namespace awkward;
int main(int argc, char** argv) {
  int k = atoi(argv[1]), sel = atoi(argv[2]); long idx = atol(argv[3]);
  ArrayBuilder b(ArrayBuilderOptions(8, 1.5));
  try {
    b.begintuple(k); b.index(sel);
    b.begintuple(idx + 1);            // a nested tuple wide enough for the position
    b.index(idx);                     // belongs to the nested tuple
    b.integer(7);
    printf("bad=0\n"); return 0;
  } catch (std::exception& e) { printf("bad=1 raised %.70s\n", e.what()); return 1; }
}
'''
        try:
            exe = fullnative_link(drv)
        except Exception as e:      # noqa
            return False, 'replay driver did not build: %s' % str(e)[-600:], {}
        r = subprocess.run([exe, str(k), str(nxt_c), str(iv)], capture_output=True, text=True, timeout=30,
                           env=dict(os.environ, ASAN_OPTIONS='detect_leaks=0', UBSAN_OPTIONS='halt_on_error=1:exitcode=87'), errors='replace')
        payload = dict(fields=k, selected=nxt_c, index=iv, native=r.stdout.strip())
        if r.returncode != 0:
            return True, 'tuple of %d fields, field %d holding an open nested tuple of %d fields, index(%d): native builder gives %s' % (k, nxt_c, iv + 1, iv, r.stdout.strip() or r.stderr[-200:]), payload
        return False, 'native builder agrees (%s)' % r.stdout.strip(), payload
    return replay


_jobs_union = jobs


def jobs(tier):
    return _jobs_union(tier) + [(h_tuple_index, (k, nx), 900) for k in ((0, 2) if tier == 'quick' else (0, 1, 2, 3)) for nx in range(-1, k)] + [(h_tuple_index, (k, nx, True), 900) for k in ((1, 2) if tier == 'quick' else (1, 2, 3)) for nx in range(0, k)]


@guard
def h_tuple_endtuple(pattern):
    """TupleBuilder::endtuple with an open tuple and no field builder active; field i holds length_ (not filled: pattern 0), length_ + 1 (filled
    once: 1) or length_ + 2 (filled twice: 2) entries: a field filled more than once is refused; otherwise every field that was not filled
    receives exactly one None, all fields end with one entry per closed tuple, the tuple count grows by one and the tuple is closed"""
    from .cpp01 import struct_of
    k = len(pattern)
    slots, nslots = builder_slots()
    mod = module_of(TB)
    fo, sz, al, fields = mod.types.struct_layout(struct_of(mod, '_ZN7awkward12TupleBuilder5indexEl'))
    stubs = dict(COMMON_STUBS)
    stubs.update(_child_stubs(slots))
    stubs['_ZNSt7__cxx119to_stringEm'] = nodeh.s_empty_string
    m = MCtx([TB, GB], unwind=k + 8, stubs=stubs)
    m.record('fakevt', {8 * j: (Ptr(('func', 'vf$slot%d' % j), 0), 8) for j in range(nslots)}, const=True)
    length = m.bv('length')
    m.assume(length >= 0, length <= 2 ** 40)
    cells = {}
    for i in range(k):
        m.record('kid%d' % i, {0: (Ptr('fakevt', 0), 8), 8: (NULL, 8), 16: (NULL, 8), 32: (length + pattern[i], 8)})
        cells[16 * i] = (Ptr('kid%d' % i, 0), 8); cells[16 * i + 8] = (NULL, 8)
    m.record('kidsbuf', cells, const=True)
    m.record('ctrl', {0: (NULL, 8), 8: (z3.BitVecVal(1, 32), 4), 12: (z3.BitVecVal(1, 32), 4)})
    st0 = State({}, m.mem, z3.BoolVal(True))
    vt = m.eng.global_ptr(st0, '@_ZTVN7awkward12TupleBuilderE', mod)
    nb = 16 * k
    tb = {0: (Ptr(vt.obj, 16), 8), 8: (Ptr('tb', 0), 8), 16: (Ptr('ctrl', 0), 8), fo[1]: (BV(8), 8), fo[1] + 8: (z3.FPVal(1.5, z3.Float64()), 8),
          fo[2]: (Ptr('kidsbuf', 0) if k else NULL, 8), fo[2] + 8: (Ptr('kidsbuf', nb) if k else NULL, 8), fo[2] + 16: (Ptr('kidsbuf', nb) if k else NULL, 8),
          fo[3]: (length, 8), fo[4]: (z3.BitVecVal(1, 8), 1), fo[5]: (BV(-1), 8)}
    this = m.record('tb', tb)
    m.record('ret', {})
    out = m.call('_ZN7awkward12TupleBuilder8endtupleEv', [Ptr('ret', 0), this])
    over = any(p == 2 for p in pattern)
    obls = [('raises exactly when a field was filled more than once', z3.simplify(out.raised) != z3.BoolVal(over))]
    if not over:
        o = out.mem.o
        obls += [('the tuple count grows by one', o['tb'].cells[fo[3]][0] != length + 1), ('the tuple is closed', o['tb'].cells[fo[4]][0] != 0)]
        for i in range(k):
            obls.append(('field %d ends with one entry per closed tuple' % i, o['kid%d' % i].cells[32][0] != length + 1))
        nulls = [(pc, nm, a) for pc, nm, a in out.trace]
        obls.append(('exactly the unfilled fields receive a value (None), once', z3.BoolVal(len(nulls) != sum(1 for p in pattern if p == 0))))

    def replay(model, ent_):
        import subprocess, os
        L = min(model.eval(length, model_completion=True).as_signed_long(), 1000)
        drv = NATIVE_PREFIX.replace('#include "awkward/builder/GrowableBuffer.h"', '#include "awkward/builder/GrowableBuffer.h"\n#include "awkward/builder/TupleBuilder.h"') + r'''
int main(int argc, char** argv) {
  int k = atoi(argv[1]); long long L = atoll(argv[2]);
  ArrayBuilderOptions opts(8, 1.5);
  std::vector<BuilderPtr> kids; std::vector<int> pat; bool over = false;
  for (int i = 0; i < k; i++) { pat.push_back(atoi(argv[3 + i])); over = over || pat[i] == 2; kids.push_back(std::make_shared<Count>(L + pat[i])); }
  std::shared_ptr<TupleBuilder> t = std::make_shared<TupleBuilder>(opts, kids, L, true, -1);
  bool raised = false;
  try { t->endtuple(); } catch (std::invalid_argument& e) { raised = true; }
  int bad = 0;
  if (raised != over) bad |= 1;
  if (!raised) { if (t->length_ != L + 1 || t->begun_) bad |= 2; for (int i = 0; i < k; i++) if (t->contents_[i]->length() != L + 1) bad |= 4; }
  printf("bad=%d raised=%d\n", bad, (int)raised);
  return bad ? 1 : 0;
}
'''
        try:
            exe = fullnative_link(drv)
        except Exception as e:      # noqa
            return False, 'replay driver did not build: %s' % str(e)[-600:], {}
        r = subprocess.run([exe, str(k), str(L)] + [str(p_) for p_ in pattern], capture_output=True, text=True, timeout=30,
                           env=dict(os.environ, ASAN_OPTIONS='detect_leaks=0', UBSAN_OPTIONS='halt_on_error=1:exitcode=87'), errors='replace')
        payload = dict(pattern=list(pattern), length=L, native=r.stdout.strip())
        if r.returncode != 0:
            return True, 'endtuple with fields filled %s times at %d closed tuples: native builder gives %s %s' % (list(pattern), L, r.stdout.strip(), r.stderr[-200:] if not r.stdout.strip() else ''), payload
        return False, 'native builder agrees (%s)' % r.stdout.strip(), payload
    return mdischarge(m, 'TupleBuilder::endtuple fields=%s' % (list(pattern),), obls, [], replay=replay, prefer=[length <= 5],
                      extra=dict(bounds='%d fields, fill pattern concrete (case split), any tuple count' % k))


_jobs_tuple = jobs


def jobs(tier):
    pats = [(1, 1), (0, 1, 0), (1, 2), ()] if tier == 'quick' else [p for n in (0, 1, 2, 3) for p in itertools.product((0, 1, 2), repeat=n)]
    return _jobs_tuple(tier) + [(h_tuple_endtuple, (p,), 900) for p in pats]


@guard
def h_tuple_begintuple(n):
    """TupleBuilder::begintuple(n) on a fresh tuple builder: a negative number of fields is refused (it can match no tuple and must not be handed
    on to a new union member for ever); otherwise the builder gets n fresh field builders and an open tuple with no field selected"""
    from .cpp01 import struct_of
    slots, nslots = builder_slots()
    mod = module_of(TB)
    fo, sz, al, fields = mod.types.struct_layout(struct_of(mod, '_ZN7awkward12TupleBuilder5indexEl'))
    stubs = dict(COMMON_STUBS)
    stubs.update(_child_stubs(slots))
    handed = []

    def s_fromsingle(eng, fr, ins, st, name, argv):
        handed.append(st.pc)
        rec = st.mem.o[argv[0].obj]
        rec.cells[argv[0].off] = (Ptr('other', 0), 8); rec.cells[argv[0].off + 8] = (NULL, 8)
        return None

    def s_begintuple(eng, fr, ins, st, name, argv):
        rec = st.mem.o[argv[0].obj]
        rec.cells[argv[0].off] = (Ptr('other', 0), 8); rec.cells[argv[0].off + 8] = (NULL, 8)
        return None
    stubs['_ZN7awkward12UnionBuilder10fromsingle*'] = s_fromsingle
    stubs['vf$slot%d' % slots['10begintupleEl']] = s_begintuple
    stubs['_ZN7awkward14UnknownBuilder9fromempty*'] = s_begintuple
    m = MCtx([TB, GB], unwind=max(n, 0) + 8, stubs=stubs)
    m.record('fakevt', {8 * j: (Ptr(('func', 'vf$slot%d' % j), 0), 8) for j in range(nslots)}, const=True)
    m.record('other', {0: (Ptr('fakevt', 0), 8), 8: (NULL, 8), 16: (NULL, 8), 32: (BV(0), 8)})
    m.record('ctrl', {0: (NULL, 8), 8: (z3.BitVecVal(1, 32), 4), 12: (z3.BitVecVal(1, 32), 4)})
    st0 = State({}, m.mem, z3.BoolVal(True))
    vt = m.eng.global_ptr(st0, '@_ZTVN7awkward12TupleBuilderE', mod)
    tb = {0: (Ptr(vt.obj, 16), 8), 8: (Ptr('tb', 0), 8), 16: (Ptr('ctrl', 0), 8), fo[1]: (BV(8), 8), fo[1] + 8: (z3.FPVal(1.5, z3.Float64()), 8),
          fo[2]: (NULL, 8), fo[2] + 8: (NULL, 8), fo[2] + 16: (NULL, 8), fo[3]: (BV(-1), 8), fo[4]: (z3.BitVecVal(0, 8), 1), fo[5]: (BV(-1), 8)}
    this = m.record('tb', tb)
    m.record('ret', {})
    out = m.call('_ZN7awkward12TupleBuilder10begintupleEl', [Ptr('ret', 0), this, BV(n)])
    obls = [('raises exactly for a negative number of fields', z3.simplify(out.raised) != z3.BoolVal(n < 0)),
            ('a fresh tuple builder takes the tuple itself (no union is made)', z3.Or(handed + [z3.BoolVal(False)]))]
    if n >= 0:
        o = out.mem.o['tb']
        vb, ve = o.cells[fo[2]][0], o.cells[fo[2] + 8][0]
        nb = m.eng.ptrtoint_sized(State({}, out.mem, z3.BoolVal(True)), ve) - m.eng.ptrtoint_sized(State({}, out.mem, z3.BoolVal(True)), vb) if n else BV(0)
        obls += [('the tuple is open with no field selected', z3.Or(o.cells[fo[4]][0] == 0, o.cells[fo[5]][0] != -1)), ('it has exactly n field builders', z3.simplify(nb) != 16 * n),
                 ('no tuple is closed yet', o.cells[fo[3]][0] != 0)]

    def replay(model, ent_):
        import subprocess, os
        drv = r'''
#include <cstdio>
#include <cstdlib>
#include <stdexcept>
#include "awkward/builder/ArrayBuilder.h"
#include "awkward/builder/ArrayBuilderOptions.h"
#include "awkward/Content.h"
using namespace awkward;
int main(int argc, char** argv) {
  long n = atol(argv[1]);
  ArrayBuilder b(ArrayBuilderOptions(8, 1.5));
  bool raised = false;
  try { b.begintuple(n); for (long i = 0; i < n; i++) { b.index(i); b.integer(i); } b.endtuple(); } catch (std::invalid_argument& e) { raised = true; }
  int bad = (raised != (n < 0)) ? 1 : 0;
  if (!raised && b.length() != 1) bad |= 2;
  printf("bad=%d raised=%d\n", bad, (int)raised);
  return bad ? 1 : 0;
}
'''
        try:
            exe = fullnative_link(drv)
        except Exception as e:      # noqa
            return False, 'replay driver did not build: %s' % str(e)[-600:], {}
        try:
            r = subprocess.run([exe, str(n)], capture_output=True, text=True, timeout=60,
                               env=dict(os.environ, ASAN_OPTIONS='detect_leaks=0', UBSAN_OPTIONS='halt_on_error=1:exitcode=87'), errors='replace')
        except subprocess.TimeoutExpired:
            return True, 'ArrayBuilder::begintuple(%d): the native run does not return' % n, dict(n=n)
        payload = dict(n=n, native=r.stdout.strip())
        if r.returncode != 0:
            return True, 'ArrayBuilder::begintuple(%d): native builder gives %s %s' % (n, r.stdout.strip(), [l[:160] for l in r.stderr.splitlines() if 'ERROR' in l or 'runtime error' in l][:1]), payload
        return False, 'native builder agrees (%s)' % r.stdout.strip(), payload
    return mdischarge(m, 'TupleBuilder::begintuple(%d) on a fresh builder' % n, obls, [], replay=replay, extra=dict(bounds='number of fields concrete (case split)'))


_jobs_endtuple = jobs


def jobs(tier):
    return _jobs_endtuple(tier) + [(h_tuple_begintuple, (n,), 900) for n in ((-1, 0, 2) if tier == 'quick' else (-3, -1, 0, 1, 2, 3))]


# ------------------------------------------------------------------------------------------------ records of the same kind share one type; absent fields are None
def _cstring(m, name, text):
    arr = z3.K(z3.BitVecSort(64), z3.BitVecVal(0, 8))
    for i, ch in enumerate(text.encode()):
        arr = z3.Store(arr, BV(i), z3.BitVecVal(ch, 8))
    return m.array(name, ('i', 8), len(text) + 1, const=True, arr=arr)


def _read_cstring(mem, p):
    cs = [(g, q) for g, q in ptr_cases(p) if q.obj is not None]
    if len(cs) != 1:
        return None
    o, off = mem.o[cs[0][1].obj], cs[0][1].off
    out = []
    for j in range(64):
        if hasattr(o, 'cells'):
            c = o.cells.get(off + j)
            v = z3.simplify(c[0]) if c else None
        else:
            v = z3.simplify(z3.Select(o.arr, z3.simplify(off + j)))
        if v is None or not z3.is_bv_value(v):
            return None
        if v.as_long() == 0:
            break
        out.append(v.as_long())
    return bytes(out).decode('latin1')


def cstring_stubs():
    from .mnode import _read_string

    def s_string_from_cstr(eng, fr, ins, st, name, argv):
        """std::string(const char*, alloc): a short concrete text becomes a real SSO string"""
        this, src = argv[0], argv[1]
        t = _read_cstring(st.mem, src)
        if t is None or len(t) > 15:
            raise Unsupported('std::string from a C string that is not a short concrete text')
        o = st.mem.o[this.obj]
        o.cells[this.off] = (Ptr(this.obj, this.off + 16), 8)
        o.cells[this.off + 8] = (BV(len(t)), 8)
        for j, ch in enumerate(t.encode() + b'\0'):
            o.cells[this.off + 16 + j] = (z3.BitVecVal(ch, 8), 1)
        for j in range(len(t) + 1, 16):
            o.cells[this.off + 16 + j] = (z3.BitVecVal(0, 8), 1)
        return None

    def s_compare_cstr(eng, fr, ins, st, name, argv):
        a, b = _read_string(st.mem, argv[0]), _read_cstring(st.mem, argv[1])
        if a is None or b is None:
            raise Unsupported('std::string::compare(const char*) on text that is not concrete')
        return z3.BitVecVal((a > b) - (a < b), 32)
    def s_replace(eng, fr, ins, st, name, argv):
        """std::string::_M_replace(pos, len1, s, len2) used as a whole-string assignment of a short concrete text"""
        this, pos, len1, src, len2 = argv
        pos, len2 = z3.simplify(pos), z3.simplify(len2)
        if not (z3.is_bv_value(pos) and pos.as_long() == 0 and z3.is_bv_value(len2) and len2.as_long() <= 15):
            raise Unsupported('std::string::_M_replace other than a whole assignment of a short text')
        n_ = len2.as_long()
        t = ''
        if n_:
            t = _read_cstring(st.mem, src)
            if t is None:
                raise Unsupported('std::string assignment from text that is not concrete')
            t = t[:n_]
        o = st.mem.o[this.obj]
        o.cells[this.off] = (Ptr(this.obj, this.off + 16), 8)
        o.cells[this.off + 8] = (BV(len(t)), 8)
        for j, ch in enumerate(t.encode() + b'\0'):
            o.cells[this.off + 16 + j] = (z3.BitVecVal(ch, 8), 1)
        return this
    return {'_ZNSt7__cxx1112basic_stringIcSt11char_traitsIcESaIcEE10_M_replaceEmmPKcm': s_replace,
            '_ZNSt7__cxx1112basic_stringIcSt11char_traitsIcESaIcEEC1EPKcRKS3_': s_string_from_cstr, '_ZNSt7__cxx1112basic_stringIcSt11char_traitsIcESaIcEEC2EPKcRKS3_': s_string_from_cstr,
            '_ZNKSt7__cxx1112basic_stringIcSt11char_traitsIcESaIcEE7compareEPKc': s_compare_cstr}


@guard
def h_record_field(names, key, nexttotry, length):
    """RecordBuilder::field_check(key) in an open record with no field builder active, from any position of the key-search cursor: a key the
    record type already has selects that field (whatever the cursor) and adds nothing; a new key becomes a new last field whose builder
    already holds one None per closed record - so that earlier records read None for it - and the key is stored under its own text"""
    from .cpp01 import struct_of
    from .mnode import _string_cells, _read_string, string_stubs
    names = tuple(names)
    k = len(names)
    slots, nslots = builder_slots()
    mod = module_of(RB)
    fo, sz, al, fields = mod.types.struct_layout(struct_of(mod, '_ZN7awkward13RecordBuilder9endrecordEv'))
    stubs = dict(COMMON_STUBS)
    stubs.update(_child_stubs(slots))

    class _NC:          # string_stubs only needs an object to hang on
        pass
    stubs.update(string_stubs(_NC()))
    stubs.update(cstring_stubs())
    m = MCtx([RB, UB, OB, GB, 'src/libawkward/builder/ArrayBuilderOptions.cpp', 'src/libawkward/kernel-dispatch.cpp'], unwind=max(k, length) + 12, stubs=stubs)
    m.record('fakevt', {8 * j: (Ptr(('func', 'vf$slot%d' % j), 0), 8) for j in range(nslots)}, const=True)
    kc, sc, pc_ = {}, {}, {}
    for i, nm in enumerate(names):
        m.record('kid%d' % i, {0: (Ptr('fakevt', 0), 8), 8: (NULL, 8), 16: (NULL, 8), 32: (BV(length), 8)})
        kc[16 * i] = (Ptr('kid%d' % i, 0), 8); kc[16 * i + 8] = (NULL, 8)
        _string_cells(sc, 32 * i, 'keysbuf', nm)
        pc_[8 * i] = (NULL, 8)
    m.record('kidsbuf', kc); m.record('keysbuf', sc); m.record('ptrsbuf', pc_)
    m.record('ctrl', {0: (NULL, 8), 8: (z3.BitVecVal(1, 32), 4), 12: (z3.BitVecVal(1, 32), 4)})
    keyp = _cstring(m, 'keytext', key)
    st0 = State({}, m.mem, z3.BoolVal(True))
    vt = m.eng.global_ptr(st0, '@_ZTVN7awkward13RecordBuilderE', mod)

    def vec(buf, nbytes):
        return [(Ptr(buf, 0) if k else NULL, 8), (Ptr(buf, nbytes) if k else NULL, 8), (Ptr(buf, nbytes) if k else NULL, 8)]
    cells = {0: (Ptr(vt.obj, 16), 8), 8: (Ptr('rb', 0), 8), 16: (Ptr('ctrl', 0), 8), fo[1]: (BV(8), 8), fo[1] + 8: (z3.FPVal(1.5, z3.Float64()), 8),
             fo[6]: (NULL, 8), fo[7]: (BV(length), 8), fo[8]: (z3.BitVecVal(1, 8), 1), fo[9]: (BV(-1), 8), fo[10]: (BV(nexttotry), 8), fo[11]: (BV(k), 8)}
    for base, (buf, per) in ((fo[2], ('kidsbuf', 16)), (fo[3], ('keysbuf', 32)), (fo[4], ('ptrsbuf', 8))):
        for j, c in enumerate(vec(buf, per * k)):
            cells[base + 8 * j] = c
    _string_cells(cells, fo[5], 'rb', '')
    this = m.record('rb', cells)
    m.record('ret', {})
    out = m.call('_ZN7awkward13RecordBuilder11field_checkEPKc', [Ptr('ret', 0), this, keyp])
    obls = [('field does not raise in an open record', out.raised)]
    o = out.mem.o['rb']

    def vec_items(base, per):
        b, e = o.cells[base][0], o.cells[base + 8][0]
        bc = [q for g, q in ptr_cases(b) if q.obj is not None]
        ec = [q for g, q in ptr_cases(e) if q.obj is not None]
        if not bc:
            return []
        if len(bc) != 1 or len(ec) != 1 or bc[0].obj != ec[0].obj:
            raise Unsupported('a vector of the builder is not a single buffer after the step')
        return [(bc[0].obj, bc[0].off + per * i) for i in range((ec[0].off - bc[0].off) // per)]
    kids1, keys1 = vec_items(fo[2], 16), vec_items(fo[3], 32)
    got_names = [_read_string(out.mem, Ptr(ob, off)) for ob, off in keys1]
    ni, nt, ks = o.cells[fo[9]][0], o.cells[fo[10]][0], o.cells[fo[11]][0]
    if key in names:
        j = names.index(key)
        obls += [('a known key selects its field', ni != j), ('the search cursor moves behind it', nt != j + 1), ('nothing is added', z3.BoolVal(len(kids1) != k or got_names != list(names))),
                 ('the number of keys is unchanged', ks != k)]
    else:
        obls += [('a new key becomes the last field and is selected', ni != k), ('the search cursor is reset', nt != 0), ('the number of keys grows by one', ks != k + 1),
                 ('the keys are the old ones followed by the new one (%s)' % got_names, z3.BoolVal(got_names != list(names) + [key])),
                 ('one field builder is added', z3.BoolVal(len(kids1) != k + 1))]
        if len(kids1) == k + 1:
            for i in range(k):
                pi = out.mem.o[kids1[i][0]].cells[kids1[i][1]][0]
                obls.append(('field builder %d stays in place' % i, z3.Not(z3.Or([g for g, q in ptr_cases(pi) if q.obj == 'kid%d' % i] + [z3.BoolVal(False)]))))
            pn = out.mem.o[kids1[k][0]].cells[kids1[k][1]][0]
            cs = [(g, q) for g, q in ptr_cases(pn) if q.obj is not None]
            if len(cs) != 1:
                raise Unsupported('new field builder pointer has %d cases' % len(cs))
            nb, nbase = out.mem.o[cs[0][1].obj], cs[0][1].off
            vp = nb.cells[nbase][0]
            cls = str([q.obj for g, q in ptr_cases(vp) if q.obj is not None][0])
            if length == 0:
                obls.append(('with no closed record the new field starts as an empty builder of unknown type', z3.BoolVal('UnknownBuilder' not in cls)))
            else:
                obmod = module_of(OB)
                fob = obmod.types.struct_layout(struct_of(obmod, '_ZN7awkward13OptionBuilder4nullEv'))[0]
                if 'OptionBuilder' not in cls:
                    obls.append(('the new field is option-type', z3.BoolVal(True)))
                else:
                    bp, ln = nb.cells[nbase + fob[2] + 16][0], nb.cells[nbase + fob[2] + 32][0]
                    obls.append(('the new field holds one entry per closed record', ln != length))
                    bcs = [(g, q) for g, q in ptr_cases(bp) if q.obj is not None]
                    for i in range(length):
                        v = None
                        for g, q in bcs:
                            e = z3.Select(out.mem.o[q.obj].arr, z3.simplify(q.off + i))
                            v = e if v is None else z3.If(g, e, v)
                        obls.append(('entry %d of the new field is None' % i, v != -1))

    def replay(model, ent_):
        import subprocess, os
        drv = NATIVE_PREFIX + r'''
int main(int argc, char** argv) {
  // argv: key nexttotry length k names...
  const char* key = argv[1]; long long nt = atoll(argv[2]), L = atoll(argv[3]); int k = atoi(argv[4]);
  ArrayBuilderOptions opts(8, 1.5);
  std::vector<BuilderPtr> kids; std::vector<std::string> keys; std::vector<const char*> ptrs;
  for (int i = 0; i < k; i++) { kids.push_back(std::make_shared<Count>(L)); keys.push_back(argv[5 + i]); ptrs.push_back(nullptr); }
  std::shared_ptr<RecordBuilder> rb = std::make_shared<RecordBuilder>(opts, kids, keys, ptrs, "", nullptr, L, true, -1, nt);
  int bad = 0, known = -1;
  for (int i = 0; i < k; i++) if (keys[i] == key && known < 0) known = i;
  try { rb->field_check(key); } catch (std::exception& e) { bad |= 1; }
  if (!bad) {
    if (known >= 0) { if (rb->nextindex_ != known || rb->nexttotry_ != known + 1 || (int)rb->contents_.size() != k || (int)rb->keys_.size() != k) bad |= 2; }
    else {
      if (rb->nextindex_ != k || rb->nexttotry_ != 0 || (int)rb->contents_.size() != k + 1 || (int)rb->keys_.size() != k + 1 || rb->keys_size_ != k + 1) bad |= 4;
      else { if (rb->keys_[k] != key) bad |= 8; if (rb->contents_[k]->length() != L) bad |= 16; for (int i = 0; i < k; i++) if (rb->keys_[i] != argv[5 + i]) bad |= 32; }
    }
  }
  printf("bad=%d\n", bad);
  return bad ? 1 : 0;
}
'''
        try:
            exe = fullnative_link(drv)
        except Exception as e:      # noqa
            return False, 'replay driver did not build: %s' % str(e)[-600:], {}
        r = subprocess.run([exe, key, str(nexttotry), str(length), str(k)] + list(names), capture_output=True, text=True, timeout=30,
                           env=dict(os.environ, ASAN_OPTIONS='detect_leaks=0', UBSAN_OPTIONS='halt_on_error=1:exitcode=87'), errors='replace')
        payload = dict(names=list(names), key=key, nexttotry=nexttotry, length=length, native=r.stdout.strip())
        if r.returncode != 0:
            return True, 'record type %s (%d closed records, cursor %d), field("%s"): native builder gives %s %s' % (list(names), length, nexttotry, key, r.stdout.strip(), r.stderr[-200:] if not r.stdout.strip() else ''), payload
        return False, 'native builder agrees (%s)' % r.stdout.strip(), payload
    return mdischarge(m, 'RecordBuilder%s::field("%s") cursor=%d records=%d' % (list(names), key, nexttotry, length), obls, [], replay=replay,
                      extra=dict(bounds='field names, key, cursor position and number of closed records concrete (case split)'))


_jobs_begintuple = jobs


def jobs(tier):
    # (('x', 'y'), 'x', 1, ..): the key sits *before* the cursor - the search has to wrap around (seed C14_H stopped at the end of the key list)
    q = [(('x', 'y'), 'y', 0, 0), (('x', 'y'), 'x', 2, 2), (('x', 'y'), 'x', 1, 2), (('x', 'y'), 'z', 1, 2), ((), 'a', 0, 0), (('a',), 'b', 1, 0)]
    if tier != 'quick':
        q += [(('a', 'b', 'c'), 'a', 1, 1), (('a', 'b', 'c'), 'c', 3, 0), (('a', 'b', 'c'), 'd', 2, 3), (('ab', 'a'), 'a', 0, 1), ((), 'k', 0, 2)]
    return _jobs_begintuple(tier) + [(h_record_field, a, 900) for a in q]


# ------------------------------------------------------------------------------------------------ strings are reproduced byte for byte
SB = 'src/libawkward/builder/StringBuilder.cpp'


@guard
def h_string_append(n, terminated):
    """StringBuilder::string(x, length, encoding) with n bytes (an explicit length, or a NUL-terminated text when length < 0): the content grows by
    exactly those bytes, in order and unchanged (NUL bytes inside an explicit-length string included), one offset = the new content length is
    appended, and everything stored before is untouched"""
    from .cpp01 import struct_of
    mod = module_of(SB)
    fo, sz, al, fields = mod.types.struct_layout(struct_of(mod, '_ZN7awkward13StringBuilder6stringEPKclS2_'))
    m = MCtx([SB, GB, 'src/libawkward/builder/ArrayBuilderOptions.cpp', 'src/libawkward/kernel-dispatch.cpp'], unwind=n + 8, stubs=dict(COMMON_STUBS))
    C, NO = m.bv('contentlength'), m.bv('noffsets')
    m.assume(C >= 0, C <= 2 ** 30, NO >= 1, NO <= 2 ** 20)
    m.record('ctrl', {0: (NULL, 8), 8: (z3.BitVecVal(1, 32), 4), 12: (z3.BitVecVal(1, 32), 4)})
    st0 = State({}, m.mem, z3.BoolVal(True))
    vt = m.eng.global_ptr(st0, '@_ZTVN7awkward13StringBuilderE', mod)
    obuf = m.array('offsets', ('i', 64), NO + 2)
    cbuf = m.array('content', ('i', 8), C + n + 2)
    x = m.array('text', ('i', 8), n + 1, const=True)
    o0, c0, x0 = (z3.Array(nm, z3.BitVecSort(64), z3.BitVecSort(b)) for nm, b in (('offsets', 64), ('content', 8), ('text', 8)))
    xs = [z3.Select(x0, BV(i)) for i in range(n + 1)]
    if terminated:
        for i in range(n):
            m.assume(xs[i] != 0)
        m.assume(xs[n] == 0)
    cells = {0: (Ptr(vt.obj, 16), 8), 8: (Ptr('sb', 0), 8), 16: (Ptr('ctrl', 0), 8), fo[1]: (BV(8), 8), fo[1] + 8: (z3.FPVal(1.5, z3.Float64()), 8), fo[4]: (NULL, 8)}
    for base, buf, ln, cap in ((fo[2], obuf, NO, NO + 2), (fo[3], cbuf, C, C + n + 2)):
        cells.update({base: (BV(8), 8), base + 8: (z3.FPVal(1.5, z3.Float64()), 8), base + 16: (buf, 8), base + 24: (NULL, 8), base + 32: (ln, 8), base + 40: (cap, 8)})
    this = m.record('sb', cells)
    m.record('ret', {})
    out = m.call('_ZN7awkward13StringBuilder6stringEPKclS2_', [Ptr('ret', 0), this, x, BV(-1) if terminated else BV(n), NULL])
    o = out.mem.o['sb']
    o1, c1 = out.mem.o['offsets'].arr, out.mem.o['content'].arr
    j = z3.BitVec('j!pos', 64)
    obls = [('appending a string does not raise', out.raised),
            ('the content grows by exactly the bytes of the string', o.cells[fo[3] + 32][0] != C + n),
            ('one offset is appended', o.cells[fo[2] + 32][0] != NO + 1),
            ('the new offset is the new content length', z3.Select(o1, NO) != C + n),
            ('earlier offsets are untouched', z3.And(j >= 0, j < NO, z3.Select(o1, j) != z3.Select(o0, j))),
            ('earlier content is untouched', z3.And(j >= 0, j < C, z3.Select(c1, j) != z3.Select(c0, j)))]
    for i in range(n):
        obls.append(('byte %d of the string is stored unchanged' % i, z3.Select(c1, C + i) != xs[i]))

    def replay(model, ent_):
        import subprocess, os
        ev = lambda t: model.eval(t, model_completion=True)
        Cv, NOv = ev(C).as_signed_long(), ev(NO).as_signed_long()
        if Cv > 200 or NOv > 50:
            return False, 'earlier content too long to replay', {}
        bs = [ev(b).as_long() for b in xs[:n]]
        drv = NATIVE_PREFIX.replace('#include "awkward/builder/GrowableBuffer.h"', '#include "awkward/builder/GrowableBuffer.h"\n#include "awkward/builder/StringBuilder.h"') + r'''
int main(int argc, char** argv) {
  // argv: C NO terminated n bytes...
  long long C = atoll(argv[1]), NO = atoll(argv[2]); bool term = atoi(argv[3]) != 0; int n = atoi(argv[4]);
  ArrayBuilderOptions opts(8, 1.5);
  BuilderPtr b = StringBuilder::fromempty(opts, "utf-8");
  StringBuilder* sb = dynamic_cast<StringBuilder*>(b.get());
  // reach the state: NO offsets (the first is 0), C content bytes
  std::string filler((size_t)C, 'q');
  if (NO >= 2) { b->string(filler.c_str(), C, "utf-8"); for (long long i = 2; i < NO; i++) b->string("", 0, "utf-8"); }
  else if (C != 0) { printf("bad=0 (state not reachable through the API)\n"); return 0; }
  std::vector<char> x; for (int i = 0; i < n; i++) x.push_back((char)atoi(argv[5 + i])); x.push_back(0);
  long long C0 = sb->content_.length(), N0 = sb->offsets_.length();
  b->string(x.data(), term ? -1 : n, "utf-8");
  int bad = 0;
  if (sb->content_.length() != C0 + n) bad |= 1;
  if (sb->offsets_.length() != N0 + 1) bad |= 2;
  else if (sb->offsets_.ptr().get()[N0] != C0 + n) bad |= 4;
  for (int i = 0; i < n && C0 + i < sb->content_.length(); i++) if (sb->content_.ptr().get()[C0 + i] != (uint8_t)x[(size_t)i]) bad |= 8;
  for (long long i = 0; i < C0; i++) if (sb->content_.ptr().get()[i] != 'q') bad |= 16;
  printf("bad=%d\n", bad);
  return bad ? 1 : 0;
}
'''
        try:
            exe = fullnative_link(drv)
        except Exception as e:      # noqa
            return False, 'replay driver did not build: %s' % str(e)[-600:], {}
        r = subprocess.run([exe, str(Cv), str(NOv), str(int(terminated)), str(n)] + [str(b_) for b_ in bs], capture_output=True, text=True, timeout=30,
                           env=dict(os.environ, ASAN_OPTIONS='detect_leaks=0', UBSAN_OPTIONS='halt_on_error=1:exitcode=87'), errors='replace')
        payload = dict(bytes=bs, content_before=Cv, offsets_before=NOv, terminated=terminated, native=r.stdout.strip())
        if r.returncode != 0:
            return True, 'string of bytes %s (%s) after %d content bytes: native builder gives %s %s' % (bs, 'NUL-terminated' if terminated else 'explicit length', Cv, r.stdout.strip(), r.stderr[-200:] if not r.stdout.strip() else ''), payload
        return False, 'native builder agrees (%s)' % r.stdout.strip(), payload
    return mdischarge(m, 'StringBuilder::string %d bytes%s' % (n, ' (NUL-terminated)' if terminated else ''), obls, [], replay=replay, prefer=[C <= 4, NO <= 3, NO >= 2],
                      extra=dict(bounds='%d bytes of any value (non-zero when NUL-terminated), any earlier content up to 2^30 bytes and 2^20 offsets, buffers with room' % n))


_jobs_field = jobs


def jobs(tier):
    return _jobs_field(tier) + [(h_string_append, (n, t), 900) for n in ((0, 3) if tier == 'quick' else (0, 1, 2, 3, 5)) for t in (False, True)]


# ------------------------------------------------------------------------------------------------ clear() returns a builder to its initial state
@guard
def h_builder_clear(which, k):
    """RecordBuilder::clear / TupleBuilder::clear with k fields: afterwards the builder is in the state of a freshly made one - in particular the
    representation invariant holds again: a record builder has exactly one key per field builder (snapshot() pairs them by position), a tuple
    builder whose field count is still to be announced (length_ == -1) has no field builders (begintuple(n) adds n)"""
    from .cpp01 import struct_of
    from .mnode import _string_cells
    slots, nslots = builder_slots()
    stubs = dict(COMMON_STUBS)
    stubs.update(_child_stubs(slots))
    cleared = []

    def s_clear(eng, fr, ins, st, name, argv):
        cleared.append(st.pc)
        return None
    stubs['vf$slot%d' % slots['5clearEv']] = s_clear
    stubs.update({k_: v_ for k_, v_ in cstring_stubs().items() if '_M_replace' in k_})
    if which == 'record':
        mod = module_of(RB)
        fo = mod.types.struct_layout(struct_of(mod, '_ZN7awkward13RecordBuilder9endrecordEv'))[0]
        m = MCtx([RB, GB], unwind=k + 8, stubs=stubs)
    else:
        mod = module_of(TB)
        fo = mod.types.struct_layout(struct_of(mod, '_ZN7awkward12TupleBuilder5indexEl'))[0]
        m = MCtx([TB, GB], unwind=k + 8, stubs=stubs)
    m.record('fakevt', {8 * j: (Ptr(('func', 'vf$slot%d' % j), 0), 8) for j in range(nslots)}, const=True)
    length = m.bv('length')
    m.assume(length >= 0, length <= 2 ** 40)
    kc, sc, pc_ = {}, {}, {}
    for i in range(k):
        m.record('kid%d' % i, {0: (Ptr('fakevt', 0), 8), 8: (NULL, 8), 16: (NULL, 8), 32: (length, 8)})
        kc[16 * i] = (Ptr('kid%d' % i, 0), 8); kc[16 * i + 8] = (NULL, 8)
        _string_cells(sc, 32 * i, 'keysbuf', 'f%d' % i)
        pc_[8 * i] = (NULL, 8)
    m.record('kidsbuf', kc); m.record('keysbuf', sc); m.record('ptrsbuf', pc_)
    m.record('ctrl', {0: (NULL, 8), 8: (z3.BitVecVal(1, 32), 4), 12: (z3.BitVecVal(1, 32), 4)})
    st0 = State({}, m.mem, z3.BoolVal(True))

    def vec(buf, nbytes):
        return [(Ptr(buf, 0) if k else NULL, 8), (Ptr(buf, nbytes) if k else NULL, 8), (Ptr(buf, nbytes) if k else NULL, 8)]
    if which == 'record':
        vt = m.eng.global_ptr(st0, '@_ZTVN7awkward13RecordBuilderE', mod)
        cells = {0: (Ptr(vt.obj, 16), 8), 8: (Ptr('b', 0), 8), 16: (Ptr('ctrl', 0), 8), fo[1]: (BV(8), 8), fo[1] + 8: (z3.FPVal(1.5, z3.Float64()), 8),
                 fo[6]: (NULL, 8), fo[7]: (length, 8), fo[8]: (z3.BitVecVal(0, 8), 1), fo[9]: (BV(-1), 8), fo[10]: (BV(0), 8), fo[11]: (BV(k), 8)}
        for base, (buf, per) in ((fo[2], ('kidsbuf', 16)), (fo[3], ('keysbuf', 32)), (fo[4], ('ptrsbuf', 8))):
            for j, c in enumerate(vec(buf, per * k)):
                cells[base + 8 * j] = c
        _string_cells(cells, fo[5], 'b', '')
        sym = '_ZN7awkward13RecordBuilder5clearEv'
    else:
        vt = m.eng.global_ptr(st0, '@_ZTVN7awkward12TupleBuilderE', mod)
        cells = {0: (Ptr(vt.obj, 16), 8), 8: (Ptr('b', 0), 8), 16: (Ptr('ctrl', 0), 8), fo[1]: (BV(8), 8), fo[1] + 8: (z3.FPVal(1.5, z3.Float64()), 8),
                 fo[3]: (length, 8), fo[4]: (z3.BitVecVal(0, 8), 1), fo[5]: (BV(-1), 8)}
        for j, c in enumerate(vec('kidsbuf', 16 * k)):
            cells[fo[2] + 8 * j] = c
        sym = '_ZN7awkward12TupleBuilder5clearEv'
    this = m.record('b', cells)
    out = m.call(sym, [this])
    o = out.mem.o['b']
    st1 = State({}, out.mem, z3.BoolVal(True))

    def vsize(base):
        b_, e_ = o.cells[base][0], o.cells[base + 8][0]
        return z3.simplify(m.eng.ptrtoint_sized(st1, e_) - m.eng.ptrtoint_sized(st1, b_))
    obls = [('clear does not raise', out.raised)]
    if which == 'record':
        obls += [('after clear the number of keys is the number of field builders', z3.UDiv(vsize(fo[2]), BV(16)) != z3.UDiv(vsize(fo[3]), BV(32))),
                 ('after clear keys_size_ is the number of keys', o.cells[fo[11]][0] != z3.UDiv(vsize(fo[3]), BV(32))),
                 ('after clear no record has been closed and none is open', z3.Or(o.cells[fo[7]][0] != -1, o.cells[fo[8]][0] != 0))]
    else:
        obls += [('a tuple builder that waits for its field count has no field builders', z3.And(o.cells[fo[3]][0] == -1, vsize(fo[2]) != 0)),
                 ('after clear no tuple has been closed and none is open', z3.Or(o.cells[fo[3]][0] != -1, o.cells[fo[4]][0] != 0))]
    # what the builder reports as its length afterwards (a value of another type arriving next builds a union around it with that many entries)
    out2 = m.call('_ZNK7awkward%s6lengthEv' % ('13RecordBuilder' if which == 'record' else '12TupleBuilder'), [this])
    obls.append(('a cleared builder reports length 0', z3.Or(out2.raised, out2.ret != 0)))

    def replay(model, ent_):
        import subprocess, os
        drv = r'''
#include <cstdio>
#include <cstdlib>
#include <string>
#include "awkward/builder/ArrayBuilder.h"
#include "awkward/builder/ArrayBuilderOptions.h"
#include "awkward/Content.h"
using namespace awkward;
int main(int argc, char** argv) {
  std::string which = argv[1]; int k = atoi(argv[2]);
  ArrayBuilder a(ArrayBuilderOptions(8, 1.5)), f(ArrayBuilderOptions(8, 1.5));
  auto fill = [&](ArrayBuilder& b, int base) {
    if (which == "record") { b.beginrecord(); for (int i = 0; i < k; i++) { std::string key = "g" + std::to_string(i); b.field_check(key.c_str()); b.integer(base + i); } b.endrecord(); }
    else { b.begintuple(k); for (int i = 0; i < k; i++) { b.index(i); b.integer(base + i); } b.endtuple(); }
  };
  try {
    // first use with other field names / the same field count, then clear, then the same history as a fresh builder
    if (which == "record") { a.beginrecord(); for (int i = 0; i < k; i++) { std::string key = "f" + std::to_string(i); a.field_check(key.c_str()); a.integer(i); } a.endrecord(); }
    else fill(a, 0);
    a.clear();
    fill(a, 10); fill(f, 10);
    std::string ja = a.snapshot().get()->tojson(false, -1), jf = f.snapshot().get()->tojson(false, -1);
    std::string ta = a.snapshot().get()->validityerror("a");
    int bad = (ja != jf) ? 1 : 0;
    if (!ta.empty()) bad |= 2;
    if (a.snapshot().get()->classname() != f.snapshot().get()->classname()) bad |= 4;
    // a value of another type after clear: the cleared builder is wrapped in a union and must count as empty
    ArrayBuilder c(ArrayBuilderOptions(8, 1.5));
    fill(c, 0); c.clear(); c.integer(5);
    if (c.snapshot().get()->tojson(false, -1) != "[5]") bad |= 16;
    printf("bad=%d cleared=%s fresh=%s\n", bad, ja.c_str(), jf.c_str());
    return bad ? 1 : 0;
  } catch (std::exception& e) { printf("bad=8 raised %.60s\n", e.what()); return 1; }
}
'''
        try:
            exe = fullnative_link(drv)
        except Exception as e:      # noqa
            return False, 'replay driver did not build: %s' % str(e)[-600:], {}
        r = subprocess.run([exe, which, str(k)], capture_output=True, text=True, timeout=30,
                           env=dict(os.environ, ASAN_OPTIONS='detect_leaks=0', UBSAN_OPTIONS='halt_on_error=1:exitcode=87'), errors='replace')
        payload = dict(which=which, fields=k, native=r.stdout.strip()[:300])
        if r.returncode != 0:
            return True, '%s builder with %d fields: fill, clear, fill again vs a fresh builder: %s %s (1 = different value, 4 = different type, 16 = a number appended after clear is not reproduced, crash otherwise)' % (
                which, k, r.stdout.strip()[:200], [l[:140] for l in r.stderr.splitlines() if 'ERROR' in l or 'runtime error' in l][:1]), payload
        return False, 'native builders agree (%s)' % r.stdout.strip()[:120], payload
    return mdischarge(m, '%sBuilder::clear with %d fields' % ('Record' if which == 'record' else 'Tuple', k), obls, [], replay=replay,
                      extra=dict(bounds='%d fields (case split), any number of closed records / tuples' % k))


_jobs_string = jobs


def jobs(tier):
    return _jobs_string(tier) + [(h_builder_clear, (w, k), 900) for w in ('record', 'tuple') for k in ((0, 2) if tier == 'quick' else (0, 1, 2, 3))]


@guard
def h_string_encoding(n):
    """StringBuilder::string with an encoding other than the builder's own (a bytestring appended to a builder of utf-8 strings): the value must
    not be stored among the strings of the other kind - a union takes over, this builder's strings are untouched, and the union's new member
    holds the bytes under the requested encoding"""
    from .cpp01 import struct_of
    mod = module_of(SB)
    fo, sz, al, fields = mod.types.struct_layout(struct_of(mod, '_ZN7awkward13StringBuilder6stringEPKclS2_'))
    m = MCtx([SB, UNB, GB, 'src/libawkward/builder/ArrayBuilderOptions.cpp', 'src/libawkward/kernel-dispatch.cpp'], unwind=n + 12, stubs=dict(COMMON_STUBS))
    C, NO = m.bv('contentlength'), BV(3)          # two earlier strings (the union that takes over gets one tag per earlier string: a loop over their number)
    m.assume(C >= 0, C <= 2 ** 30)
    m.record('ctrl', {0: (NULL, 8), 8: (z3.BitVecVal(1, 32), 4), 12: (z3.BitVecVal(1, 32), 4)})
    st0 = State({}, m.mem, z3.BoolVal(True))
    vt = m.eng.global_ptr(st0, '@_ZTVN7awkward13StringBuilderE', mod)
    obuf = m.array('offsets', ('i', 64), NO + 2)
    cbuf = m.array('content', ('i', 8), C + n + 2)
    x = m.array('text', ('i', 8), n + 1, const=True)
    enc = _cstring(m, 'utf8', 'utf-8')
    cells = {0: (Ptr(vt.obj, 16), 8), 8: (Ptr('sb', 0), 8), 16: (Ptr('ctrl', 0), 8), fo[1]: (BV(8), 8), fo[1] + 8: (z3.FPVal(1.5, z3.Float64()), 8), fo[4]: (enc, 8)}
    for base, buf, ln, cap in ((fo[2], obuf, NO, NO + 2), (fo[3], cbuf, C, C + n + 2)):
        cells.update({base: (BV(8), 8), base + 8: (z3.FPVal(1.5, z3.Float64()), 8), base + 16: (buf, 8), base + 24: (NULL, 8), base + 32: (ln, 8), base + 40: (cap, 8)})
    this = m.record('sb', cells)
    m.record('ret', {})
    out = m.call('_ZN7awkward13StringBuilder6stringEPKclS2_', [Ptr('ret', 0), this, x, BV(n), NULL])          # encoding nullptr = bytestring
    o = out.mem.o['sb']
    rp = m.cell('ret', 0)
    same = z3.Or([g for g, q in ptr_cases(rp) if q.obj == 'sb'] + [z3.BoolVal(False)])
    obls = [('appending a value of the other kind does not raise', out.raised),
            ('the bytes are not stored among this builder\'s strings', z3.Or(o.cells[fo[3] + 32][0] != C, o.cells[fo[2] + 32][0] != NO)),
            ('another builder (a union) takes over', z3.And(z3.Not(out.raised), same))]

    def replay(model, ent_):
        import subprocess, os
        drv = r'''
#include <cstdio>
#include <cstdlib>
#include <string>
#include "awkward/builder/ArrayBuilder.h"
#include "awkward/builder/ArrayBuilderOptions.h"
#include "awkward/Content.h"
#include "awkward/type/Type.h"
using namespace awkward;
int main(int argc, char** argv) {
  ArrayBuilder b(ArrayBuilderOptions(8, 1.5));
  b.string(std::string("abc")); b.bytestring(std::string("xyz"));
  ContentPtr s = b.snapshot();
  std::string c = s.get()->classname();
  int bad = (c.find("UnionArray") == std::string::npos) ? 1 : 0;      // a string and a bytestring are values of two kinds
  printf("bad=%d class=%s\n", bad, c.c_str());
  return bad ? 1 : 0;
}
'''
        try:
            exe = fullnative_link(drv)
        except Exception as e:      # noqa
            return False, 'replay driver did not build: %s' % str(e)[-600:], {}
        r = subprocess.run([exe], capture_output=True, text=True, timeout=30, env=dict(os.environ, ASAN_OPTIONS='detect_leaks=0', UBSAN_OPTIONS='halt_on_error=1:exitcode=87'), errors='replace')
        payload = dict(native=r.stdout.strip())
        if r.returncode != 0:
            return True, 'string("abc") then bytestring("xyz"): the native snapshot is %s - the bytestring was stored as a string' % r.stdout.strip(), payload
        return False, 'native builders agree (%s)' % r.stdout.strip(), payload
    return mdischarge(m, 'StringBuilder::string with another encoding, %d bytes' % n, obls, [], replay=replay, prefer=[C <= 4],
                      extra=dict(bounds='%d bytes, builder encoding utf-8, requested encoding none (bytestring); two earlier strings of any total length' % n))


_jobs_clear = jobs


def jobs(tier):
    return _jobs_clear(tier) + [(h_string_encoding, (n,), 900) for n in ((2,) if tier == 'quick' else (0, 2, 3))]


C128B = 'src/libawkward/builder/Complex128Builder.cpp'


@guard
def h_int64_complex(n, reserved_c):
    """Int64Builder::complex(z) with n integers appended so far in a buffer of the given capacity: the builder that takes over holds the n integers
    as complex numbers (imaginary part 0), in order, followed by z; every read stays inside the integers' buffer and every write inside the new
    buffer (the conversion touches n entries, not 2n)"""
    from .cpp01 import struct_of
    mod = module_of(I64B)
    fo, sz, al, fields = mod.types.struct_layout(struct_of(mod, '_ZN7awkward12Int64Builder4realEd'))
    m = MCtx([I64B, C128B, GB, 'src/libawkward/builder/ArrayBuilderOptions.cpp', 'src/libawkward/kernel-dispatch.cpp'], unwind=2 * n + 10, stubs=dict(COMMON_STUBS))
    re_, im_ = m.fp('re'), m.fp('im')
    m.record('ctrl', {0: (NULL, 8), 8: (z3.BitVecVal(1, 32), 4), 12: (z3.BitVecVal(1, 32), 4)})
    st0 = State({}, m.mem, z3.BoolVal(True))
    vt = m.eng.global_ptr(st0, '@_ZTVN7awkward12Int64BuilderE', mod)
    cells = {0: (Ptr(vt.obj, 16), 8), 8: (Ptr('ib', 0), 8), 16: (Ptr('ctrl', 0), 8), fo[1]: (BV(8), 8), fo[1] + 8: (z3.FPVal(1.5, z3.Float64()), 8)}
    a0 = _growable(m, 'ints', BV(n), BV(reserved_c), fo[2], cells, 'ib')
    this = m.record('ib', cells)
    m.record('ret', {})
    out = m.call('_ZN7awkward12Int64Builder7complexESt7complexIdE', [Ptr('ret', 0), this, re_, im_])
    obls = [('the step does not raise', out.raised)]
    rp = m.cell('ret', 0)
    cs = [(g, q) for g, q in ptr_cases(rp) if q.obj is not None] if rp is not None else []
    if len(cs) == 1:
        nb, base = out.mem.o[cs[0][1].obj], cs[0][1].off
        cmod = module_of(C128B)
        fo2 = cmod.types.struct_layout(struct_of(cmod, '_ZNK7awkward17Complex128Builder6lengthEv'))[0]
        bp, ln = nb.cells[base + fo2[2] + 16][0], nb.cells[base + fo2[2] + 32][0]
        obls.append(('the complex builder holds one more entry', ln != n + 1))
        bcs = [(g, q) for g, q in ptr_cases(bp) if q.obj is not None]

        def ent(k):
            v = None
            for g, q in bcs:
                e = z3.Select(out.mem.o[q.obj].arr, z3.simplify(q.off + k))
                v = e if v is None else z3.If(g, e, v)
            return v
        for i in range(n):
            old = z3.Select(a0, BV(i))
            obls.append(('entry %d is the integer as a complex number' % i, z3.Or(z3.fpToIEEEBV(ent(2 * i)) != z3.fpToIEEEBV(z3.fpSignedToFP(z3.RNE(), old, z3.Float64())), z3.Not(z3.fpIsZero(ent(2 * i + 1))))))
        obls.append(('the last entry is the appended number', z3.And(z3.Not(z3.fpIsNaN(re_)), z3.Not(z3.fpIsNaN(im_)), z3.Or(z3.fpToIEEEBV(ent(2 * n)) != z3.fpToIEEEBV(re_), z3.fpToIEEEBV(ent(2 * n + 1)) != z3.fpToIEEEBV(im_)))))
    else:
        obls.append(('a builder is returned', z3.Not(out.raised)))

    def replay(model, ent_):
        import subprocess, os
        drv = r'''
#include <cstdio>
#include <cstdlib>
#include <complex>
#include "awkward/builder/ArrayBuilder.h"
#include "awkward/builder/ArrayBuilderOptions.h"
#include "awkward/Content.h"
using namespace awkward;
int main(int argc, char** argv) {
  int n = atoi(argv[1]); long cap = atol(argv[2]);
  ArrayBuilder b(ArrayBuilderOptions(cap, 1.5));
  for (int i = 0; i < n; i++) b.integer(100 + i);
  b.complex(std::complex<double>(1.5, 2.5));
  std::string js = b.snapshot().get()->tojson(false, -1);
  int bad = (b.length() != n + 1) ? 1 : 0;
  printf("bad=%d %s\n", bad, js.substr(0, 120).c_str());
  return bad ? 1 : 0;
}
'''
        try:
            exe = fullnative_link(drv)
        except Exception as e:      # noqa
            return False, 'replay driver did not build: %s' % str(e)[-600:], {}
        r = subprocess.run([exe, str(n), str(reserved_c)], capture_output=True, text=True, timeout=30,
                           env=dict(os.environ, ASAN_OPTIONS='detect_leaks=0', UBSAN_OPTIONS='halt_on_error=1:exitcode=87'), errors='replace')
        payload = dict(integers=n, capacity=reserved_c, native=r.stdout.strip()[:200])
        if r.returncode != 0:
            return True, '%d integers (initial capacity %d) then a complex number: native builders give %s %s' % (n, reserved_c, r.stdout.strip()[:120], [l[:160] for l in r.stderr.splitlines() if 'ERROR' in l or 'runtime error' in l][:1]), payload
        return False, 'native builders agree (%s)' % r.stdout.strip()[:100], payload
    return mdischarge(m, 'Int64Builder::complex after %d integers, capacity %d' % (n, reserved_c), obls, [], replay=replay,
                      extra=dict(bounds='%d integers (any values) in a buffer of capacity %d, any complex number' % (n, reserved_c)))


_jobs_enc = jobs


def jobs(tier):
    return _jobs_enc(tier) + [(h_int64_complex, a, 900) for a in ([(0, 4), (3, 4)] if tier == 'quick' else [(0, 4), (1, 4), (2, 4), (3, 4), (4, 4), (5, 8)])]


# ------------------------------------------------------------------------------------------------ C14: ListBuilder::clear and the snapshots taken before it
@guard
def h_list_clear():
    """ListBuilder::clear from any state (n >= 1 offsets in a buffer that earlier snapshots share): afterwards the builder holds the single offset
    0, its content builder has been cleared, the old offsets buffer is untouched - and the builder no longer uses it: what is appended next goes
    to a fresh buffer, so no snapshot taken before changes"""
    from .cpp01 import struct_of
    slots, nslots = builder_slots()
    mod = module_of(LB)
    fo, sz, al, fields = mod.types.struct_layout(struct_of(mod, '_ZN7awkward11ListBuilder7endlistEv'))
    stubs = dict(COMMON_STUBS)
    stubs.update(_child_stubs(slots))

    def s_child_clear(eng, fr, ins, st, name, argv):
        st.trace = st.trace + ((st.pc, 'clear', ()),)
        return None
    stubs['vf$slot%d' % slots['5clearEv']] = s_child_clear
    m = MCtx([LB, GB, 'src/libawkward/builder/ArrayBuilderOptions.cpp', 'src/libawkward/kernel-dispatch.cpp'], unwind=8, stubs=stubs)
    m.record('fakevt', {8 * j: (Ptr(('func', 'vf$slot%d' % j), 0), 8) for j in range(nslots)}, const=True)
    n, res, L = m.bv('noffsets'), m.bv('reserved'), m.bv('contentlength')
    m.assume(n >= 1, n <= res, res >= 1, res <= 2 ** 20, L >= 0, L <= 2 ** 40)
    m.record('content', {0: (Ptr('fakevt', 0), 8), 8: (NULL, 8), 16: (NULL, 8), 32: (L, 8)})
    m.record('ctrl', {0: (NULL, 8), 8: (z3.BitVecVal(1, 32), 4), 12: (z3.BitVecVal(1, 32), 4)})
    st0 = State({}, m.mem, z3.BoolVal(True))
    vt = m.eng.global_ptr(st0, '@_ZTVN7awkward11ListBuilderE', mod)
    begun = m.bv('begun', 8)
    m.assume(z3.ULE(begun, 1))
    cells = {0: (Ptr(vt.obj, 16), 8), 8: (Ptr('lb', 0), 8), 16: (Ptr('ctrl', 0), 8), fo[1]: (BV(8), 8), fo[1] + 8: (z3.FPVal(1.5, z3.Float64()), 8),
             fo[3]: (Ptr('content', 0), 8), fo[3] + 8: (NULL, 8), fo[4]: (begun, 1)}
    a0 = _growable(m, 'offsets', n, res, fo[2], cells, 'lb')
    m.assume(z3.Select(a0, BV(0)) == 0)            # representation invariant: the first offset is 0
    this = m.record('lb', cells)
    out = m.call('_ZN7awkward11ListBuilder5clearEv', [this])
    a1 = m.mem.o['offsets'].arr
    j = z3.BitVec('j!pos', 64)
    newptr = m.cell('lb', fo[2] + 16)
    still_old = z3.Or([g for g, q in nodeh_ptr_cases(newptr) if q.obj == 'offsets'] + [z3.BoolVal(False)])
    newlen = m.cell('lb', fo[2] + 32)
    first = None
    for g, q in nodeh_ptr_cases(newptr):
        if q.obj is not None and q.obj in m.mem.o and hasattr(m.mem.o[q.obj], 'arr'):
            v = z3.Select(m.mem.o[q.obj].arr, q.off if not isinstance(q.off, int) else BV(q.off))
            first = v if first is None else z3.If(g, v, first)
    cleared = [pc for pc, nm, a in out.trace if nm == 'clear']
    obls = [('clear does not raise', out.raised),
            ('one offset is left', newlen != 1),
            ('the offset left is 0', z3.BoolVal(True) if first is None else first != 0),
            ('the old offsets (shared with snapshots) are untouched', z3.And(j >= 0, j < n, z3.Select(a1, j) != z3.Select(a0, j))),
            ('the builder no longer appends into the buffer that snapshots share', still_old),
            ('the content builder is cleared', z3.Not(z3.Or(cleared + [z3.BoolVal(False)]))),
            ('no list is open after clear (a cleared builder is in its initial state)', m.cell('lb', fo[4]) != 0)]

    def replay(model, ent_):
        import subprocess, os
        drv = r'''
#include <cstdio>
#include <string>
#include "awkward/builder/ArrayBuilder.h"
#include "awkward/builder/ArrayBuilderOptions.h"
#include "awkward/Content.h"
using namespace awkward;
int main() {
  {
    // clear() in the middle of an open list: the list is gone, what follows is appended at the top level
    ArrayBuilder c(ArrayBuilderOptions(8, 1.5));
    c.beginlist(); c.integer(2); c.clear(); c.beginlist(); c.integer(5); c.endlist();
    std::string open_ = c.snapshot().get()->tojson(false, 10);
    if (open_ != "[[5]]") { printf("beginlist; integer(2); clear(); beginlist; integer(5); endlist gives %s\n", open_.c_str()); return 1; }
  }
  ArrayBuilder b(ArrayBuilderOptions(8, 1.5));
  b.beginlist(); b.integer(2); b.integer(3); b.endlist(); b.beginlist(); b.endlist();
  ContentPtr snap = b.snapshot();
  std::string before = snap.get()->tojson(false, 10);
  b.clear();
  b.beginlist(); b.integer(5); b.endlist(); b.beginlist(); b.integer(6); b.integer(7); b.integer(8); b.endlist();
  std::string after = snap.get()->tojson(false, 10);
  std::string now = b.snapshot().get()->tojson(false, 10);
  printf("before=%s after=%s now=%s\n", before.c_str(), after.c_str(), now.c_str());
  return (before == after && now == "[[5],[6,7,8]]") ? 0 : 1;
}
'''
        try:
            exe = fullnative_link(drv)
        except Exception as e:      # noqa
            return False, 'replay driver did not build: %s' % str(e)[-600:], {}
        r = subprocess.run([exe], capture_output=True, text=True, timeout=30,
                           env=dict(os.environ, ASAN_OPTIONS='detect_leaks=0', UBSAN_OPTIONS='halt_on_error=1:exitcode=87'), errors='replace')
        payload = dict(native=r.stdout.strip())
        if r.returncode != 0:
            return True, 'snapshot of [[2, 3], []], then clear() and two more lists: %s' % (r.stdout.strip() or r.stderr[-200:]), payload
        return False, 'native builder agrees (%s)' % r.stdout.strip(), payload
    return mdischarge(m, 'ListBuilder::clear', obls, [], replay=replay, prefer=[n <= 6, res <= 8, L <= 50], extra=dict(bounds='any number of offsets >= 1 up to the reserved capacity <= 2^20, open or closed list, opaque content builder'))


def nodeh_ptr_cases(p):
    from .nodeh import ptr_cases
    return ptr_cases(p)


_jobs_before_listclear = jobs


def jobs(tier):
    return _jobs_before_listclear(tier) + [(h_list_clear, (), 900)]


# ------------------------------------------------------------------------------------------------ C14: clear() of the leaf builders and the snapshots taken before it
LEAF_CLEAR = {   # class -> (source, mangled class, element kind of its buffers in field order, entries left after clear per buffer)
    'BoolBuilder': (BOB, '11BoolBuilder', [('i', 8)], [0]),
    'Int64Builder': (I64B, '12Int64Builder', [('i', 64)], [0]),
    'Float64Builder': (F64B, '14Float64Builder', [('f', 64)], [0]),
    'Complex128Builder': (C128B, '17Complex128Builder', [('f', 64)], [0]),
    'DatetimeBuilder': ('src/libawkward/builder/DatetimeBuilder.cpp', '15DatetimeBuilder', [('i', 64)], [0]),
    'StringBuilder': (SB, '13StringBuilder', [('i', 64), ('i', 8)], [1, 0]),        # offsets (one entry, 0, is left) and bytes
}


@guard
def h_leaf_clear(cls):
    """clear() of a leaf builder from any state: every buffer it appends to afterwards is a fresh one (the old buffers, which snapshots taken
    before share, are neither written nor kept), and the builder is empty again (a string builder keeps the single offset 0)"""
    from .cpp01 import struct_of
    src, mangled, kinds, left = LEAF_CLEAR[cls]
    mod = module_of(src)
    sym = '_ZN7awkward%s5clearEv' % mangled
    fo, sz, al, fields = mod.types.struct_layout(struct_of(mod, sym))
    bufs = [k for k, f in enumerate(fields) if 'GrowableBuffer' in f]
    if len(bufs) != len(kinds):
        raise Unsupported('%s: %d GrowableBuffer fields, expected %d (%s)' % (cls, len(bufs), len(kinds), fields))
    stubs = dict(COMMON_STUBS)
    m = MCtx([src, GB, 'src/libawkward/builder/ArrayBuilderOptions.cpp', 'src/libawkward/kernel-dispatch.cpp'], unwind=8, stubs=stubs)
    m.record('ctrl', {0: (NULL, 8), 8: (z3.BitVecVal(1, 32), 4), 12: (z3.BitVecVal(1, 32), 4)})
    st0 = State({}, m.mem, z3.BoolVal(True))
    vt = m.eng.global_ptr(st0, '@_ZTVN7awkward%sE' % mangled, mod)
    cells = {0: (Ptr(vt.obj, 16), 8), 8: (Ptr('b', 0), 8), 16: (Ptr('ctrl', 0), 8)}
    # ArrayBuilderOptions of the builder itself (initial 8, resize 1.5) wherever the layout has one
    for k, f in enumerate(fields):
        if 'ArrayBuilderOptions' in f and 'GrowableBuffer' not in f:
            cells.update({fo[k]: (BV(8), 8), fo[k] + 8: (z3.FPVal(1.5, z3.Float64()), 8)})
    old, lens = [], []
    for j, (k, kind) in enumerate(zip(bufs, kinds)):
        n, res = m.bv('length%d' % j), m.bv('reserved%d' % j)
        m.assume(n >= left[j], n <= res, res >= 1, res <= 2 ** 20)
        buf = m.array('old%d' % j, kind, res)
        cells.update({fo[k]: (BV(8), 8), fo[k] + 8: (z3.FPVal(1.5, z3.Float64()), 8), fo[k] + 16: (buf, 8), fo[k] + 24: (NULL, 8), fo[k] + 32: (n, 8), fo[k] + 40: (res, 8)})
        old.append(m.mem.o['old%d' % j].arr); lens.append(n)
    for k, f in enumerate(fields):
        if fo[k] not in cells and ('basic_string' in f):
            cells.update({fo[k]: (Ptr('b', fo[k] + 16), 8), fo[k] + 8: (BV(0), 8), fo[k] + 16: (z3.BitVecVal(0, 8), 1)})
    this = m.record('b', cells)
    out = m.call(sym, [this])
    obls = [('clear does not raise', out.raised)]
    j_ = z3.BitVec('j!pos', 64)
    for j, k in enumerate(bufs):
        newptr, newlen = m.cell('b', fo[k] + 16), m.cell('b', fo[k] + 32)
        still_old = z3.Or([g for g, q in nodeh_ptr_cases(newptr) if q.obj == 'old%d' % j] + [z3.BoolVal(False)])
        a1 = m.mem.o['old%d' % j].arr
        obls += [('buffer %d: %d entries are left' % (j, left[j]), newlen != left[j]),
                 ('buffer %d: the builder no longer appends into the buffer that snapshots share' % j, still_old),
                 ('buffer %d: the old entries (shared with snapshots) are untouched' % j, z3.And(j_ >= 0, j_ < lens[j], z3.Select(a1, j_) != z3.Select(old[j], j_)))]
    def replay(model, ent_):
        import subprocess, os
        try:
            exe = fullnative_link(LEAF_CLEAR_DRIVER)
        except Exception as e:      # noqa
            return False, 'replay driver did not build: %s' % str(e)[-600:], {}
        r = subprocess.run([exe, cls], capture_output=True, text=True, timeout=30,
                           env=dict(os.environ, ASAN_OPTIONS='detect_leaks=0', UBSAN_OPTIONS='halt_on_error=1:exitcode=87'), errors='replace')
        payload = dict(native=r.stdout.strip()[:400])
        if r.returncode != 0:
            return True, '%s: three values, snapshot, clear(), three other values: %s' % (cls, r.stdout.strip()[:300] or r.stderr[-200:]), payload
        return False, 'native builder agrees (%s)' % r.stdout.strip()[:200], payload
    return mdischarge(m, '%s::clear' % cls, obls, [], replay=replay, extra=dict(bounds='any buffer lengths up to the reserved capacities <= 2^20'))


LEAF_CLEAR_DRIVER = r'''
#include <cstdio>
#include <string>
#include <complex>
#include "awkward/builder/ArrayBuilder.h"
#include "awkward/builder/ArrayBuilderOptions.h"
#include "awkward/Content.h"
using namespace awkward;
static void put(ArrayBuilder& b, const std::string& cls, int v) {
  if (cls == "BoolBuilder") b.boolean(v % 2 == 1);
  else if (cls == "Int64Builder") b.integer(v);
  else if (cls == "Float64Builder") b.real(v + 0.5);
  else if (cls == "Complex128Builder") b.complex(std::complex<double>(v, -v));
  else if (cls == "DatetimeBuilder") b.datetime(v, "datetime64[s]");
  else b.string(std::string((size_t)(v % 3 + 1), (char)('a' + v % 26)));
}
static std::string show(const ContentPtr& x, const std::string& cls) { return cls == "DatetimeBuilder" ? x.get()->tostring() : x.get()->tojson(false, 10); }
int main(int argc, char** argv) {
  std::string cls = argv[1];
  ArrayBuilder b(ArrayBuilderOptions(8, 1.5)), fresh(ArrayBuilderOptions(8, 1.5));
  for (int v = 1; v <= 3; v++) put(b, cls, v);
  ContentPtr snap = b.snapshot();
  std::string before = show(snap, cls);
  b.clear();
  for (int v = 8; v <= 11; v++) { put(b, cls, v); put(fresh, cls, v); }      // (other values, another count and - for strings - other lengths than before)
  std::string after = show(snap, cls);
  std::string now = show(b.snapshot(), cls), want = show(fresh.snapshot(), cls);
  if (cls == "DatetimeBuilder") { size_t p; while ((p = now.find("at=\"0x")) != std::string::npos) now.erase(p, 20); while ((p = want.find("at=\"0x")) != std::string::npos) want.erase(p, 20); }
  printf("snapshot before=%s after=%s; refilled=%s fresh=%s\n", before.c_str(), after.c_str(), now.c_str(), want.c_str());
  return (before == after && now == want) ? 0 : 1;
}
'''


_jobs_before_leafclear = jobs


def jobs(tier):
    return _jobs_before_leafclear(tier) + [(h_leaf_clear, (c,), 900) for c in LEAF_CLEAR]

# ------------------------------------------------------------------------------------------------ C14: UnionBuilder::clear
@guard
def h_union_clear(nmembers, active):
    """UnionBuilder::clear from any state (tags / index of any length, `active`: a member is in the middle of a list / record): afterwards no
    tags and no index entries are left, every member builder has been cleared, and no member is active any more - the builder is in its initial
    state, what is appended next is a new top-level entry"""
    from .cpp01 import struct_of
    slots, nslots = builder_slots()
    mod = module_of(UNB)
    fo, sz, al, fields = mod.types.struct_layout(struct_of(mod, '_ZN7awkward12UnionBuilder7integerEl'))
    stubs = dict(COMMON_STUBS)
    stubs.update(_child_stubs(slots))
    cleared = []

    def s_child_clear(eng, fr, ins, st, name, argv):
        cleared.append((st.pc, argv[0]))
        return None
    stubs['vf$slot%d' % slots['5clearEv']] = s_child_clear
    m = MCtx([UNB, GB, 'src/libawkward/builder/ArrayBuilderOptions.cpp', 'src/libawkward/kernel-dispatch.cpp'], unwind=nmembers + 10, stubs=stubs)
    m.record('fakevt', {8 * j: (Ptr(('func', 'vf$slot%d' % j), 0), 8) for j in range(nslots)}, const=True)
    ntags = m.bv('ntags')
    m.assume(ntags >= 0, ntags <= 2 ** 20)
    cells = {}
    for i in range(nmembers):
        m.record('kid%d' % i, {0: (Ptr('fakevt', 0), 8), 8: (NULL, 8), 16: (NULL, 8), 32: (m.bv('kidlen%d' % i), 8)})
        cells[16 * i] = (Ptr('kid%d' % i, 0), 8); cells[16 * i + 8] = (NULL, 8)
    m.record('kidsbuf', cells, const=True)
    nb = 16 * nmembers
    st0 = State({}, m.mem, z3.BoolVal(True))
    vt = m.eng.global_ptr(st0, '@_ZTVN7awkward12UnionBuilderE', mod)
    tg = m.array('tags', ('i', 8), ntags + 2)
    ix = m.array('index', ('i', 64), ntags + 2)
    m.record('ub_ctrl', {0: (NULL, 8), 8: (z3.BitVecVal(1, 32), 4), 12: (z3.BitVecVal(1, 32), 4)})
    cur = m.bv('current', 8)
    if active:
        m.assume(cur >= 0, cur < nmembers)
    else:
        m.assume(cur == -1)
    ub = {0: (Ptr(vt.obj, 16), 8), 8: (Ptr('ub', 0), 8), 16: (Ptr('ub_ctrl', 0), 8), fo[1]: (BV(8), 8), fo[1] + 8: (z3.FPVal(1.5, z3.Float64()), 8)}
    for base, buf in ((fo[2], tg), (fo[3], ix)):
        ub.update({base: (BV(8), 8), base + 8: (z3.FPVal(1.5, z3.Float64()), 8), base + 16: (buf, 8), base + 24: (NULL, 8), base + 32: (ntags, 8), base + 40: (ntags + 2, 8)})
    ub.update({fo[4]: (Ptr('kidsbuf', 0) if nmembers else NULL, 8), fo[4] + 8: (Ptr('kidsbuf', nb) if nmembers else NULL, 8), fo[4] + 16: (Ptr('kidsbuf', nb) if nmembers else NULL, 8), fo[5]: (cur, 1)})
    this = m.record('ub', ub)
    out = m.call('_ZN7awkward12UnionBuilder5clearEv', [this])
    o_ub = out.mem.o['ub']
    obls = [('clear does not raise', out.raised),
            ('no tags and no index entries are left', z3.Or(o_ub.cells[fo[2] + 32][0] != 0, o_ub.cells[fo[3] + 32][0] != 0)),
            ('no member is active after clear', o_ub.cells[fo[5]][0] != z3.BitVecVal(-1, 8))]
    for i in range(nmembers):
        hit = [pc for pc, p in cleared if any(q.obj == 'kid%d' % i for g, q in ptr_cases(p))]
        obls.append(('member %d is cleared' % i, z3.Not(z3.Or(hit + [z3.BoolVal(False)]))))

    def replay(model, ent_):
        import subprocess, os
        drv = r'''
#include <cstdio>
#include <string>
#include "awkward/builder/ArrayBuilder.h"
#include "awkward/builder/ArrayBuilderOptions.h"
#include "awkward/Content.h"
using namespace awkward;
int main() {
  // a union of numbers and lists; clear() while a list (a member of the union) is open; then a plain number
  ArrayBuilder b(ArrayBuilderOptions(8, 1.5));
  b.integer(1); b.beginlist(); b.integer(2); b.clear(); b.integer(7);
  std::string now = b.snapshot().get()->tojson(false, 10);
  printf("integer(1); beginlist; integer(2); clear(); integer(7) gives %s\n", now.c_str());
  return now == "[7]" ? 0 : 1;
}
'''
        try:
            exe = fullnative_link(drv)
        except Exception as e:      # noqa
            return False, 'replay driver did not build: %s' % str(e)[-600:], {}
        r = subprocess.run([exe], capture_output=True, text=True, timeout=30,
                           env=dict(os.environ, ASAN_OPTIONS='detect_leaks=0', UBSAN_OPTIONS='halt_on_error=1:exitcode=87'), errors='replace')
        payload = dict(native=r.stdout.strip())
        if r.returncode != 0:
            return True, 'a union builder cleared while one of its members is open: %s' % (r.stdout.strip() or r.stderr[-200:]), payload
        return False, 'native builder agrees (%s)' % r.stdout.strip(), payload
    return mdischarge(m, 'UnionBuilder::clear %d members, %s' % (nmembers, 'one of them active' if active else 'none active'), obls, [], replay=replay, prefer=[ntags <= 4],
                      extra=dict(bounds='%d opaque member builders, any number of tags / index entries up to 2^20, the active member symbolic' % nmembers))


_jobs_before_unionclear = jobs


def jobs(tier):
    return _jobs_before_unionclear(tier) + [(h_union_clear, a, 900) for a in ((2, True), (2, False), (3, True), (0, False))]


_jobs_before_indexedbuilder = jobs


def jobs(tier):
    from . import mnode
    return _jobs_before_indexedbuilder(tier) + mnode.jobs_indexed_builder(tier)
