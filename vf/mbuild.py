"""C14 at the builder-tree level (M-harness): one step of RecordBuilder / ListBuilder / OptionBuilder from an arbitrary state that satisfies
the builder's representation invariant, with opaque child builders (test doubles whose virtual methods are observation points).
Decided: the step re-establishes the invariant the snapshot relies on (every field has exactly one entry per closed record; offsets grow
by the number of items appended)."""
import itertools, z3
from . import runner, nodeh, build
from .nodeh import BV, SRC, COMMON_STUBS
from .mharness import MCtx, mdischarge, module_of
from .cpp01 import struct_of, vtable_slots
from .oracle import guard
from .llbmc import Ptr, NULL, Unsupported, State, ptr_cases

RB = 'src/libawkward/builder/RecordBuilder.cpp'


def builder_slots():
    slots, n = vtable_slots(module_of(RB), 'N7awkward13RecordBuilderE')
    out = {}
    for s, k in slots.items():
        m = s.split('RecordBuilder')[-1]
        out[m] = k
    return out, n


NATIVE = r'''
#include <cstdio>
#include <cstdlib>
#include <cstring>
#include <vector>
#include <string>
#include <memory>
#include <stdexcept>
#include <sstream>
#include <iostream>
#include <map>
#include <set>
#include <complex>
#include <mutex>
#include <functional>
#include <algorithm>
#include <typeinfo>
#define private public
#define protected public
#include "awkward/builder/ArrayBuilderOptions.h"
#include "awkward/builder/Builder.h"
#include "awkward/builder/RecordBuilder.h"
#undef private
#undef protected
using namespace awkward;
// test double: a field builder that only counts its entries
class Count : public Builder {
public:
  int64_t n; bool act;
  Count(int64_t n0): n(n0), act(false) { }
  const std::string classname() const override { return "Count"; }
  int64_t length() const override { return n; }
  void clear() override { n = 0; }
  const ContentPtr snapshot() const override { return ContentPtr(nullptr); }
  bool active() const override { return act; }
  const BuilderPtr null() override { n++; return shared_from_this(); }
  const BuilderPtr boolean(bool) override { n++; return shared_from_this(); }
  const BuilderPtr integer(int64_t) override { n++; return shared_from_this(); }
  const BuilderPtr real(double) override { n++; return shared_from_this(); }
  const BuilderPtr complex(std::complex<double>) override { n++; return shared_from_this(); }
  const BuilderPtr datetime(int64_t, const std::string&) override { n++; return shared_from_this(); }
  const BuilderPtr timedelta(int64_t, const std::string&) override { n++; return shared_from_this(); }
  const BuilderPtr string(const char*, int64_t, const char*) override { n++; return shared_from_this(); }
  const BuilderPtr beginlist() override { return shared_from_this(); }
  const BuilderPtr endlist() override { return shared_from_this(); }
  const BuilderPtr begintuple(int64_t) override { return shared_from_this(); }
  const BuilderPtr index(int64_t) override { return shared_from_this(); }
  const BuilderPtr endtuple() override { return shared_from_this(); }
  const BuilderPtr beginrecord(const char*, bool) override { return shared_from_this(); }
  const BuilderPtr field(const char*, bool) override { return shared_from_this(); }
  const BuilderPtr endrecord() override { return shared_from_this(); }
  const BuilderPtr append(const ContentPtr&, int64_t) override { n++; return shared_from_this(); }
};
int main(int argc, char** argv) {
  // argv: k length nextindex nexttotry begun  len_0 .. len_{k-1}
  int k = atoi(argv[1]); int64_t length = atoll(argv[2]), nextindex = atoll(argv[3]), nexttotry = atoll(argv[4]); bool begun = atoi(argv[5]) != 0;
  std::vector<BuilderPtr> contents; std::vector<std::string> keys; std::vector<const char*> ptrs;
  static const char* names[] = {"a", "b", "c", "d", "e", "f"};
  for (int i = 0; i < k; i++) { contents.push_back(std::make_shared<Count>(atoll(argv[6 + i]))); keys.push_back(names[i]); ptrs.push_back(names[i]); }
  ArrayBuilderOptions opts(8, 1.5);
  std::shared_ptr<RecordBuilder> rb = std::make_shared<RecordBuilder>(opts, contents, keys, ptrs, "", nullptr, length, begun, nextindex, nexttotry);
  try {
    rb->endrecord();
    printf("{\"outcome\": \"ok\", \"length\": %lld, \"begun\": %d, \"fields\": [", (long long)rb->length_, (int)rb->begun_);
    for (int i = 0; i < k; i++) printf("%s%lld", i ? ", " : "", (long long)rb->contents_[i].get()->length());
    printf("]}\n");
  } catch (std::invalid_argument& e) { printf("{\"outcome\": \"raised\"}\n"); }
  fflush(stdout); _Exit(0);
}
'''


def native_endrecord(k, length, nextindex, nexttotry, begun, lens):
    import subprocess, os, json
    exe = build.compile_objs_driver(NATIVE, [RB, 'src/libawkward/builder/Builder.cpp', 'src/libawkward/builder/ArrayBuilderOptions.cpp'])
    r = subprocess.run([exe, str(k), str(length), str(nextindex), str(nexttotry), str(int(begun))] + [str(x) for x in lens], capture_output=True, text=True, timeout=30,
                       env=dict(os.environ, ASAN_OPTIONS='detect_leaks=0', UBSAN_OPTIONS='halt_on_error=1:exitcode=87'), errors='replace')
    try:
        return json.loads(r.stdout.strip().splitlines()[-1])
    except (ValueError, IndexError):
        return dict(outcome='crash(%d)' % r.returncode, log=r.stderr[-300:])


@guard
def h_record_endrecord(k, pattern):
    """RecordBuilder::endrecord from any state with an open record whose fields were filled at most once (pattern[i] = field i already has
    its entry for this record): afterwards every field builder has exactly length_ + 1 entries (the missing ones received null()), the
    record count grew by one and the record is closed - for every value of the key-search cursor nexttotry_"""
    pattern = tuple(bool(x) for x in pattern)
    slots, nslots = builder_slots()
    mod = module_of(RB)
    fo, sz, al, fields = mod.types.struct_layout(struct_of(mod, '_ZN7awkward13RecordBuilder9endrecordEv'))
    kids = {}

    def kid_of(p, st, eng):
        cs = [(g, q) for g, q in ptr_cases(p) if q.obj is not None]
        if len(cs) != 1:
            raise Unsupported('field builder pointer is not a single object')
        return cs[0][1].obj

    def s_length(eng, fr, ins, st, name, argv):
        return st.mem.o[kid_of(argv[0], st, eng)].cells[32][0]

    def s_active(eng, fr, ins, st, name, argv):
        return z3.BitVecVal(0, 1)

    def s_null(eng, fr, ins, st, name, argv):
        sret, selfp = argv
        nm = kid_of(selfp, st, eng)
        o = st.mem.o[nm]
        o.cells[32] = (z3.simplify(o.cells[32][0] + 1), 8)
        st.trace = st.trace + ((st.pc, 'null', (nm,)),)
        rec = st.mem.o[sret.obj]
        rec.cells[sret.off] = (Ptr(nm, 0), 8)
        rec.cells[sret.off + 8] = (NULL, 8)
        return None
    stubs = dict(COMMON_STUBS)
    stubs.update({'vf$slot%d' % slots['6lengthEv']: s_length, 'vf$slot%d' % slots['6activeEv']: s_active, 'vf$slot%d' % slots['4nullEv']: s_null,
                  '_ZN7awkward4util5quoteERKNSt7__cxx1112basic_stringIcSt11char_traitsIcESaIcEEE': nodeh.s_empty_string,
                  '_ZNSt7__cxx1112basic_stringIcSt11char_traitsIcESaIcEEC1EPKcRKS3_': nodeh.s_empty_string, '_ZNSt7__cxx1112basic_stringIcSt11char_traitsIcESaIcEEC2EPKcRKS3_': nodeh.s_empty_string,
                  '_ZStplIcSt11char_traitsIcESaIcEENSt7__cxx1112basic_stringIT_T0_T1_EE*': nodeh.s_empty_string,
                  '_ZNSt16invalid_argumentC1ERKNSt7__cxx1112basic_stringIcSt11char_traitsIcESaIcEEE': lambda *a: None})
    m = MCtx([RB], unwind=k + 4, stubs=stubs)
    m.record('fakevt', {8 * j: (Ptr(('func', 'vf$slot%d' % j), 0), 8) for j in range(nslots)}, const=True)
    length, nexttotry = m.bv('length'), m.bv('nexttotry')
    m.assume(length >= 0, length <= 2 ** 40, nexttotry >= 0, nexttotry <= k)
    parr = []
    for i in range(k):
        m.record('field%d' % i, {0: (Ptr('fakevt', 0), 8), 8: (NULL, 8), 16: (NULL, 8), 32: (length + (1 if pattern[i] else 0), 8)})
        parr += [Ptr('field%d' % i, 0), NULL]
    contents = m.array('contents', ('ptr', 64), 2 * k, arr=parr)
    st0 = State({}, m.mem, z3.BoolVal(True))
    vt = m.eng.global_ptr(st0, '@_ZTVN7awkward13RecordBuilderE', mod)
    # enable_shared_from_this: weak_this -> control block with use_count 1
    m.record('ctrl', {0: (NULL, 8), 8: (z3.BitVecVal(1, 32), 4), 12: (z3.BitVecVal(1, 32), 4)})
    cells = {0: (Ptr(vt.obj, 16), 8), 8: (Ptr('rb', 0), 8), 16: (Ptr('ctrl', 0), 8),
             fo[1]: (BV(8), 8), fo[1] + 8: (z3.FPVal(1.5, z3.Float64()), 8),
             fo[2]: (contents, 8), fo[2] + 8: (Ptr('contents', BV(2 * k)), 8), fo[2] + 16: (Ptr('contents', BV(2 * k)), 8),
             fo[7]: (length, 8), fo[8]: (z3.BitVecVal(1, 8), 1), fo[9]: (BV(-1), 8), fo[10]: (nexttotry, 8), fo[11]: (BV(k), 8)}
    this = m.record('rb', cells)
    m.record('ret', {})
    out = m.call('_ZN7awkward13RecordBuilder9endrecordEv', [Ptr('ret', 0), this])
    obls = [('closing a record whose fields were filled at most once does not raise', out.raised)]
    ok = z3.Not(out.raised)
    obls.append(('the record count grows by one', z3.And(ok, m.cell('rb', fo[7]) != length + 1)))
    obls.append(('the record is closed', z3.And(ok, m.cell('rb', fo[8]) != 0)))
    for i in range(k):
        obls.append(('field %d has exactly one entry per closed record (a missing field received null())' % i, z3.And(ok, m.mem.o['field%d' % i].cells[32][0] != length + 1)))

    def replay(model, ent):
        ev = lambda e: model.eval(e, model_completion=True).as_signed_long()
        L, NT = ev(length), ev(nexttotry)
        lens = [L + (1 if p else 0) for p in pattern]
        res = native_endrecord(k, L, -1, NT, True, lens)
        payload = dict(fields=k, filled=list(pattern), length=L, nexttotry=NT, native=res)
        if res.get('outcome') != 'ok' or res.get('length') != L + 1 or res.get('begun') != 0 or res.get('fields') != [L + 1] * k:
            return True, 'RecordBuilder with %d fields, %d closed records, fields already filled for the open record: %s, nexttotry_ = %d: endrecord gives %s; every field must end with %d entries' % (
                k, L, list(pattern), NT, res, L + 1), payload
        return False, 'native builder agrees (%s)' % res, payload
    return mdischarge(m, 'RecordBuilder::endrecord fields=%d filled=%s' % (k, ''.join('x' if p else '.' for p in pattern)), obls, [('cursor at the end of the keys', nexttotry == k)], replay=replay,
                      prefer=[length <= 5], extra=dict(bounds='%d fields, filled pattern concrete (case split); record count and key cursor symbolic' % k))


def jobs(tier):
    js = []
    for k in ((1, 2, 3) if tier == 'quick' else (1, 2, 3, 4)):
        for pat in itertools.product((0, 1), repeat=k):
            js.append((h_record_endrecord, (k, pat), 600))
    return js
