"""C13: translation validation of every compiled kernel specialization against its Python definition in
kernel-specification.yml (specpy on the YAML text vs llbmc on the kernel IR)."""
import re, time, json
import z3
from . import kspec, kharness, specpy, pre, native
from .kharness import Ctx, widen
from .llbmc import Unsupported, Ptr
from .specpy import Spec, SpecNotExecutable, SArr, bv


class TypedArr(SArr):
    """definition-side array that keeps the C element type: reads widen, writes narrow (with a 'fits' record)"""
    __slots__ = ('bits', 'signed', 'isbool')


def fp_sort_for(spec):
    fps = [a for a in spec.args if a.kind == 'f']
    if not fps:
        return None
    outs = [a for a in fps if a.dir == 'out' and a.depth]
    pick = outs[0] if outs else fps[0]
    return z3.Float32() if pick.bits == 32 else z3.Float64()


class TSpec(Spec):
    """Spec whose arrays are the typed z3 arrays shared with the kernel side"""

    def __init__(self, *a, **kw):
        Spec.__init__(self, *a, **kw)
        self.fits = []
        self.meta = {}     # name -> (bits, signed, kind)

    def declare(self, name, arr, bits, signed, kind):
        self.meta[name] = (bits, signed, kind)
        self.env[name] = SArr(name, arr, None, False)

    def ev(self, e, a):
        import ast
        if isinstance(e, ast.Subscript):
            name, idx = self.subscript_target(e, a)
            self.acc.append((a, name, idx, 'r'))
            bits, signed, kind = self.meta[name]
            v = z3.Select(self.env[name].arr, idx)
            if kind == 'f':
                return v
            return widen(v, signed)
        return Spec.ev(self, e, a)

    def store(self, tgt, v, a):
        name, idx = self.subscript_target(tgt, a)
        arr = self.env[name]
        bits, signed, kind = self.meta[name]
        self.acc.append((a, name, idx, 'w'))
        if kind == 'f':
            v = self.to_fp(v, z3.Float32() if bits == 32 else z3.Float64())
        elif kind == 'b':
            v = z3.If(self.tobool(v), z3.BitVecVal(1, 8), z3.BitVecVal(0, 8))
        else:
            if z3.is_fp(v):
                # C cast float -> integer (truncation); out-of-range is UB and assumed away
                self.assume.append(z3.Implies(a, z3.And(z3.Not(z3.fpIsNaN(v)), z3.Not(z3.fpIsInf(v)),
                                                        z3.fpLT(z3.fpAbs(v), z3.FPVal(2.0 ** 62, v.sort())))))
                v = z3.fpToSBV(z3.RTZ(), v, z3.BitVecSort(64))
            v = specpy.to_int(v)
            if bits < 64:
                nv = z3.Extract(bits - 1, 0, v)
                self.fits.append(z3.Implies(a, widen(nv, signed) == v))
                v = nv
            elif not signed:
                self.fits.append(z3.Implies(a, v >= 0))
        new = z3.Store(arr.arr, idx, v)
        self.env[name] = SArr(name, new if z3.is_true(a) else z3.If(a, new, arr.arr), None, False)


def check_spec(specname, N, fixed=None, qtimeout_ms=30000, use_pre=True, want_model=True, plan_only=False, safety_only=False):
    """-> result dict for one specialization"""
    t0 = time.time()
    sp = kspec.spec_by_name()[specname]
    k = sp.kernel
    fixed = dict(fixed or {})
    res = dict(unit=specname, kernel=k.name, N=N, fixed=fixed, obligations=[], status='ok')
    if any(a.depth > 1 for a in sp.args):
        res['status'] = 'skipped'; res['detail'] = 'pointer-to-pointer argument (covered by a dedicated harness)'
        return res
    if not k.definition.strip() or k.definition.strip().startswith('Insert Python definition here'):
        res['status'] = 'no-definition'; return res
    fps = fp_sort_for(sp)
    try:
        spec = TSpec(k.definition, N, fp_sort=fps, name=k.name)
    except SpecNotExecutable as e:
        res['status'] = 'spec-not-executable'; res['detail'] = str(e); return res
    params = spec.params()
    if len(params) != len(sp.args):
        res['status'] = 'spec-not-executable'
        res['detail'] = 'definition takes %d parameters, the C kernel %d' % (len(params), len(sp.args))
        return res
    try:
        ctx = Ctx(specname, unwind=N * N * N + N + 6, check_timeout_ms=qtimeout_ms)
    except Unsupported as e:
        res['status'] = 'unsupported'; res['detail'] = str(e); return res
    args = kharness.setup_from_spec(ctx, sp, values=fixed)
    # ---- definition-side arguments
    sargs = {}
    for a, pname in zip(sp.args, params):
        if a.depth == 0:
            v = ctx.scalars[a.name][0]
            if a.kind == 'f':
                sargs[pname] = v if fps is None or v.sort() == fps else z3.fpFPToFP(z3.RNE(), v, fps)
            elif a.kind == 'b':
                sargs[pname] = v == 1
            else:
                sargs[pname] = widen(v, a.signed)
                if a.bits == 64 and not a.signed:
                    ctx.assume(v >= 0)
    spec.env = {}
    for a, pname in zip(sp.args, params):
        if a.depth == 1:
            ai = ctx.arrays[a.name]
            spec.declare(pname, ai.init, a.bits, a.signed, a.kind)
    arrenv = dict(spec.env)
    try:
        sargs.update(arrenv)
        spec.run(sargs)
    except SpecNotExecutable as e:
        res['status'] = 'spec-not-executable'; res['detail'] = str(e); return res
    pmap = {pname: a for a, pname in zip(sp.args, params)}
    # ---- premises
    prem = []
    if use_pre:
        pp, pnames = pre.for_spec(ctx, sp, N)
        prem += pp
        res['preconditions'] = pnames
    for a in sp.args:            # C-level typing facts
        if a.depth == 1 and a.kind == 'b':
            for g, nm, idx, rw in spec.acc:
                if pmap[nm].name == a.name and rw == 'r':
                    prem.append(z3.Implies(g, z3.ULE(z3.Select(ctx.arrays[a.name].init, idx), 1)))
        if a.depth == 1 and a.kind == 'i' and a.bits == 64 and not a.signed:
            for g, nm, idx, rw in spec.acc:
                if pmap[nm].name == a.name and rw == 'r':
                    prem.append(z3.Implies(g, z3.Select(ctx.arrays[a.name].init, idx) >= 0))
    prem += spec.assume + spec.fits
    for g, nm, idx, rw in spec.acc:
        cap = ctx.arrays[pmap[nm].name].cap
        prem.append(z3.Implies(g, z3.And(idx >= 0, idx < cap)))
    for u in spec.unwind:
        prem.append(z3.Not(u))
    for d in spec.divzero:
        prem.append(z3.Not(d))
    for a in sp.args:
        if a.depth == 1:
            cap = ctx.arrays[a.name].cap
            prem.append(z3.And(cap >= 0, cap <= 70000))       # large enough to reach the int8/int16 index boundaries
    ctx.assume(*prem)
    res['premises'] = len(prem)
    # vacuity: premises satisfiable at all
    r0 = ctx.s.check()
    if r0 != z3.sat:
        res['status'] = 'vacuous' if r0 == z3.unsat else 'inconclusive'
        res['detail'] = 'premises are %s' % r0
        return res
    if plan_only:
        # which length-like scalars do the premises bound by N?  (candidates for case splitting)
        bounded = []
        for a in sp.args:
            if a.depth == 0 and a.kind == 'i' and a.name not in fixed:
                v = widen(ctx.scalars[a.name][0], a.signed)
                ctx.s.push(); ctx.s.add(z3.Or(v < 0, v > N)); r = ctx.s.check(); ctx.s.pop()
                if r == z3.unsat:
                    bounded.append(a.name)
        res['bounded'] = bounded
        res['status'] = 'plan'
        return res
    # ---- kernel side
    try:
        cerr = ctx.call(specname, args)
    except Unsupported as e:
        res['status'] = 'unsupported'; res['detail'] = str(e); return res
    res['encode_s'] = round(time.time() - t0, 2)
    res['instrs'] = ctx.eng.stats['instrs']
    res['funcs'] = sorted(ctx.eng.stats['funcs'])
    # ---- obligations
    obls = [('status', 'error status differs', cerr != spec.err)] if not safety_only else []
    live = z3.Not(spec.err)
    cells = {}
    for g, nm, idx, rw in spec.acc:
        if rw != 'w' or safety_only:
            continue
        key = (nm, z3.simplify(idx).sexpr())
        if key in cells:
            cells[key] = (cells[key][0], z3.Or(cells[key][1], g))
        else:
            cells[key] = (idx, g)
    for (nm, _), (idx, g) in cells.items():
        a = pmap[nm]
        sv = z3.Select(spec.env[nm].arr, idx)
        kv = z3.Select(ctx.final_arr(a.name), idx)
        obls.append(('out', '%s[%s]' % (a.name, z3.simplify(idx)), z3.And(live, g, sv != kv)))
    for o in ctx.eng.obl:
        obls.append((o.kind, o.desc + ' @ ' + o.where, o.cond))
    nsat = nunk = 0
    cex = None
    seen = set()
    for kind, desc, cond in obls:
        h = cond.hash() if hasattr(cond, 'hash') else id(cond)
        if (kind, h) in seen:
            continue
        seen.add((kind, h))
        tq = time.time()
        r, m = ctx.solve(cond, qtimeout_ms)
        ent = dict(kind=kind, desc=desc[:160], result=str(r), t=round(time.time() - tq, 2))
        if r == z3.sat:
            nsat += 1
            if cex is None and want_model:
                try:
                    cex = dict(obligation=ent, inputs=ctx.concretize(m))
                except Exception as e:      # noqa
                    cex = dict(obligation=ent, error='concretize failed: %s' % e)
        elif r != z3.unsat:
            nunk += 1
        res['obligations'].append(ent)
    # reachability twins: no-error outcome reachable; error outcome reachable when the definition can raise
    tw = {}
    tw['ok-reachable'] = str(ctx.solve(live, qtimeout_ms)[0])
    if not z3.is_false(z3.simplify(spec.err)):
        tw['error-reachable'] = str(ctx.solve(spec.err, qtimeout_ms)[0])
    wr = [g for g, nm, idx, rw in spec.acc if rw == 'w']
    if wr:
        tw['write-reachable'] = str(ctx.solve([live, z3.Or(wr)], qtimeout_ms)[0])
    res['twins'] = tw
    res['nsat'], res['nunknown'] = nsat, nunk
    # translator validation (DESIGN 2.7): evaluate the encoding under a model of the premises and compare with the natively
    # compiled kernel run on the same concrete inputs (only when every access was proved in bounds)
    if nsat == 0 and nunk == 0 and not safety_only:
        try:
            res['validated'] = validate_encoding(ctx, sp, spec, pmap, live, wr, qtimeout_ms)
        except Exception as e:      # noqa
            res['validated'] = dict(ok=False, why='validation failed to run: %s: %s' % (type(e).__name__, e))
    if nsat:
        res['status'] = 'disagree'
        res['cex'] = cex
    elif nunk:
        res['status'] = 'inconclusive'
    if tw.get('ok-reachable') == 'unsat' and tw.get('error-reachable') != 'sat':
        res['status'] = 'vacuous'
    return res


def validate_encoding(ctx, sp, spec, pmap, live, wr, qtimeout_ms):
    r, m = ctx.solve([live] + ([z3.Or(wr)] if wr else []), qtimeout_ms)
    if r != z3.sat:
        r, m = ctx.solve(live, qtimeout_ms)
    if r != z3.sat:
        return dict(ok=None, why='no model')
    inp = ctx.concretize(m, maxcap=128)
    if any(a['cap'] > 100000 or a['cap'] < 0 for a in inp['arrays'].values()):
        return dict(ok=None, why='model capacities too large')
    arrays = {}
    for n, a in inp['arrays'].items():
        xs = list(a['values']) + [a.get('fill', 0)] * (a['cap'] - len(a['values']))
        for i, v in (a.get('sparse') or {}).items():
            if int(i) < len(xs):
                xs[int(i)] = v
        arrays[n] = xs
    err, outs = native.run_ctypes(sp, inp['scalars'], arrays)
    kerr = z3.is_true(m.eval(ctx.errs[-1][2], model_completion=True))
    if (err is not None) != kerr:
        return dict(ok=False, why='status: native %r, encoding %r' % (err, kerr))
    bad = []
    ncell = 0
    for g, nm, idx, rw in spec.acc:
        if rw != 'w' or not z3.is_true(m.eval(g, model_completion=True)):
            continue
        a = pmap[nm]
        i = m.eval(idx, model_completion=True).as_signed_long()
        kv = m.eval(z3.Select(ctx.final_arr(a.name), z3.BitVecVal(i, 64)), model_completion=True)
        if a.kind == 'f':
            kvp = kharness.fp_to_py(kv)
        else:
            kvp = kv.as_signed_long() if a.signed else kv.as_long()
            if a.kind == 'b':
                kvp = bool(kvp)
        nv = outs[a.name][i]
        ncell += 1
        if not same(a, kvp, nv):
            bad.append((a.name, i, kvp, nv))
    if bad:
        return dict(ok=False, why='cells differ: %s' % bad[:3])
    return dict(ok=True, cells=ncell)


# ------------------------------------------------------------------------------------------------ replay
class RecList(list):
    def __init__(self, xs):
        list.__init__(self, xs)
        self.written = set()

    def __setitem__(self, i, v):
        if not isinstance(i, int) or i < 0:
            raise IndexError('negative/non-int index %r' % (i,))
        list.__setitem__(self, i, v)
        self.written.add(i)

    def __getitem__(self, i):
        if not isinstance(i, int) or i < 0:
            raise IndexError('negative/non-int index %r' % (i,))
        return list.__getitem__(self, i)


def exec_definition(kernel, spec, inputs):
    """run the YAML definition in CPython on concrete inputs -> (raised?, {argname: RecList})"""
    env = {'uint8': lambda x: int(x) & 0xFF, 'kSliceNone': 2 ** 63 - 1, 'kMaxInt64': 2 ** 63 - 2, 'float': float, 'int': int}
    exec(compile(kernel.definition, '<definition %s>' % kernel.name, 'exec'), env)
    fn = env[kernel.name] if kernel.name in env else [v for k, v in env.items() if callable(v) and k.startswith('awkward')][0]
    argv, lists = [], {}
    for a in spec.args:
        if a.depth == 0:
            argv.append(inputs['scalars'][a.name])
        else:
            info = inputs['arrays'][a.name]
            cap = max(0, min(info['cap'], 100000))
            vals = list(info['values'][:cap]) + [info.get('fill', 0)] * (cap - len(info['values']))
            for i, v in (info.get('sparse') or {}).items():
                if int(i) < cap:
                    vals[int(i)] = v
            if a.kind == 'b':
                vals = [bool(v) for v in vals]
            lists[a.name] = RecList(vals)
            argv.append(lists[a.name])
    raised = False
    try:
        fn(*argv)
    except ValueError:
        raised = True
    return raised, lists


def c_cast(a, v):
    """python value -> value as stored in C element type of arg a, or None if not representable"""
    if a.kind == 'f':
        import struct
        return struct.unpack('<f', struct.pack('<f', float(v)))[0] if a.bits == 32 else float(v)
    if a.kind == 'b':
        return bool(v)
    if isinstance(v, float):
        if v != v or v in (float('inf'), float('-inf')):
            return None
        v = int(v)
    v = int(v)
    lo, hi = (-(1 << (a.bits - 1)), (1 << (a.bits - 1)) - 1) if a.signed else (0, (1 << a.bits) - 1)
    return v if lo <= v <= hi else None


def same(a, x, y):
    if a.kind == 'f':
        import math, struct
        if x != x and y != y:
            return True
        return struct.pack('<d', float(x)) == struct.pack('<d', float(y))
    return x == y


def replay(specname, inputs):
    """replay concrete inputs on the natively compiled kernel (ASan/UBSan driver) and on CPython executing the
    definition.  -> dict(confirmed: bool, why, native, spec)"""
    sp = kspec.spec_by_name()[specname]
    k = sp.kernel
    out = dict(confirmed=False, unit=specname, inputs=inputs)
    try:
        raised, lists = exec_definition(k, sp, inputs)
    except IndexError as e:
        out['why'] = 'definition itself indexes out of range on these inputs: %s' % e
        return out
    except Exception as e:      # noqa
        out['why'] = 'definition failed in CPython: %s: %s' % (type(e).__name__, e)
        return out
    call = dict(spec=sp, scalars=inputs['scalars'],
                arrays={n: dict(cap=min(max(0, i['cap']), 100000), values=i['values'], sparse=i.get('sparse'), fill=i.get('fill', 0))
                        for n, i in inputs['arrays'].items()})
    nat = native.run_driver([call])
    out['native'] = dict(status=nat['status'], log=nat['log'][-1500:], results=nat['results'])
    out['spec'] = dict(raised=raised)
    if nat['status'] == 'sanitizer':
        out['confirmed'] = True
        out['why'] = 'sanitizer report (out-of-extent access or undefined behaviour) in the native kernel'
        return out
    if nat['status'] in ('timeout', 'crash'):
        out['confirmed'] = True
        out['why'] = 'native kernel %s' % nat['status']
        return out
    r = nat['results'][0]
    nerr = r['err'] is not None
    if nerr != raised:
        out['confirmed'] = True
        out['why'] = 'error status differs: kernel %s, definition %s' % ('error "%s"' % r['err'] if nerr else 'success',
                                                                        'raises' if raised else 'returns')
        return out
    if raised:
        out['why'] = 'both report an error'
        return out
    diffs = []
    for a in sp.args:
        if a.depth != 1 or a.name not in lists:
            continue
        L = lists[a.name]
        nb = r['bufs'].get('c0_' + a.name)
        for i in sorted(L.written):
            ev = c_cast(a, L[i])
            if ev is None:
                continue
            nv = nb[i]
            if isinstance(nv, str):
                nv = float(nv.replace('"', ''))
            if a.kind == 'b':
                nv = bool(nv)
            if not same(a, ev, nv):
                diffs.append((a.name, i, ev, nv))
    if diffs:
        out['confirmed'] = True
        out['why'] = 'outputs differ: ' + ', '.join('%s[%d] definition=%r kernel=%r' % d for d in diffs[:4])
    else:
        out['why'] = 'native kernel and CPython definition agree on these inputs'
    return out


# ------------------------------------------------------------------------------------------------ driver
EXTRA_SPLIT = [(r'^awkward_Identities', ['fromwidth', 'tolength', 'fromlength']),
               (r'combinations_length', ['n']),
               (r'^awkward_RegularArray_getitem_next_range', ['nextsize']),
               (r'rpad', ['target'])]


def plan_cases(plan, N):
    import itertools
    names = list(plan.get('bounded', []))
    sp = kspec.spec_by_name()[plan['unit']]
    for rx, extra in EXTRA_SPLIT:
        if re.search(rx, plan['unit']):
            for a in sp.args:
                if a.depth == 0 and a.name in extra and a.name not in names:
                    names.append(a.name)
    if not names:
        return [{}]
    return [dict(zip(names, vals)) for vals in itertools.product(range(N + 1), repeat=len(names))]


def representative(k):
    """quick tier: one specialization per kernel (the first 64-bit signed one if any, else the first)"""
    for s in k.specs:
        if '64' in s.name and 'U32' not in s.name:
            return [s]
    return k.specs[:1]


def main(report, tier):
    from . import runner
    N = 2 if tier == 'quick' else 3
    qt = 15000 if tier == 'quick' else 60000
    kernels = kspec.load()
    if tier == 'quick':
        specs = [s for k in kernels for s in k.specs]       # all specializations, N=2
    else:
        specs = [s for k in kernels for s in k.specs]
    if tier == 'quick':
        # units whose definition-vs-kernel query does not finish within the quick budget; they are examined by the thorough tier and
        # their semantics is covered by C01 (jagged_apply), C07 (combinations_length) and C03 (float products)
        skip = re.compile(r'getitem_jagged_apply|reduce_prod_float')
        specs = [s for s in specs if not skip.search(s.name)]
    only = __import__('os').environ.get('VERIF_ONLY')
    if only:
        specs = [s for s in specs if any(x in s.name for x in only.split(','))]
    from . import build
    build.native_kernels()        # built once here; workers only load it (translator validation via ctypes)
    plans = runner.run_tasks([(check_spec, (s.name, N, None, 10000, True, False, True), 60) for s in specs])
    jobs, static = [], []
    for p in plans:
        if p['status'] == 'plan':
            for case in plan_cases(p, N):
                jobs.append((check_spec, (p['unit'], N, case, qt), 90 if tier == 'quick' else 900))
        else:
            static.append(p)
    results = runner.run_tasks(jobs)
    try:
        import json, os
        with open(os.path.join(runner.VERIF, '.cache', 'C13_tasks_%s.json' % tier), 'w') as f:
            json.dump([dict(unit=r['unit'], fixed=r.get('fixed'), status=r['status'], wall_s=r['wall_s'], detail=r.get('detail')) for r in results + plans], f)
    except OSError:
        pass
    return summarize(report, tier, N, specs, static, results)


def summarize(report, tier, N, specs, static, results):
    import collections
    per = collections.defaultdict(list)
    for r in results:
        per[r['unit']].append(r)
    nobl = ndis = nq = nontriv = nvalid = 0
    mismatch = []
    samples, notexec, inconclusive, unsupported = [], [], [], []
    programs_ok = 0
    for unit, rs in sorted(per.items()):
        st = collections.Counter(r['status'] for r in rs)
        for r in rs:
            for o in r.get('obligations', []):
                nobl += 1; nq += 1
                if o['result'] == 'unsat':
                    ndis += 1
            tw = r.get('twins', {})
            nq += len(tw)
            if tw.get('write-reachable') == 'sat' or tw.get('error-reachable') == 'sat':
                nontriv += 1
            v = r.get('validated') or {}
            if v.get('ok') is True:
                nvalid += 1
            elif v.get('ok') is False:
                report.harness_errors.append('encoding/native mismatch for %s case %s: %s' % (unit, r.get('fixed'), v.get('why')))
                mismatch.append(unit)
        if st.get('disagree'):
            r = [r for r in rs if r['status'] == 'disagree'][0]
            cex = r.get('cex') or {}
            rp = None
            if cex.get('inputs'):
                try:
                    rp = replay(unit, cex['inputs'])
                except Exception as e:      # noqa
                    rp = dict(confirmed=False, why='replay failed: %s: %s' % (type(e).__name__, e))
            ob = cex.get('obligation', {})
            what = ob.get('kind', '?') + ':' + re.sub(r'\[.*', '', ob.get('desc', '').split(' @ ')[0])[:60]
            key = '%s|%s' % (unit, what)
            text = '%s disagrees with its definition (%s; case %s): %s' % (unit, what, r.get('fixed'), (rp or {}).get('why'))
            if rp and rp.get('confirmed'):
                path = report.save_replay(unit, dict(unit=unit, obligation=ob, case=r.get('fixed'), replay=rp))
                report.violation(key, path, text)
            else:
                report.harness_errors.append('unreproduced counterexample for %s (%s): %s' % (unit, what, (rp or {}).get('why')))
                inconclusive.append(unit)
        elif st.get('inconclusive') or st.get('timeout'):
            inconclusive.append(unit)
        elif st.get('unsupported') or st.get('harness-error'):
            unsupported.append((unit, [r.get('detail') for r in rs if r['status'] in ('unsupported', 'harness-error')][0]))
        elif st.get('vacuous') == len(rs):
            unsupported.append((unit, 'all cases vacuous'))
        else:
            programs_ok += 1
            if len(samples) < 6 and rs[0].get('obligations'):
                samples.append(dict(unit=unit, case=rs[0].get('fixed'), preconditions=rs[0].get('preconditions'),
                                    obligations=rs[0]['obligations'][:4], twins=rs[0].get('twins')))
    for p in static:
        if p['status'] == 'spec-not-executable':
            notexec.append((p['unit'], p.get('detail')))
        elif p['status'] in ('inconclusive', 'timeout', 'harness-error', 'unsupported'):
            unsupported.append((p['unit'], p.get('detail')))
    # non-executable definitions are a defect of the specification itself: listed as findings per kernel
    seenk = set()
    for unit, d in notexec:
        kname = kspec.spec_by_name()[unit].kernel.name
        if kname in seenk:
            continue
        seenk.add(kname)
        report.violation('%s|spec-not-executable' % kname, report.save_replay('spec_' + kname, dict(kernel=kname, detail=d)),
                         'the Python definition of %s in kernel-specification.yml is not executable: %s' % (kname, d))
    cov = dict(programs=max(1, programs_ok), disagreements_checked=nobl, obligations=nobl, discharged=ndis, evaluations=nq,
               distinct_nontrivial=nontriv, traces_validated_against_impl=nvalid, encoding_mismatches=sorted(set(mismatch)),
               samples=samples or [dict(note='no sample')],
               rule='one program = one extern "C" specialization compared with its YAML definition; one evaluation = one '
                    'solver query; non-trivial = case whose write/error reachability twin is sat',
               specializations_total=len(specs), specializations_agree=programs_ok,
               inconclusive=sorted(set(inconclusive)), not_encodable=[list(x) for x in unsupported][:80],
               definitions_not_executable=sorted(seenk), bound='loop trip counts <= %d, capacities <= %d' % (N, 4 * N * N + 64))
    return cov
