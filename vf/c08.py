"""C08: concatenation/merge/simplify kernels keep every value: element j of a part lands at tooffset + j, indexes are
shifted by exactly the content base of their part, missing stays missing, numeric fills equal the C cast, nothing outside
[tooffset, tooffset + length) is written."""
import re
import z3
from . import kspec, runner
from .oracle import Harness, discharge, guard, summarize
from .hlib import BV
from .kharness import widen

ASSUMPTIONS = [
    'kernel level: mergeable/merging_strategy/mergemany dispatch and the NumPy promotion table are C++ orchestration outside the claim',
    'numeric cast oracle stated independently in z3: sign/zero extension, truncation modulo 2^w, int->float RNE, float->float '
    'RNE, float->int truncation toward zero for in-range values (out-of-range float->int is UB in C and assumed away), ->bool is != 0',
    'indexes and bases are such that the shifted value fits the target index type (the C++ callers choose the target width that way)',
    'bounds: parts of <= 3 elements at a symbolic destination offset 0..3 inside a buffer with 2 spare cells on each side',
]

TYPES = {'int8': 'int8_t', 'int16': 'int16_t', 'int32': 'int32_t', 'int64': 'int64_t', 'uint8': 'uint8_t', 'uint16': 'uint16_t',
         'uint32': 'uint32_t', 'uint64': 'uint64_t', 'float32': 'float', 'float64': 'double', 'bool': 'bool'}


def fp_sort(bits):
    return z3.Float32() if bits == 32 else z3.Float64()


def c_cast(io_val, src, dst, assume):
    """io_val: value as io.x gives it (64-bit widened int, or FP). -> value comparable with io.y of dst"""
    sk, sb, ss = kspec.CT[src]
    dk, db, ds = kspec.CT[dst]
    if dk == 'b':
        if sk == 'f':
            return z3.If(z3.fpIsZero(io_val), BV(0), BV(1))
        return z3.If(io_val != 0, BV(1), BV(0))
    if dk == 'f':
        if sk == 'f':
            return io_val if sb == db else z3.fpFPToFP(z3.RNE(), io_val, fp_sort(db))
        if sk == 'b':
            return z3.If(io_val != 0, z3.FPVal(1.0, fp_sort(db)), z3.FPVal(0.0, fp_sort(db)))
        if sb == 64 and not ss:
            return z3.fpUnsignedToFP(z3.RNE(), io_val, fp_sort(db))
        return z3.fpSignedToFP(z3.RNE(), io_val, fp_sort(db))
    # integer destination
    if sk == 'f':
        lo, hi = (-(2.0 ** (db - 1)), 2.0 ** (db - 1)) if ds else (-1.0, 2.0 ** db)
        t = z3.fpRoundToIntegral(z3.RTZ(), io_val)
        assume.append(z3.And(z3.Not(z3.fpIsNaN(io_val)), z3.Not(z3.fpIsInf(io_val)),
                             z3.fpGT(t, z3.FPVal(lo, io_val.sort())) if not ds else z3.fpGEQ(t, z3.FPVal(lo, io_val.sort())),
                             z3.fpLT(t, z3.FPVal(hi, io_val.sort()))))
        v = z3.fpToSBV(z3.RTZ(), io_val, z3.BitVecSort(65))
        return widen(z3.Extract(db - 1, 0, v), ds)
    if sk == 'b':
        return z3.If(io_val != 0, BV(1), BV(0))
    return widen(z3.Extract(db - 1, 0, io_val), ds) if db < 64 else io_val


@guard
def h_numpy_fill(cname, n):
    m = re.match(r'awkward_NumpyArray_fill_to(\w+?)_from(\w+)$', cname)
    dst, src = TYPES[m.group(1)], TYPES[m.group(2)]
    h = Harness(cname, unwind=n + 4)
    h.scalar('tooffset', 'int64_t'); h.scalar('length', 'int64_t', n)
    off = h.scalars['tooffset'][0]
    h.assume(off >= 0, off <= 3)
    cap = off + n + 2
    h.arr('toptr', dst, cap); h.arr('fromptr', src, n, const=True)
    sk = kspec.CT[src]
    if sk[0] == 'b':
        for i in range(n):
            h.assume(z3.ULE(h.raw_init('fromptr', i), 1))
    if kspec.CT[dst][0] == 'b':
        for i in range(n + 6):
            h.assume(z3.ULE(h.raw_init('toptr', i), 1))
    pre = []
    vals = [c_cast(h.init('fromptr', i), src, dst, pre) for i in range(n)]
    h.assume(*pre)
    h.kcall(cname, [('buf', 'toptr'), 'tooffset', ('buf', 'fromptr'), 'length'])

    def oracle(io):
        out = [('no error', io.err())]
        off = io.sc('tooffset')
        dump = []
        for i in range(n):
            exp = c_cast(io.x('fromptr', i), src, dst, dump)
            got = io.y('toptr', off + i)
            if kspec.CT[dst][0] == 'f':
                out.append(('element %d lands at tooffset+%d with the value of the C cast' % (i, i), z3.Not(got == exp)))
            elif kspec.CT[dst][0] == 'b':
                out.append(('element %d lands at tooffset+%d with the value of the C cast' % (i, i), (got != 0) != (exp != 0)))
            else:
                out.append(('element %d lands at tooffset+%d with the value of the C cast' % (i, i), got != exp))
        for j in range(n + 6):
            outside = z3.And(j < io.cap('toptr'), z3.Or(j < off, j >= off + n))
            same = io.y('toptr', j) == io.x('toptr', j)
            out.append(('cell %d outside the destination range is untouched' % j, z3.And(outside, z3.Not(same))))
        return out
    return discharge(h, '%s n=%d' % (cname, n), oracle, [('nonzero offset', off == 2)], extra=dict(bounds=dict(n=n)))


def fits(v, ctype):
    k, b, s = kspec.CT[ctype]
    if b == 64 and s:
        return z3.BoolVal(True)
    lo, hi = (-(1 << (b - 1)), (1 << (b - 1)) - 1) if s else (0, (1 << b) - 1)
    return z3.And(v >= lo, v <= hi)


@guard
def h_shift(cname, n):
    """ListArray_fill / IndexedArray_fill(_count) / UnionArray_filltags(_const) / fillindex(_count): generic by argument names"""
    sp = kspec.spec_by_name()[cname]
    A = {a.name: a for a in sp.args}
    h = Harness(cname, unwind=n + 4)
    call = []
    outs = [a for a in sp.args if a.depth == 1 and a.dir == 'out']
    ins = [a for a in sp.args if a.depth == 1 and a.dir != 'out']
    offname = {}
    for a in sp.args:
        if a.depth == 0:
            if a.name == 'length':
                h.scalar('length', 'int64_t', n)
            else:
                h.scalar(a.name, a.ctype)
                v = h.scalars[a.name][0]
                if a.name.endswith('offset'):
                    h.assume(v >= 0, v <= 3)
                    offname[a.name[:-6]] = a.name
                else:
                    h.assume(widen(v, a.signed) >= 0, widen(v, a.signed) <= 2 ** 40)      # base
            call.append(a.name)
        else:
            if a.dir == 'out':
                o = h.scalars[offname[a.name]][0] if a.name in offname else None
                call.append(('buf', a.name))
            else:
                call.append(('buf', a.name))
    # declare arrays after scalars (offset scalars precede their arrays in every one of these kernels? not always) -> two passes
    for a in sp.args:
        if a.depth == 1:
            if a.dir == 'out':
                on = a.name + 'offset'
                off = h.scalars[on][0] if on in h.scalars else BV(0)
                h.arr(a.name, a.ctype, off + n + 2)
            else:
                h.arr(a.name, a.ctype, n, const=True)
    base = widen(h.scalars['base'][0], True) if 'base' in h.scalars else BV(0)
    isidx = 'IndexedArray_fill' in cname and 'count' not in cname
    for a in ins:
        for i in range(n):
            v = h.init(a.name, i)
            tgt = outs[0].ctype
            if isidx:
                h.assume(z3.Or(v < 0, fits(v + base, tgt)))
            else:
                h.assume(v >= 0, fits(v + base, tgt)) if 'base' in h.scalars else h.assume(fits(v, tgt))
    if not ins:
        for i in range(n):
            h.assume(fits(BV(i) + base, outs[0].ctype))
    h.kcall(cname, call)

    def oracle(io):
        out = [('no error', io.err())]
        base = io.sc('base') if 'base' in h.scalars else BV(0)
        for k, o in enumerate(outs):
            on = o.name + 'offset'
            off = io.sc(on) if on in h.scalars else BV(0)
            for i in range(n):
                if 'const' in cname:
                    exp = base
                elif 'count' in cname:
                    exp = BV(i) + base
                else:
                    src = ins[k] if len(ins) > k else ins[0]
                    v = io.x(src.name, i)
                    exp = z3.If(v < 0, BV(-1), v + base) if isidx else v + base
                out.append(('%s[offset+%d] = source shifted by the content base' % (o.name, i), io.y(o.name, off + i) != exp))
            for j in range(n + 6):
                outside = z3.And(j < io.cap(o.name), z3.Or(j < off, j >= off + n))
                out.append(('%s[%d] outside the destination range untouched' % (o.name, j), z3.And(outside, io.y(o.name, j) != io.x(o.name, j))))
        return out
    return discharge(h, '%s n=%d' % (cname, n), oracle, [], extra=dict(bounds=dict(n=n)))


@guard
def h_indexed_simplify(cname, n, m):
    """IndexedArray_simplify: composition of index maps with -1 absorbing"""
    sp = kspec.spec_by_name()[cname]
    A = {a.name: a for a in sp.args}
    h = Harness(cname, unwind=n + 4)
    h.scalar('outerlength', 'int64_t', n); h.scalar('innerlength', 'int64_t', m)
    h.arr('toindex', 'int64_t', n); h.arr('outerindex', A['outerindex'].ctype, n, const=True); h.arr('innerindex', A['innerindex'].ctype, m, const=True)
    h.kcall(cname, [('buf', 'toindex'), ('buf', 'outerindex'), 'outerlength', ('buf', 'innerindex'), 'innerlength'])

    def oracle(io):
        out, bad = [], []
        for i in range(n):
            j = io.x('outerindex', i)
            bad.append(j >= m)
            inner = BV(0)
            for k in range(m):
                inner = z3.If(j == k, io.x('innerindex', k), inner)
            exp = z3.If(j < 0, BV(-1), inner)
            # the kernel stores the inner index as is (a negative inner index stays missing)
            out.append(('toindex[%d] = inner[outer[%d]], missing absorbs' % (i, i), z3.And(z3.Not(io.err()), io.y('toindex', i) != exp)))
        out.append(('error iff an outer index is beyond the inner array', io.err() != z3.Or(bad + [z3.BoolVal(False)])))
        return out
    return discharge(h, '%s n=%d m=%d' % (cname, n, m), oracle, [('ok', z3.Not(h.errs[-1][2]))], extra=dict(bounds=dict(n=n, m=m)))


@guard
def h_union_simplify_one(cname, n):
    sp = kspec.spec_by_name()[cname]
    A = {a.name: a for a in sp.args}
    h = Harness(cname, unwind=n + 4)
    for nm in ('towhich', 'fromwhich', 'base'):
        h.scalar(nm, 'int64_t')
    h.scalar('length', 'int64_t', n)
    h.assume(h.scalars['towhich'][0] >= 0, h.scalars['towhich'][0] <= 127, h.scalars['fromwhich'][0] >= 0, h.scalars['fromwhich'][0] <= 127,
             h.scalars['base'][0] >= 0, h.scalars['base'][0] <= 2 ** 40)
    h.arr('totags', A['totags'].ctype, n); h.arr('toindex', A['toindex'].ctype, n)
    h.arr('fromtags', A['fromtags'].ctype, n, const=True); h.arr('fromindex', A['fromindex'].ctype, n, const=True)
    for i in range(n):
        h.assume(h.init('fromtags', i) >= 0, h.init('fromindex', i) >= 0, h.init('fromindex', i) <= 2 ** 40)
    h.kcall(cname, [('buf', 'totags'), ('buf', 'toindex'), ('buf', 'fromtags'), ('buf', 'fromindex'), 'towhich', 'fromwhich', 'length', 'base'])

    def oracle(io):
        out = [('no error', io.err())]
        for i in range(n):
            hit = io.x('fromtags', i) == io.sc('fromwhich')
            out.append(('element %d of the selected content: tag renumbered' % i, z3.And(hit, io.y('totags', i) != io.sc('towhich'))))
            out.append(('element %d of the selected content: index shifted by base' % i, z3.And(hit, io.y('toindex', i) != io.x('fromindex', i) + io.sc('base'))))
            out.append(('element %d of another content: untouched' % i, z3.And(z3.Not(hit), z3.Or(io.y('totags', i) != io.x('totags', i), io.y('toindex', i) != io.x('toindex', i)))))
        return out
    return discharge(h, '%s n=%d' % (cname, n), oracle, [], extra=dict(bounds=dict(n=n)))


@guard
def h_union_simplify(cname, n):
    """nested union: outer element i points at inner position j = outerindex[i]; elements of the selected inner content get the new tag and
    their inner index shifted by base; every other element is untouched.  Inner union of symbolic length up to 70000 (index width boundaries)."""
    sp = kspec.spec_by_name()[cname]
    A = {a.name: a for a in sp.args}
    h = Harness(cname, unwind=n + 4)
    for nm in ('towhich', 'innerwhich', 'outerwhich', 'base', 'innerlen'):
        h.scalar(nm, 'int64_t')
    h.scalar('length', 'int64_t', n)
    S = lambda k: h.scalars[k][0]
    h.assume(S('towhich') >= 0, S('towhich') <= 127, S('innerwhich') >= 0, S('innerwhich') <= 127, S('outerwhich') >= 0, S('outerwhich') <= 127,
             S('base') >= 0, S('base') <= 2 ** 40, S('innerlen') >= 1, S('innerlen') <= 70000)
    h.arr('totags', A['totags'].ctype, n); h.arr('toindex', A['toindex'].ctype, n)
    h.arr('outertags', A['outertags'].ctype, n, const=True); h.arr('outerindex', A['outerindex'].ctype, n, const=True)
    h.arr('innertags', A['innertags'].ctype, S('innerlen'), const=True); h.arr('innerindex', A['innerindex'].ctype, S('innerlen'), const=True)
    for i in range(n):
        h.assume(h.init('outertags', i) >= 0, h.init('outerindex', i) >= 0, h.init('outerindex', i) < S('innerlen'))
    h.kcall(cname, [('buf', 'totags'), ('buf', 'toindex'), ('buf', 'outertags'), ('buf', 'outerindex'), ('buf', 'innertags'), ('buf', 'innerindex'),
                    'towhich', 'innerwhich', 'outerwhich', 'length', 'base'])

    def oracle(io):
        out = [('no error', io.err())]
        for i in range(n):
            j = io.x('outerindex', i)
            hit = z3.And(io.x('outertags', i) == io.sc('outerwhich'), io.x('innertags', j) == io.sc('innerwhich'))
            ii = io.x('innerindex', j)
            fitsv = z3.And(ii >= 0, ii <= 2 ** 40)
            out.append(('element %d of the selected inner content: tag renumbered' % i, z3.And(hit, io.y('totags', i) != io.sc('towhich'))))
            out.append(('element %d of the selected inner content: inner index shifted by base' % i, z3.And(hit, fitsv, io.y('toindex', i) != ii + io.sc('base'))))
            out.append(('element %d elsewhere: untouched' % i, z3.And(z3.Not(hit), z3.Or(io.y('totags', i) != io.x('totags', i), io.y('toindex', i) != io.x('toindex', i)))))
        return out
    tw = [('inner position beyond 255', h.init('outerindex', 0) > 255)]
    return discharge(h, '%s n=%d' % (cname, n), oracle, tw, extra=dict(bounds=dict(n=n, innerlen=70000)))


@guard
def h_index_to_index64(cname, n):
    sp = kspec.spec_by_name()[cname]
    src = sp.args[1].ctype
    h = Harness(cname, unwind=n + 4)
    h.scalar('length', 'int64_t', n)
    h.arr('toptr', 'int64_t', n); h.arr('fromptr', src, n, const=True)
    h.kcall(cname, [('buf', 'toptr'), ('buf', 'fromptr'), 'length'])

    def oracle(io):
        return [('no error', io.err())] + [('toptr[%d] = value of fromptr[%d]' % (i, i), io.y('toptr', i) != io.x('fromptr', i)) for i in range(n)]
    return discharge(h, '%s n=%d' % (cname, n), oracle, [], extra=dict(bounds=dict(n=n)))


def jobs(tier):
    K = kspec.by_name()
    js = []
    n = 2 if tier == 'quick' else 3
    for s in K['awkward_NumpyArray_fill'].specs:
        m = re.match(r'awkward_NumpyArray_fill_to(\w+?)_from(\w+)$', s.name)
        if not m or m.group(1) not in TYPES or m.group(2) not in TYPES:
            continue
        if tier == 'quick' and ('16' in s.name) and 'float' not in s.name:
            continue
        js.append((h_numpy_fill, (s.name, n), 900))
    for kn in ('awkward_NumpyArray_fill_tobool', 'awkward_NumpyArray_fill_frombool'):
        if kn in K:
            for s in K[kn].specs:
                if re.match(r'awkward_NumpyArray_fill_to(\w+?)_from(\w+)$', s.name):
                    js.append((h_numpy_fill, (s.name, n), 900))
    for kn in ('awkward_ListArray_fill', 'awkward_IndexedArray_fill', 'awkward_IndexedArray_fill_count', 'awkward_UnionArray_filltags',
               'awkward_UnionArray_filltags_const', 'awkward_UnionArray_fillindex', 'awkward_UnionArray_fillindex_count'):
        for s in K[kn].specs:
            js.append((h_shift, (s.name, n), 600))
    for s in K['awkward_IndexedArray_simplify'].specs:
        js.append((h_indexed_simplify, (s.name, n, 2), 600))
    for s in K['awkward_UnionArray_simplify_one'].specs:
        js.append((h_union_simplify_one, (s.name, n), 600))
    for s in K['awkward_UnionArray_simplify'].specs:
        js.append((h_union_simplify, (s.name, n), 600))
    for s in K['awkward_Index_to_Index64'].specs:
        js.append((h_index_to_index64, (s.name, n + 1), 300))
    return js


def all_jobs(tier):
    from . import extra_misc, mnode
    return jobs(tier) + extra_misc.jobs_for('C08', tier) + mnode.jobs_for('C08', tier)


def main(report, tier):
    return summarize(report, runner.run_tasks(all_jobs(tier)), 'C08')
