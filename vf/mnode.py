"""M-level harnesses for the per-node orchestration methods (C01 / C05 / C09 at the C++ method level), built on nodeh.
Each harness runs one real method of one real node class from the IR, on a node whose buffers are symbolic (list lengths case-split)
and whose content is an opaque test double, decodes the real result objects back from symbolic memory and compares the nested-list
value with Python list semantics applied to the input value.  Counterexamples are replayed through the public API of a natively
built libawkward (akrun) on real arrays."""
import itertools, z3
from . import runner, nodeh, fullnative
from .nodeh import NodeCtx, BV, Elem, NONE, compare, decode, value, concrete, SRC
from .mharness import mdischarge, module_of
from .oracle import guard
from .llbmc import Ptr, NULL, Unsupported


# ------------------------------------------------------------------------------------------------ Python reference semantics
def py_pad(lst, target, clip, none):
    if clip:
        return lst[:target] + [none] * max(0, target - len(lst))
    return lst + [none] * max(0, target - len(lst))


# ------------------------------------------------------------------------------------------------ node builders
def build_listoffset64(nc, lens, name='node'):
    """ListOffsetArray64 over the opaque content, offsets[0] symbolic >= 0, list lengths concrete"""
    n = len(lens)
    fo, sz, al, fields = nc.layout_of('LOA', '_ZNK7awkward17ListOffsetArrayOfIlE6lengthEv')
    first = nc.m.bv(name + '_off0')
    arr = z3.K(z3.BitVecSort(64), BV(0))
    offs = [first]
    for L in lens:
        offs.append(offs[-1] + L)
    for i, o in enumerate(offs):
        arr = z3.Store(arr, BV(i), o)
    data = nc.m.array(name + '_offsets', ('i', 64), n + 1, const=True, arr=arr)
    nc.m.assume(first >= 0, first <= 2 ** 40, offs[-1] <= nc.lencontent)
    cells = nc.content_header(name, nc.vptr_of('N7awkward17ListOffsetArrayOfIlEE', 'LOA'))
    nc.index_cells(cells, fo[1], data, BV(0), BV(n + 1))
    cells.update({fo[2]: (nc.content0, 8), fo[2] + 8: (NULL, 8), fo[3]: (BV(0, 8), 1)})
    this = nc.m.record(name, cells, const=True)
    lists = [[Elem(z3.simplify(offs[i] + j)) for j in range(L)] for i, L in enumerate(lens)]
    return this, lists, offs


def offsets_values(model, offs):
    return [model.eval(o, model_completion=True).as_signed_long() for o in offs]


def tolist_elem(model, v):
    if isinstance(v, list):
        return [tolist_elem(model, x) for x in v]
    if z3.is_true(model.eval(v.none, model_completion=True)):
        return None
    return model.eval(v.val, model_completion=True).as_signed_long()


def inner_lists(lc):
    """replay content for the deeper-axis cases: content element k is the list [100k, 100k+1, ...] of length k % 3 (lengths differ from
    element to element, so that a misaligned content shows)"""
    vals, offs, inner = [], [0], []
    for k in range(lc):
        row = [100 * k + j for j in range(k % 3)]
        inner.append(row)
        vals += row
        offs.append(len(vals))
    return 'i64 %s listoffset64 %s ' % (fullnative.ints(vals), fullnative.ints(offs)), inner


def akrun_check(program, expected, what):
    kind, got = fullnative.akrun(program)
    payload = dict(program=program, native=[kind, got], expected=expected)
    if kind != 'OK':
        return True, '%s: native library %s %s (expected %s)' % (what, kind, str(got)[:200], expected), payload
    if got != expected:
        return True, '%s: native library returns %s, list semantics give %s' % (what, got, expected), payload
    return False, 'native library agrees (%s)' % (got,), payload


# ------------------------------------------------------------------------------------------------ C09: rpad / rpad_and_clip
@guard
def h_listoffset_rpad(lens, target, clip, deep):
    lens = list(lens)
    meth = 'rpad_and_clip' if clip else 'rpad'
    fn = '_ZNK7awkward17ListOffsetArrayOfIlE%d%sElll' % (len(meth), meth)
    kernels = ['awkward_index_rpad_and_clip_axis1', 'awkward_ListOffsetArray_rpad_and_clip_axis1', 'awkward_ListOffsetArray_rpad_length_axis1',
               'awkward_ListOffsetArray_rpad_axis1', 'awkward_IndexedArray_simplify', 'awkward_ListOffsetArray_compact_offsets', 'awkward_ListArray_compact_offsets']
    nc = NodeCtx(['LOA', 'IDX', 'CNT', 'UTL', 'KD', 'IA', 'RA', 'IDS'], kernels, unwind=max(8, sum(lens) + target * len(lens) + 4))
    F = nc.derived_stub('13rpad_and_clipElll' if clip else '4rpadElll', meth)
    this, lists, offs = build_listoffset64(nc, lens)
    nc.m.record('ret', {})
    axis = 2 if deep else 1
    out = nc.m.call(fn, [Ptr('ret', 0), this, BV(target), BV(axis), BV(0)])
    obls = [('%s does not raise' % meth, out.raised)]
    res = decode(nc, out.mem, nc.m.cell('ret', 0))
    got = value(res)
    if deep:
        want = [[Elem(F(e.val)) for e in lst] for lst in lists]
        calls = [(pc, a) for pc, nm, a in out.trace if nm == meth]
        obls.append(('the content is asked exactly once', z3.BoolVal(len(calls) != 1)))
        for pc, a in calls:
            obls.append(('the content receives (target, axis, depth + 1)', z3.And(pc, z3.Or(a[0] != target, a[1] != axis, a[2] != 1))))
    else:
        want = [py_pad(lst, target, clip, NONE) for lst in lists]
    obls += compare(got, want)

    def replay(model, ent):
        ov = offsets_values(model, offs)
        lc = max(model.eval(nc.lencontent, model_completion=True).as_signed_long(), ov[-1])
        if lc > 200:
            return False, 'content too long to replay (%d)' % lc, dict(offsets=ov)
        head, inner = inner_lists(lc) if deep else ('i64 %s ' % fullnative.ints(range(lc)), None)
        prog = head + 'listoffset64 %s %s %d %d' % (fullnative.ints(ov), 'rpadclip' if clip else 'rpad', target, axis)
        inp = [list(range(ov[i], ov[i + 1])) for i in range(len(lens))]
        if deep:
            exp = [[py_pad(inner[x], target, clip, None) for x in lst] for lst in inp]
        else:
            exp = [py_pad(lst, target, clip, None) for lst in inp]
        return akrun_check(prog, exp, 'ListOffsetArray64(offsets=%s)::%s(%d, axis=%d)' % (ov, meth, target, axis))
    return mdischarge(nc.m, 'ListOffsetArray64::%s lens=%s target=%d axis=%d' % (meth, ','.join(map(str, lens)), target, axis), obls,
                      [('non-zero offset origin', offs[0] > 0)], replay=replay, prefer=[offs[0] <= 3, nc.lencontent <= offs[-1] + 2],
                      extra=dict(bounds='list lengths %s and target %d concrete (case split), offsets origin and content length symbolic' % (lens, target)))


def jobs_c09(tier):
    js = []
    shapes = [(0,), (2,), (0, 3), (2, 0, 1)] if tier == 'quick' else [l for n in (1, 2, 3) for l in itertools.product(range(4), repeat=n)]
    targets = (0, 1, 3) if tier == 'quick' else (0, 1, 2, 3, 4)
    for lens in shapes:
        for t in targets:
            for clip in (False, True):
                js.append((h_listoffset_rpad, (lens, t, clip, False), 600))
        js.append((h_listoffset_rpad, (lens, 2, True, True), 600))
        js.append((h_listoffset_rpad, (lens, 2, False, True), 600))
    return js


# ------------------------------------------------------------------------------------------------ C05: num
def build_regular(nc, size, length, name='node'):
    fo, sz, al, fields = nc.layout_of('RA', '_ZNK7awkward12RegularArray6lengthEv')
    # class invariant (constructor): length = len(content) / size (floored) for size > 0, the declared zeros_length for size 0
    nc.m.assume(nc.lencontent >= size * length)
    if size > 0:
        nc.m.assume(nc.lencontent < size * length + size)
    cells = nc.content_header(name, nc.vptr_of('N7awkward12RegularArrayE', 'RA'))
    cells.update({fo[1]: (nc.content0, 8), fo[1] + 8: (NULL, 8), fo[2]: (BV(size), 8), fo[3]: (BV(length), 8)})
    this = nc.m.record(name, cells, const=True)
    lists = [[Elem(BV(i * size + j)) for j in range(size)] for i in range(length)]
    return this, lists


NUM_KERNELS = ['awkward_ListArray_num', 'awkward_RegularArray_num', 'awkward_ListOffsetArray_compact_offsets', 'awkward_ListArray_compact_offsets', 'awkward_new_Identities']


@guard
def h_num(cls, shape, deep):
    """num(axis) of a list node: axis 1 -> the list lengths (a NumpyArray of int64); deeper axis -> same list structure around content.num(axis, depth + 1)"""
    nc = NodeCtx(['LOA', 'LA', 'RA', 'NA', 'IDX', 'CNT', 'UTL', 'KD', 'IDS'], [k for k in NUM_KERNELS if k != 'awkward_new_Identities'], unwind=max(8, sum(shape) + 6))
    F = nc.derived_stub('3numEll', 'num')
    if cls == 'ListOffsetArray64':
        this, lists, offs = build_listoffset64(nc, list(shape))
        fn = '_ZNK7awkward17ListOffsetArrayOfIlE3numEll'
    else:
        size, length = shape
        this, lists = build_regular(nc, size, length)
        offs = None
        fn = '_ZNK7awkward12RegularArray3numEll'
    nc.m.record('ret', {})
    axis = 2 if deep else 1
    out = nc.m.call(fn, [Ptr('ret', 0), this, BV(axis), BV(0)])
    obls = [('num does not raise', out.raised)]
    res = decode(nc, out.mem, nc.m.cell('ret', 0))
    got = value(res)
    if deep:
        want = [[Elem(F(e.val)) for e in lst] for lst in lists]
        calls = [(pc, a) for pc, nm, a in out.trace if nm == 'num']
        obls.append(('the content is asked exactly once', z3.BoolVal(len(calls) != 1)))
        for pc, a in calls:
            obls.append(('the content receives (axis, depth + 1)', z3.And(pc, z3.Or(a[0] != axis, a[1] != 1))))
    else:
        want = [Elem(BV(len(lst))) for lst in lists]
    obls += compare(got, want)

    def replay(model, ent):
        lc = model.eval(nc.lencontent, model_completion=True).as_signed_long()
        if cls == 'ListOffsetArray64':
            ov = offsets_values(model, offs)
            lc = max(lc, ov[-1])
            node = 'listoffset64 %s' % fullnative.ints(ov)
            inp = [list(range(ov[i], ov[i + 1])) for i in range(len(shape))]
        else:
            lc = max(lc, shape[0] * shape[1])
            node = 'regular %d %d' % (shape[0], shape[1])
            inp = [list(range(i * shape[0], (i + 1) * shape[0])) for i in range(shape[1])]
        if lc > 200:
            return False, 'content too long to replay (%d)' % lc, dict()
        head, inner = inner_lists(lc) if deep else ('i64 %s ' % fullnative.ints(range(lc)), None)
        prog = head + node + ' num %d' % axis
        exp = [[len(inner[x]) for x in lst] for lst in inp] if deep else [len(lst) for lst in inp]
        return akrun_check(prog, exp, '%s %s::num(axis=%d)' % (cls, node, axis))
    return mdischarge(nc.m, '%s::num shape=%s axis=%d' % (cls, ','.join(map(str, shape)), axis), obls, [], replay=replay,
                      prefer=([offs[0] <= 3] if offs else []) + [nc.lencontent <= 30],
                      extra=dict(bounds='shape %s concrete (case split), offsets origin and content length symbolic' % (shape,)))


def jobs_c05(tier):
    js = []
    shapes = [(0,), (2,), (0, 3), (2, 0, 1)] if tier == 'quick' else [l for n in (1, 2, 3) for l in itertools.product(range(4), repeat=n)]
    for lens in shapes:
        for deep in (False, True):
            js.append((h_num, ('ListOffsetArray64', lens, deep), 600))
    for size, length in ([(0, 3), (2, 2), (1, 0), (3, 1)] if tier == 'quick' else itertools.product(range(4), range(4))):
        for deep in (False, True):
            js.append((h_num, ('RegularArray', (size, length), deep), 600))
    pats = [(0,), (1,), (0, 1, 0), (1, 0, 0), (0, 0, 1, 0)] if tier == 'quick' else [p for n in (1, 2, 3, 4) for p in itertools.product((0, 1), repeat=n)]
    for p in pats:
        for deep in (False, True):
            js.append((h_option_flatten, (p, deep), 600))
    return js


# ------------------------------------------------------------------------------------------------ C05: flatten through an option node
def build_option64(nc, pattern, name='node', option=True):
    """IndexedOptionArray64 (or IndexedArray64) over the opaque content; pattern: tuple of booleans, True = missing (any negative index)"""
    n = len(pattern)
    cls = 'N7awkward14IndexedArrayOfIlLb%dEEE' % (1 if option else 0)
    fo, sz, al, fields = nc.layout_of('IA', '_ZNK7awkward14IndexedArrayOfIlLb%dEE6lengthEv' % (1 if option else 0))
    data = nc.m.array(name + '_index', ('i', 64), n, const=True)
    a0 = z3.Array(name + '_index', z3.BitVecSort(64), z3.BitVecSort(64))
    idx = [z3.Select(a0, BV(i)) for i in range(n)]
    for i, miss in enumerate(pattern):
        nc.m.assume(idx[i] < 0 if miss else z3.And(idx[i] >= 0, idx[i] < nc.lencontent))
    cells = nc.content_header(name, nc.vptr_of(cls, 'IA'))
    nc.index_cells(cells, fo[1], data, BV(0), BV(n))
    cells.update({fo[2]: (nc.content0, 8), fo[2] + 8: (NULL, 8)})
    this = nc.m.record(name, cells, const=True)
    return this, idx


def flatten_stub(nc, deep):
    """Content::offsets_and_flattened on an opaque content.  At the content's own list level (not deep): element k (atom a) is a list of
    LEN(a) <= 2 items ITEM(a, 0..): returns offsets (zero-based running sum) and the flattened content.  Deeper: empty offsets and a
    content of the same length whose element k is FLAT(a) (the documented convention for 'flattened below this level')."""
    LEN = z3.Function('LEN', z3.BitVecSort(64), z3.BitVecSort(64))
    ITEM = z3.Function('ITEM', z3.BitVecSort(64), z3.BitVecSort(64), z3.BitVecSort(64))
    FLAT = z3.Function('FLAT', z3.BitVecSort(64), z3.BitVecSort(64))

    def stub(eng, fr, ins, st, name, argv):
        sret, selfp, axis, depth = argv
        nm, info = nc.content_info(selfp, st, eng)
        st.trace = st.trace + ((st.pc, 'offsets_and_flattened', (axis, depth)),)
        L = nodeh.concrete(info['length'], 'length of the content asked to flatten')
        atoms = [z3.simplify(z3.Select(info['atoms'], BV(k))) for k in range(L)]
        rec = st.mem.o[sret.obj]
        k = z3.BitVec('k!', 64)
        if deep:
            offs_terms = []
            flat = nc.fresh_content(eng, st, BV(L), z3.Lambda([k], FLAT(z3.Select(info['atoms'], k))), derived='flat')
        else:
            offs_terms = [BV(0)]
            for a in atoms:
                nc.m.s.add(LEN(a) >= 0, LEN(a) <= 2)
                offs_terms.append(z3.simplify(offs_terms[-1] + LEN(a)))
            body = BV(-7)
            for j in reversed(range(L)):
                body = z3.If(k < offs_terms[j + 1], ITEM(atoms[j], k - offs_terms[j]), body)
            flat = nc.fresh_content(eng, st, offs_terms[-1], z3.Lambda([k], body), derived='flat')
        arr = z3.K(z3.BitVecSort(64), BV(0))
        for i, t in enumerate(offs_terms):
            arr = z3.Store(arr, BV(i), t)
        buf = eng.new_array(st.mem, eng.fresh_name('heap'), ('i', 64), BV(max(1, len(offs_terms))), arr=arr, tag='heap')
        cells = {}
        nc.index_cells(cells, sret.off, buf, BV(0), BV(len(offs_terms)))
        rec.cells.update(cells)
        rec.cells[sret.off + 56] = (flat, 8)          # std::pair<Index64, ContentPtr>: IndexOf<int64_t> is 56 bytes
        rec.cells[sret.off + 64] = (NULL, 8)
        return None
    nc.m.eng.stubs['vf$slot%d' % nc.slot('21offsets_and_flattenedEll')] = stub
    return LEN, ITEM, FLAT


@guard
def h_option_flatten(pattern, deep):
    """IndexedOptionArray64::offsets_and_flattened: flattening through an option node - a missing list contributes nothing (an empty list in
    the offsets), present lists come in index order; below the list level the option node is rebuilt around the flattened content"""
    pattern = tuple(bool(x) for x in pattern)
    n = len(pattern)
    nc = NodeCtx(['IA', 'IDX', 'CNT', 'UTL', 'KD', 'IDS', 'NA'], [], unwind=max(8, 3 * n + 6))
    LEN, ITEM, FLAT = flatten_stub(nc, deep)
    this, idx = build_option64(nc, pattern)
    nc.m.record('ret', {})
    out = nc.m.call('_ZNK7awkward14IndexedArrayOfIlLb1EE21offsets_and_flattenedEll', [Ptr('ret', 0), this, BV(2 if deep else 1), BV(0)])
    obls = [('flatten does not raise', out.raised)]
    offs, _ = nc.index_terms(out.mem, Ptr('ret', 0), 'returned offsets')
    res = decode(nc, out.mem, nc.m.cell('ret', 56))
    if deep:
        obls.append(('no offsets are returned below the list level', z3.BoolVal(len(offs) != 0)))
        obls += compare(value(res), [NONE if miss else Elem(FLAT(idx[i])) for i, miss in enumerate(pattern)])
    else:
        want = [BV(0)]
        for i, miss in enumerate(pattern):
            want.append(want[-1] if miss else z3.simplify(want[-1] + LEN(idx[i])))
        if len(offs) != len(want):
            obls.append(('offsets have one entry per list plus one (%d, not %d)' % (len(want), len(offs)), z3.BoolVal(True)))
        else:
            for i, (a, b) in enumerate(zip(offs, want)):
                obls.append(('offsets[%d]: a missing list is an empty list, a present one keeps its length' % i, a != b))
        if res['cls'] != 'opaque':
            raise Unsupported('flattened content is not the content handed back by the inner flatten')
        j = z3.BitVec('j!pos', 64)
        body = BV(-7)
        for i in reversed(range(n)):
            if not pattern[i]:
                body = z3.If(j < want[i + 1], ITEM(idx[i], j - want[i]), body)
        obls.append(('the flattened content has the summed length', res['length'] != want[-1]))
        obls.append(('flattened item j is item (j - start) of the list that covers j', z3.And(j >= 0, j < want[-1], z3.Select(res['atoms'], j) != body)))

    def replay(model, ent):
        iv = [model.eval(x, model_completion=True).as_signed_long() for x in idx]
        lc = max([model.eval(nc.lencontent, model_completion=True).as_signed_long()] + [v + 1 for v in iv])
        if lc > 60:
            return False, 'content too long to replay', dict(index=iv)
        head, inner = inner_lists(lc)
        if deep:
            vals, o2, inner2 = [], [0], []
            for k in range(lc):          # content element k: a list of (k % 2 + 1) lists
                rows = [[1000 * k + 10 * r + c for c in range((k + r) % 3)] for r in range(k % 2 + 1)]
                inner2.append(rows)
            flat1 = [r for rows in inner2 for r in rows]
            vals = [x for r in flat1 for x in r]
            oi, acc = [0], 0
            for r in flat1:
                acc += len(r); oi.append(acc)
            oo, acc = [0], 0
            for rows in inner2:
                acc += len(rows); oo.append(acc)
            head = 'i64 %s listoffset64 %s listoffset64 %s ' % (fullnative.ints(vals), fullnative.ints(oi), fullnative.ints(oo))
            exp = [None if v < 0 else [x for r in inner2[v] for x in r] for v in iv]
            prog = head + 'option64 %s flatten 2' % fullnative.ints(iv)
        else:
            exp = [x for v in iv if v >= 0 for x in inner[v]]
            prog = head + 'option64 %s flatten 1' % fullnative.ints(iv)
        return akrun_check(prog, exp, 'IndexedOptionArray64(index=%s)::flatten(axis=%d)' % (iv, 2 if deep else 1))
    return mdischarge(nc.m, 'IndexedOptionArray64::offsets_and_flattened pattern=%s %s' % (''.join('N' if p else 'v' for p in pattern), 'below' if deep else 'at list level'), obls,
                      [('index is not the identity', z3.Or([idx[i] != i for i in range(n) if not pattern[i]] + [z3.BoolVal(False)]))] if not all(pattern) else [],
                      replay=replay, prefer=[nc.lencontent <= 6] + [x >= -2 for x in idx],
                      extra=dict(bounds='%d entries, missing pattern concrete (case split), index values symbolic, inner list lengths <= 2 (uninterpreted)' % n))


def jobs_for(prop, tier):
    return {'C05': jobs_c05, 'C09': jobs_c09}.get(prop, lambda t: [])(tier)
